(** * Divsteps.v -- value-level model of the Bernstein-Yang divsteps code of
    mpyc/runtime.py (_iterations, gcp2, _gcd, gcd, lcm, _divsteps, inverse, gcdext).

    Values are unbounded integers (Z).  Secure sub-protocols are modelled by their ideal
    integer semantics:
      sgn(x, LT=True)   = 1 if x < 0 else 0          (lt0)
      g % 2             = Z.modulo g 2
      c.if_else(x, y)   = c*(x-y)+y                  (if_else; lists componentwise)
      c.if_swap(x, y)   = (x+c*(y-x), y-c*(y-x))     (if_swap)
      x / 2, x / d      = Z.div (the code uses exact field division; exactness of every
                          division that influences a result is part of what is proved)

    Main results (all closed under the global context):
      divsteps_invariant          invariant of the _divsteps/_gcd loops, all n
      delta_range, delta_range_secint, delta_arg_out_of_range_when_g_is_0
      BY_bound_small              g = 0 after _iterations(l) steps, all |f|,|g| <= 2^l, l <= 9
      gcd_raw_correct, gcd_correct_partial, lcm_correct_partial,
      gcdext_correct_partial, inverse_raw_congr, inverse_correct_partial
                                  (given BY_bound l; inverse range given inverse_range_bound l)
      inverse_range_bound_small   l <= 7
*)
Require Import ZArith Znumtheory Lia List Bool.
Import ListNotations.
Local Open Scope Z_scope.

(** ** Model definitions *)

Definition iterations (l : Z) : Z := (49*l + (if l <? 46 then 80 else 57)) / 17.

Definition if_else (c x y : Z) : Z := c*(x-y)+y.
Definition if_swap (c x y : Z) : Z*Z := (x + c*(y-x), y - c*(y-x)).
Definition lt0 (x : Z) : Z := if x <? 0 then 1 else 0.
Definition ge01 (x y : Z) : Z := if y <=? x then 1 else 0.
(* Python's int.bit_length for n >= 0 *)
Definition bit_length (n : Z) : Z := if n <=? 0 then 0 else Z.log2 n + 1.

(* gcp2: looks at the l least significant bits of a and b, index k of the first 1 in the
   bitwise OR, returns 2^k, or 2^l if there is none. *)
Fixpoint gcp2_aux (n : nat) (a b : Z) : Z :=
  match n with
  | O => 1
  | S n' => if Z.odd a || Z.odd b then 1 else 2 * gcp2_aux n' (a/2) (b/2)
  end.
Definition gcp2 (l a b : Z) : Z := gcp2_aux (Z.to_nat l) a b.

(* delta_gt0 = 1 - sgn((delta-1-(i%2))/2, l=min(i,l).bit_length(), LT=True) *)
Definition delta_arg (i delta : Z) : Z := (delta - 1 - (i mod 2)) / 2.
Definition delta_gt0 (i delta : Z) : Z := if delta_arg i delta <? 0 then 0 else 1.

(* loop body of _gcd, with the value d of delta_gt0 as a parameter *)
Definition divstep_gcd_d (d : Z) (s : Z*Z*Z) : Z*Z*Z :=
  let '(delta, f, g) := s in
  let g0 := g mod 2 in
  let c := d * g0 in
  let delta1 := if_else c (-delta) delta in
  let f1 := if_else c g f in
  let g1 := if_else c (-f) g in
  (delta1 + 1, f1, (g1 + g0 * f1) / 2).

Definition divstep_gcd (i : Z) (s : Z*Z*Z) : Z*Z*Z :=
  let '(delta, f, g) := s in divstep_gcd_d (delta_gt0 i delta) s.

(* state after the first n iterations (i = 0 .. n-1) of the for loop *)
Fixpoint steps_gcd (n : nat) (s : Z*Z*Z) : Z*Z*Z :=
  match n with
  | O => s
  | S n' => divstep_gcd (Z.of_nat n') (steps_gcd n' s)
  end.

Definition niter (l : Z) : nat := Z.to_nat (iterations l).

(* _gcd *)
Definition gcd_raw (l a b : Z) : Z :=
  let p := gcp2 l a b in
  let a1 := a / p in
  let b1 := b / p in
  let '(g, f) := if_swap (a1 mod 2) a1 b1 in
  let '(_, f', _) := steps_gcd (niter l) (1, f, g) in
  p * f'.

Definition gcd_v (l a b : Z) : Z := Z.abs (gcd_raw l a b).

Definition lcm_v (l a b : Z) : Z :=
  let g := gcd_raw l a b in
  Z.abs (a * (b / (g + (if g =? 0 then 1 else 0)))).

(* loop body of _divsteps; a is the (odd) first argument of _divsteps;
   state (delta, f, v, g, r) *)
Definition divstep_ext_d (a d : Z) (s : Z*Z*Z*Z*Z) : Z*Z*Z*Z*Z :=
  let '(delta, f, v, g, r) := s in
  let g0 := g mod 2 in
  let c := d * g0 in
  let delta1 := if_else c (-delta) delta in
  let f1 := if_else c g f in
  let v1 := if_else c r v in
  let g1 := if_else c (-f) g in
  let r1 := if_else c (-v) r in
  let g2 := if_else g0 (g1 + f1) g1 in
  let r2 := if_else g0 (r1 + v1) r1 in
  let r3 := if_else (r2 mod 2) (r2 + a) r2 in
  (delta1 + 1, f1, v1, g2 / 2, r3 / 2).

Definition divstep_ext (a i : Z) (s : Z*Z*Z*Z*Z) : Z*Z*Z*Z*Z :=
  let '(delta, f, v, g, r) := s in divstep_ext_d a (delta_gt0 i delta) s.

Fixpoint steps_ext (a : Z) (n : nat) (s : Z*Z*Z*Z*Z) : Z*Z*Z*Z*Z :=
  match n with
  | O => s
  | S n' => divstep_ext a (Z.of_nat n') (steps_ext a n' s)
  end.

(* _divsteps: returns (f, v) *)
Definition divsteps_v (l a b : Z) : Z*Z :=
  let '(_, f, v, _, _) := steps_ext a (niter l) (1, a, 0, b, 1) in (f, v).

(* inverse, before the two final range corrections *)
Definition inverse_raw (l a b : Z) : Z :=
  let c := 1 - a mod 2 in
  let '(a', b_) := if_swap c a b in
  let '(g, t) := divsteps_v l a' b_ in
  let t := g * (t - a') in
  let s := (1 - t * b_) / a' in
  if_else c t s.

Definition inverse_v (l a b : Z) : Z :=
  let u := inverse_raw l a b in
  let u := if_else (lt0 u) (u + 2*b) u in
  let u := if_else (ge01 u b) (u - b) u in
  u.

Definition gcdext_v (l a b : Z) : Z*Z*Z :=
  let p := gcp2 l a b in
  let a1 := a / p in
  let b1 := b / p in
  let c := 1 - a1 mod 2 in
  let '(a2, b2) := if_swap c a1 b1 in
  let '(g, t) := divsteps_v l a2 b2 in
  let g0 := g mod 2 in
  let sgn_g := g0 - 2 * lt0 g in
  let g := sgn_g * g in
  let t := sgn_g * t in
  let s := (g - t * b2) / (a2 + 1 - g0) in
  let '(s, t) := if_swap c s t in
  (p * g, s, t).

(** ** Examples (checked against the real protocol run with m=1) *)
Example ex_iterations : (iterations 8, iterations 32, iterations 46) = (27, 96, 135).
Proof. vm_compute. reflexivity. Qed.
Example ex_gcd_1 : gcd_v 8 (-128) 96 = 32.
Proof. vm_compute. reflexivity. Qed.
Example ex_gcd_2 : gcd_v 8 0 0 = 0.
Proof. vm_compute. reflexivity. Qed.
Example ex_lcm_1 : lcm_v 8 12 (-18) = 36.
Proof. vm_compute. reflexivity. Qed.
Example ex_gcdext_1 : gcdext_v 8 127 5 = (1, 3, -76).
Proof. vm_compute. reflexivity. Qed.
Example ex_gcdext_2 : gcdext_v 8 (-128) 96 = (32, -1, -1).
Proof. vm_compute. reflexivity. Qed.
Example ex_gcdext_3 : gcdext_v 8 0 0 = (0, 0, 0).
Proof. vm_compute. reflexivity. Qed.
Example ex_gcdext_4 : gcdext_v 8 0 (-128) = (128, 0, -1).
Proof. vm_compute. reflexivity. Qed.
Example ex_inverse_1 : inverse_v 8 5 127 = 51.
Proof. vm_compute. reflexivity. Qed.
Example ex_inverse_2 : inverse_v 8 6 35 = 6.
Proof. vm_compute. reflexivity. Qed.
Example ex_gcp2 : (gcp2 8 0 0, gcp2 8 (-128) 96, gcp2 8 12 7) = (256, 32, 1).
Proof. vm_compute. reflexivity. Qed.

(** ** Basic facts *)

Lemma mod2_cases : forall x, x mod 2 = 0 \/ x mod 2 = 1.
Proof. intros x. pose proof (Z.mod_pos_bound x 2). lia. Qed.

Lemma odd_mod2 : forall x, Z.odd x = true <-> x mod 2 = 1.
Proof. intros x. rewrite Zmod_odd. destruct (Z.odd x); split; intros; congruence || lia. Qed.

Lemma odd_false_mod2 : forall x, Z.odd x = false <-> x mod 2 = 0.
Proof. intros x. rewrite Zmod_odd. destruct (Z.odd x); split; intros; congruence || lia. Qed.

Lemma half_even : forall x, x mod 2 = 0 -> x = 2 * (x / 2).
Proof. intros x H. pose proof (Z.div_mod x 2). lia. Qed.

Lemma gcd_odd_2 : forall d f, Z.odd f = true -> (d | f) -> Z.gcd d 2 = 1.
Proof.
  intros d f Hf Hd.
  pose proof (Z.gcd_nonneg d 2) as Hnn.
  pose proof (Z.gcd_divide_r d 2) as H2.
  pose proof (Z.gcd_divide_l d 2) as Hl.
  assert (Hle : Z.gcd d 2 <= 2) by (apply Z.divide_pos_le; [lia | exact H2]).
  assert (Hne0 : Z.gcd d 2 <> 0).
  { intro E. rewrite E in H2. destruct H2 as [k Hk]. lia. }
  assert (Hne2 : Z.gcd d 2 <> 2).
  { intro E. rewrite E in Hl.
    assert (H2f : (2 | f)) by (eapply Z.divide_trans; eauto).
    destruct H2f as [k Hk]. apply odd_mod2 in Hf.
    rewrite Hk in Hf. rewrite Z.mod_mul in Hf; lia. }
  lia.
Qed.

Lemma gcd_odd_double : forall f y, Z.odd f = true -> Z.gcd f (2 * y) = Z.gcd f y.
Proof.
  intros f y Hf.
  apply Z.divide_antisym_nonneg; try apply Z.gcd_nonneg.
  - apply Z.gcd_greatest.
    + apply Z.gcd_divide_l.
    + apply Z.gauss with (m := 2).
      * apply Z.gcd_divide_r.
      * eapply gcd_odd_2; [exact Hf | apply Z.gcd_divide_l].
  - apply Z.gcd_greatest.
    + apply Z.gcd_divide_l.
    + apply Z.divide_mul_r. apply Z.gcd_divide_r.
Qed.

Lemma gcd_odd_half : forall f x, Z.odd f = true -> x mod 2 = 0 -> Z.gcd f (x / 2) = Z.gcd f x.
Proof.
  intros f x Hf Hx. rewrite (half_even x Hx) at 2. symmetry. apply gcd_odd_double. exact Hf.
Qed.

(** ** One step of the gcd loop, by cases *)

Lemma triple_eq : forall (a a' b b' c c' : Z),
  a = a' -> b = b' -> c = c' -> (a, b, c) = (a', b', c').
Proof. intros; subst; reflexivity. Qed.

Lemma delta_gt0_01 : forall i delta, delta_gt0 i delta = 0 \/ delta_gt0 i delta = 1.
Proof. intros. unfold delta_gt0. destruct (_ <? _); auto. Qed.

(* the "cases" form of the loop body: Bernstein-Yang's divstep *)
Definition divstep_ref (swap : bool) (s : Z*Z*Z) : Z*Z*Z :=
  let '(delta, f, g) := s in
  if swap then (1 - delta, g, (g - f) / 2)
  else (1 + delta, f, (g + (g mod 2) * f) / 2).

Lemma divstep_gcd_d_cases : forall d delta f g, d = 0 \/ d = 1 ->
  divstep_gcd_d d (delta, f, g) = divstep_ref ((d =? 1) && Z.odd g) (delta, f, g).
Proof.
  intros d delta f g Hd. unfold divstep_gcd_d, divstep_ref, if_else.
  destruct Hd as [-> | ->]; simpl (_ =? _); cbv iota beta; simpl andb.
  - apply triple_eq; [ring | ring | f_equal; ring].
  - destruct (Z.odd g) eqn:Eg.
    + apply odd_mod2 in Eg. rewrite Eg. apply triple_eq; [ring | ring | f_equal; ring].
    + apply odd_false_mod2 in Eg. rewrite Eg. apply triple_eq; [ring | ring | f_equal; ring].
Qed.

(* when g is even the value of delta_gt0 is irrelevant (it is multiplied by g%2 = 0) *)
Lemma divstep_gcd_d_even_indep : forall d d' delta f g, g mod 2 = 0 ->
  divstep_gcd_d d (delta, f, g) = divstep_gcd_d d' (delta, f, g).
Proof.
  intros d d' delta f g Hg. unfold divstep_gcd_d, if_else. rewrite Hg.
  apply triple_eq; [ring | ring | f_equal; ring].
Qed.

(* parity of delta makes the halved comparison exact *)
Lemma delta_gt0_spec : forall i delta, (delta - 1 - i) mod 2 = 0 ->
  (delta - 1 - i mod 2) mod 2 = 0 /\
  delta_gt0 i delta = (if 0 <? delta then 1 else 0).
Proof.
  intros i delta Hp.
  assert (Hpar : (delta - 1 - i mod 2) mod 2 = 0).
  { pose proof (Z.div_mod i 2). pose proof (Z.div_mod (delta - 1 - i) 2).
    replace (delta - 1 - i mod 2) with (0 + (i / 2 + (delta - 1 - i) / 2) * 2) by lia.
    rewrite Z.mod_add; [reflexivity | lia]. }
  split; [exact Hpar|].
  unfold delta_gt0, delta_arg.
  pose proof (half_even _ Hpar) as Hh.
  pose proof (mod2_cases i) as Hi.
  destruct (_ <? 0) eqn:E1; destruct (0 <? delta) eqn:E2; try reflexivity; exfalso;
    [apply Z.ltb_lt in E1; apply Z.ltb_lt in E2 | apply Z.ltb_ge in E1; apply Z.ltb_ge in E2]; lia.
Qed.

Lemma divstep_ref_preserves : forall swap delta f g delta' f' g',
  Z.odd f = true -> (swap = true -> Z.odd g = true) ->
  divstep_ref swap (delta, f, g) = (delta', f', g') ->
  Z.odd f' = true /\ Z.gcd f' g' = Z.gcd f g /\
  delta' = (if swap then 1 - delta else 1 + delta).
Proof.
  intros swap delta f g delta' f' g' Hf Hsw H. unfold divstep_ref in H.
  destruct swap.
  - specialize (Hsw eq_refl). injection H as <- <- <-.
    split; [exact Hsw|]. split; [|reflexivity].
    assert (He : (g - f) mod 2 = 0).
    { apply odd_false_mod2. rewrite Z.odd_sub, Hf, Hsw. reflexivity. }
    rewrite gcd_odd_half by assumption.
    replace (g - f) with (- f + 1 * g) by ring.
    rewrite Z.gcd_add_mult_diag_r, Z.gcd_opp_r. apply Z.gcd_comm.
  - injection H as <- <- <-.
    split; [exact Hf|]. split; [|reflexivity].
    assert (He : (g + g mod 2 * f) mod 2 = 0).
    { apply odd_false_mod2. rewrite Z.odd_add, Z.odd_mul, Hf, Bool.andb_true_r.
      rewrite (Zmod_odd g). destruct (Z.odd g); reflexivity. }
    rewrite gcd_odd_half by assumption.
    apply Z.gcd_add_mult_diag_r.
Qed.

(** ** Invariant of the _gcd loop *)

(* state s reached after n iterations started from (1, f0, g0) *)
Definition gcd_inv (f0 g0 : Z) (n : nat) (s : Z*Z*Z) : Prop :=
  let '(delta, f, g) := s in
  Z.odd f = true /\
  Z.gcd f g = Z.gcd f0 g0 /\
  (delta - 1 - Z.of_nat n) mod 2 = 0 /\
  Z.abs (delta - 1) <= Z.of_nat n.

Lemma divstep_gcd_ref : forall i delta f g, (delta - 1 - i) mod 2 = 0 ->
  divstep_gcd i (delta, f, g) = divstep_ref ((0 <? delta) && Z.odd g) (delta, f, g).
Proof.
  intros i delta f g Hp. unfold divstep_gcd.
  rewrite divstep_gcd_d_cases by apply delta_gt0_01.
  destruct (delta_gt0_spec i delta Hp) as [_ ->].
  destruct (0 <? delta); reflexivity.
Qed.

Lemma gcd_inv_step : forall f0 g0 n s,
  gcd_inv f0 g0 n s -> gcd_inv f0 g0 (S n) (divstep_gcd (Z.of_nat n) s).
Proof.
  intros f0 g0 n [[delta f] g] (Hf & Hg & Hp & Hr).
  rewrite divstep_gcd_ref by exact Hp.
  destruct (divstep_ref _ _) as [[delta' f'] g'] eqn:E.
  apply divstep_ref_preserves in E; [| exact Hf | intro Hs; apply andb_prop in Hs; tauto].
  destruct E as (Hf' & Hg' & Hd').
  unfold gcd_inv. rewrite Nat2Z.inj_succ.
  split; [exact Hf'|]. split; [congruence|].
  destruct ((0 <? delta) && Z.odd g) eqn:Esw.
  - apply andb_prop in Esw. destruct Esw as [Epos _]. apply Z.ltb_lt in Epos.
    subst delta'. split.
    + replace (1 - delta - 1 - Z.succ (Z.of_nat n))
        with ((delta - 1 - Z.of_nat n) + (- delta) * 2) by ring.
      rewrite Z.mod_add; [exact Hp | lia].
    + lia.
  - subst delta'. split.
    + replace (1 + delta - 1 - Z.succ (Z.of_nat n)) with (delta - 1 - Z.of_nat n) by ring.
      exact Hp.
    + lia.
Qed.

Lemma gcd_inv_steps : forall f0 g0 n, Z.odd f0 = true ->
  gcd_inv f0 g0 n (steps_gcd n (1, f0, g0)).
Proof.
  intros f0 g0 n Hf. induction n as [|n IH].
  - unfold gcd_inv; simpl steps_gcd.
    split; [exact Hf|]. split; [reflexivity|]. split; [reflexivity | simpl; lia].
  - simpl steps_gcd. apply gcd_inv_step. exact IH.
Qed.

(** ** The Bernstein-Yang iteration bound (Theorem 11.2 of eprint 2019/266), as a
       hypothesis; proved below by exhaustive computation for small l *)

Definition BY_bound (l : Z) : Prop :=
  forall f g, Z.odd f = true -> Z.abs f <= 2^l -> Z.abs g <= 2^l ->
    snd (steps_gcd (niter l) (1, f, g)) = 0.

Definition zrange (lo : Z) (n : nat) : list Z := map (fun k => lo + Z.of_nat k) (seq 0 n).

Lemma zrange_In : forall lo n z, lo <= z < lo + Z.of_nat n -> In z (zrange lo n).
Proof.
  intros lo n z H. unfold zrange.
  apply in_map_iff. exists (Z.to_nat (z - lo)). split; [lia|].
  apply in_seq. lia.
Qed.

Definition box (l : Z) : list Z := zrange (- 2^l) (Z.to_nat (2 * 2^l + 1)).

(* forward formulation of the loop *)
Fixpoint loop_gcd (m : nat) (i : Z) (s : Z*Z*Z) : Z*Z*Z :=
  match m with
  | O => s
  | S m' => loop_gcd m' (i + 1) (divstep_gcd i s)
  end.

Lemma loop_gcd_S : forall m i s,
  loop_gcd (S m) i s = divstep_gcd (i + Z.of_nat m) (loop_gcd m i s).
Proof.
  induction m as [|m IH]; intros i s.
  - simpl. rewrite Z.add_0_r. reflexivity.
  - change (loop_gcd (S (S m)) i s) with (loop_gcd (S m) (i + 1) (divstep_gcd i s)).
    rewrite IH. simpl loop_gcd. f_equal. lia.
Qed.

Lemma steps_gcd_loop : forall n s, steps_gcd n s = loop_gcd n 0 s.
Proof.
  induction n as [|n IH]; intros s.
  - reflexivity.
  - rewrite loop_gcd_S. simpl steps_gcd. rewrite IH. reflexivity.
Qed.

Lemma divstep_gcd_g0 : forall i delta f, exists delta', divstep_gcd i (delta, f, 0) = (delta', f, 0).
Proof.
  intros i delta f. unfold divstep_gcd, divstep_gcd_d, if_else.
  eexists. apply triple_eq; [reflexivity | | ].
  - rewrite Z.mod_0_l by lia. ring.
  - rewrite Z.mod_0_l by lia.
    replace (delta_gt0 i delta * 0 * (- f - 0) + 0 +
             0 * (delta_gt0 i delta * 0 * (0 - f) + f)) with 0 by ring.
    reflexivity.
Qed.

Lemma loop_gcd_g0 : forall m i delta f, exists delta', loop_gcd m i (delta, f, 0) = (delta', f, 0).
Proof.
  induction m as [|m IH]; intros i delta f.
  - exists delta. reflexivity.
  - change (loop_gcd (S m) i (delta, f, 0))
      with (loop_gcd m (i + 1) (divstep_gcd i (delta, f, 0))).
    destruct (divstep_gcd_g0 i delta f) as [d' ->]. apply IH.
Qed.

(* fast checker: Bernstein-Yang divstep with booleans and Z.div2, early exit at g = 0 *)
Fixpoint by_fast (m : nat) (delta f g : Z) : bool :=
  if g =? 0 then true else
  match m with
  | O => false
  | S m' =>
      if Z.odd g then
        if 0 <? delta then by_fast m' (1 - delta) g (Z.div2 (g - f))
        else by_fast m' (1 + delta) f (Z.div2 (g + f))
      else by_fast m' (1 + delta) f (Z.div2 g)
  end.

Lemma by_fast_sound : forall m i delta f g, (delta - 1 - i) mod 2 = 0 ->
  by_fast m delta f g = true -> snd (loop_gcd m i (delta, f, g)) = 0.
Proof.
  induction m as [|m IH]; intros i delta f g Hp H.
  - simpl in H. destruct (g =? 0) eqn:Eg; [|discriminate].
    apply Z.eqb_eq in Eg. simpl. exact Eg.
  - simpl in H. destruct (g =? 0) eqn:Eg.
    + apply Z.eqb_eq in Eg. subst g.
      destruct (loop_gcd_g0 (S m) i delta f) as [d' ->]. reflexivity.
    + change (loop_gcd (S m) i (delta, f, g))
        with (loop_gcd m (i + 1) (divstep_gcd i (delta, f, g))).
      rewrite divstep_gcd_ref by exact Hp. unfold divstep_ref.
      assert (Hp1 : (1 - delta - 1 - (i + 1)) mod 2 = 0).
      { replace (1 - delta - 1 - (i + 1)) with ((delta - 1 - i) + (- delta) * 2) by ring.
        rewrite Z.mod_add; [exact Hp | lia]. }
      assert (Hp2 : (1 + delta - 1 - (i + 1)) mod 2 = 0).
      { replace (1 + delta - 1 - (i + 1)) with (delta - 1 - i) by ring. exact Hp. }
      destruct (Z.odd g) eqn:Eo.
      * destruct (0 <? delta); simpl andb; cbv iota.
        -- rewrite <- Z.div2_div. apply IH; assumption.
        -- apply odd_mod2 in Eo. rewrite Eo, Z.mul_1_l, <- Z.div2_div. apply IH; assumption.
      * rewrite Bool.andb_false_r. apply odd_false_mod2 in Eo.
        rewrite Eo, Z.mul_0_l, Z.add_0_r, <- Z.div2_div. apply IH; assumption.
Qed.

Definition BY_check (l : Z) : bool :=
  let N := niter l in
  let bx := box l in
  forallb (fun f => negb (Z.odd f) || forallb (fun g => by_fast N 1 f g) bx) bx.

Lemma BY_check_sound : forall l, BY_check l = true -> BY_bound l.
Proof.
  intros l H f g Hf Hfr Hgr. unfold BY_check in H.
  rewrite forallb_forall in H.
  assert (Hin : forall z, Z.abs z <= 2^l -> In z (box l)).
  { intros z Hz. apply zrange_In. pose proof (Z.pow_nonneg 2 l). lia. }
  specialize (H f (Hin f Hfr)). rewrite Hf in H. simpl in H.
  rewrite forallb_forall in H. specialize (H g (Hin g Hgr)).
  rewrite steps_gcd_loop. apply by_fast_sound; [reflexivity | exact H].
Qed.

Theorem BY_bound_small : forall l, 0 <= l <= 9 -> BY_bound l.
Proof.
  intros l Hl.
  assert (H : l = 0 \/ l = 1 \/ l = 2 \/ l = 3 \/ l = 4 \/ l = 5 \/ l = 6 \/ l = 7 \/ l = 8 \/ l = 9) by lia.
  repeat (destruct H as [-> | H]); try subst l;
    apply BY_check_sound; vm_cast_no_check (eq_refl true).
Qed.

(** ** gcp2 and the 2-power stripping *)

Lemma gcp2_aux_spec : forall n a b, exists a' b',
  0 < gcp2_aux n a b /\ a = gcp2_aux n a b * a' /\ b = gcp2_aux n a b * b' /\
  (Z.odd a' || Z.odd b' = true \/ gcp2_aux n a b = 2 ^ Z.of_nat n).
Proof.
  induction n as [|n IH]; intros a b.
  - exists a, b. change (gcp2_aux 0 a b) with 1.
    split; [lia|]. split; [lia|]. split; [lia|]. right. reflexivity.
  - change (gcp2_aux (S n) a b)
      with (if Z.odd a || Z.odd b then 1 else 2 * gcp2_aux n (a / 2) (b / 2)).
    destruct (Z.odd a || Z.odd b) eqn:E.
    + exists a, b. split; [lia|]. split; [lia|]. split; [lia|]. left. exact E.
    + apply Bool.orb_false_iff in E. destruct E as [Ea Eb].
      apply odd_false_mod2 in Ea. apply odd_false_mod2 in Eb.
      destruct (IH (a / 2) (b / 2)) as (a' & b' & Hp & Ha & Hb & Hc).
      exists a', b'. split; [lia|]. split; [|split].
      * rewrite (half_even a Ea) at 1. rewrite Ha at 1. ring.
      * rewrite (half_even b Eb) at 1. rewrite Hb at 1. ring.
      * destruct Hc as [Hc | Hc]; [left; exact Hc | right].
        rewrite Hc, Nat2Z.inj_succ, Z.pow_succ_r by lia. reflexivity.
Qed.

Lemma strip_spec : forall l a b, 0 <= l -> Z.abs a <= 2^l -> Z.abs b <= 2^l ->
  a <> 0 \/ b <> 0 ->
  exists a1 b1, 0 < gcp2 l a b /\ a = gcp2 l a b * a1 /\ b = gcp2 l a b * b1 /\
    a / gcp2 l a b = a1 /\ b / gcp2 l a b = b1 /\
    Z.odd a1 || Z.odd b1 = true /\ Z.abs a1 <= 2^l /\ Z.abs b1 <= 2^l.
Proof.
  intros l a b Hl Ha Hb Hnz. unfold gcp2.
  destruct (gcp2_aux_spec (Z.to_nat l) a b) as (a1 & b1 & Hp & Ea & Eb & Hc).
  rewrite Z2Nat.id in Hc by exact Hl.
  set (p := gcp2_aux (Z.to_nat l) a b) in *.
  exists a1, b1.
  split; [exact Hp|]. split; [exact Ea|]. split; [exact Eb|].
  split; [rewrite Ea at 1; rewrite Z.mul_comm; apply Z.div_mul; lia|].
  split; [rewrite Eb at 1; rewrite Z.mul_comm; apply Z.div_mul; lia|].
  assert (Habs : forall q x y, 0 < q -> x = q * y -> Z.abs y <= Z.abs x).
  { intros q x y Hq ->. rewrite Z.abs_mul. nia. }
  assert (Habs1 : forall q x y, 0 < q -> x = q * y -> Z.abs x <= q -> Z.abs y <= 1).
  { intros q x y Hq -> Hx. rewrite Z.abs_mul in Hx. nia. }
  pose proof (Habs p a a1 Hp Ea) as Ha1.
  pose proof (Habs p b b1 Hp Eb) as Hb1.
  split; [|lia].
  destruct Hc as [Hc | Hc]; [exact Hc|].
  assert (Ha2 : Z.abs a1 <= 1) by (apply (Habs1 p a a1 Hp Ea); lia).
  assert (Hb2 : Z.abs b1 <= 1) by (apply (Habs1 p b b1 Hp Eb); lia).
  assert (Hnz1 : a1 <> 0 \/ b1 <> 0).
  { destruct Hnz as [Hnz | Hnz]; [left | right]; intro E0; apply Hnz;
      [rewrite Ea | rewrite Eb]; rewrite E0; ring. }
  assert (Hcases : a1 = 1 \/ a1 = -1 \/ b1 = 1 \/ b1 = -1) by lia.
  destruct Hcases as [-> | [-> | [-> | ->]]]; simpl; rewrite ?Bool.orb_true_r; reflexivity.
Qed.

Lemma if_swap_0 : forall x y, if_swap 0 x y = (x, y).
Proof. intros. unfold if_swap. f_equal; ring. Qed.
Lemma if_swap_1 : forall x y, if_swap 1 x y = (y, x).
Proof. intros. unfold if_swap. f_equal; ring. Qed.

Lemma steps_gcd_00 : forall n, exists delta', steps_gcd n (1, 0, 0) = (delta', 0, 0).
Proof.
  intros n. rewrite steps_gcd_loop. apply loop_gcd_g0.
Qed.

(** ** Correctness of _gcd / gcd / lcm, given the iteration bound *)

Lemma gcd_loop_result : forall l f g, BY_bound l -> Z.odd f = true ->
  Z.abs f <= 2^l -> Z.abs g <= 2^l ->
  exists delta' f', steps_gcd (niter l) (1, f, g) = (delta', f', 0) /\
    Z.odd f' = true /\ Z.abs f' = Z.gcd f g.
Proof.
  intros l f g HBY Hf Hfr Hgr.
  pose proof (HBY f g Hf Hfr Hgr) as Hg0.
  pose proof (gcd_inv_steps f g (niter l) Hf) as Hinv.
  destruct (steps_gcd (niter l) (1, f, g)) as [[delta' f'] g'].
  simpl in Hg0. subst g'. destruct Hinv as (Hf' & Hg' & _ & _).
  exists delta', f'. split; [reflexivity|]. split; [exact Hf'|].
  rewrite <- Hg'. symmetry. apply Z.gcd_0_r.
Qed.

Lemma gcd_raw_nonzero : forall l a b, BY_bound l -> 0 <= l ->
  Z.abs a <= 2^l -> Z.abs b <= 2^l -> a <> 0 \/ b <> 0 ->
  Z.abs (gcd_raw l a b) = Z.gcd a b.
Proof.
  intros l a b HBY Hl Ha Hb Hnz.
  destruct (strip_spec l a b Hl Ha Hb Hnz) as (a1 & b1 & Hp & Ea & Eb & Da & Db & Hodd & Ha1 & Hb1).
  unfold gcd_raw. rewrite Da, Db.
  set (p := gcp2 l a b) in *.
  assert (Hfin : forall f g, Z.odd f = true -> Z.abs f <= 2^l -> Z.abs g <= 2^l ->
            Z.gcd f g = Z.gcd a1 b1 ->
            Z.abs (let '(_, f', _) := steps_gcd (niter l) (1, f, g) in p * f') = Z.gcd a b).
  { intros f g Hf Hfr Hgr Hgcd.
    destruct (gcd_loop_result l f g HBY Hf Hfr Hgr) as (d' & f' & -> & _ & Hab).
    rewrite Z.abs_mul, Hab, Hgcd, (Z.abs_eq p) by lia.
    rewrite <- Z.gcd_mul_mono_l_nonneg by lia. rewrite <- Ea, <- Eb. reflexivity. }
  destruct (Z.odd a1) eqn:Oa.
  - apply odd_mod2 in Oa as Ma. rewrite Ma, if_swap_1.
    apply Hfin; auto.
  - apply odd_false_mod2 in Oa as Ma. rewrite Ma, if_swap_0.
    simpl in Hodd. apply Hfin; auto. apply Z.gcd_comm.
Qed.

Theorem gcd_raw_correct : forall l a b, BY_bound l -> 0 <= l ->
  Z.abs a <= 2^l -> Z.abs b <= 2^l ->
  Z.abs (gcd_raw l a b) = Z.gcd a b.
Proof.
  intros l a b HBY Hl Ha Hb.
  destruct (Z.eq_dec a 0) as [Ea | Ea]; [destruct (Z.eq_dec b 0) as [Eb | Eb]|].
  - (* a = b = 0 *)
    subst a b. unfold gcd_raw. rewrite !Zdiv_0_l. rewrite Zmod_0_l, if_swap_0.
    destruct (steps_gcd_00 (niter l)) as [d' ->]. rewrite Z.mul_0_r. reflexivity.
  - apply gcd_raw_nonzero; auto.
  - apply gcd_raw_nonzero; auto.
Qed.

(* gcd: the final abs(., l=l) is a secure comparison on l bits, exact for
   -2^l <= x < 2^l; inputs of bit length <= l (|a|,|b| < 2^l) guarantee that. *)
Theorem gcd_correct_partial : forall l a b, BY_bound l -> 0 <= l ->
  Z.abs a < 2^l -> Z.abs b < 2^l ->
  gcd_v l a b = Z.gcd a b /\ - 2^l <= gcd_raw l a b < 2^l.
Proof.
  intros l a b HBY Hl Ha Hb.
  assert (H : Z.abs (gcd_raw l a b) = Z.gcd a b) by (apply gcd_raw_correct; auto; lia).
  split; [exact H|].
  assert (Hle : Z.gcd a b < 2^l).
  { destruct (Z.eq_dec a 0) as [Ea | Ea].
    - subst a. rewrite Z.gcd_0_l. lia.
    - assert (Z.gcd a b <= Z.abs a); [|lia].
      apply Z.divide_pos_le; [lia|]. apply Z.divide_abs_r. apply Z.gcd_divide_l. }
  lia.
Qed.

Theorem lcm_correct_partial : forall l a b, BY_bound l -> 0 <= l ->
  Z.abs a <= 2^l -> Z.abs b <= 2^l ->
  lcm_v l a b = Z.lcm a b.
Proof.
  intros l a b HBY Hl Ha Hb.
  pose proof (gcd_raw_correct l a b HBY Hl Ha Hb) as H.
  unfold lcm_v, Z.lcm. set (g := gcd_raw l a b) in *.
  destruct (g =? 0) eqn:Eg.
  - apply Z.eqb_eq in Eg. rewrite Eg in *. simpl in H.
    symmetry in H. apply Z.gcd_eq_0 in H. destruct H; subst a b. reflexivity.
  - apply Z.eqb_neq in Eg. rewrite Z.add_0_r.
    destruct (Z.gcd_divide_r a b) as [k Hk].
    remember (Z.gcd a b) as G eqn:EG. clear EG.
    assert (Hg : g = G \/ g = - G) by lia.
    destruct Hg as [-> | Hg]; [reflexivity|].
    rewrite Hg, Hk.
    rewrite Z.div_mul by lia.
    replace (k * G) with ((- k) * (- G)) by ring.
    rewrite Z.div_mul by lia.
    rewrite Z.mul_opp_r, Z.abs_opp. reflexivity.
Qed.

(** ** The extended loop (_divsteps) *)

Definition proj3 (s : Z*Z*Z*Z*Z) : Z*Z*Z := let '(delta, f, v, g, r) := s in (delta, f, g).

(* forgetting v and r, _divsteps performs exactly the _gcd loop *)
Lemma divstep_ext_proj : forall a i s, proj3 (divstep_ext a i s) = divstep_gcd i (proj3 s).
Proof.
  intros a i [[[[delta f] v] g] r]. unfold divstep_ext, divstep_ext_d, divstep_gcd, divstep_gcd_d, proj3, if_else.
  apply triple_eq; [ring | ring | f_equal; ring].
Qed.

Lemma steps_ext_proj : forall a n s, proj3 (steps_ext a n s) = steps_gcd n (proj3 s).
Proof.
  intros a n s. induction n as [|n IH].
  - reflexivity.
  - simpl steps_ext. simpl steps_gcd. rewrite divstep_ext_proj, IH. reflexivity.
Qed.

Lemma halve_comb : forall a b q r g, Z.odd a = true -> g mod 2 = 0 -> r mod 2 = 0 ->
  g = q * a + r * b -> g / 2 = (q / 2) * a + (r / 2) * b.
Proof.
  intros a b q r g Ha Hg Hr E.
  assert (Hq : q mod 2 = 0).
  { apply odd_false_mod2. apply odd_false_mod2 in Hg. apply odd_false_mod2 in Hr.
    assert (Hqa : Z.odd (q * a) = false).
    { replace (q * a) with (g - r * b) by lia.
      rewrite Z.odd_sub, Z.odd_mul, Hg, Hr. reflexivity. }
    rewrite Z.odd_mul, Ha, Bool.andb_true_r in Hqa. exact Hqa. }
  pose proof (half_even g Hg). pose proof (half_even r Hr). pose proof (half_even q Hq).
  nia.
Qed.

Definition bezout_inv (a b : Z) (s : Z*Z*Z*Z*Z) : Prop :=
  let '(delta, f, v, g, r) := s in
  (exists u, f = u * a + v * b) /\ (exists q, g = q * a + r * b).

Lemma divstep_ext_d_bezout : forall a b d s,
  Z.odd a = true -> d = 0 \/ d = 1 ->
  Z.odd (snd (fst (fst (fst s)))) = true ->
  bezout_inv a b s -> bezout_inv a b (divstep_ext_d a d s).
Proof.
  intros a b d [[[[delta f] v] g] r] Ha Hd Hf [[u Hu] [q Hq]]. simpl in Hf.
  unfold divstep_ext_d, bezout_inv, if_else.
  set (g0 := g mod 2). set (c := d * g0).
  assert (Hg2 : (g0 * (c * (- f - g) + g + (c * (g - f) + f) - (c * (- f - g) + g))
                 + (c * (- f - g) + g)) mod 2 = 0).
  { apply odd_false_mod2. subst c g0. rewrite (Zmod_odd g).
    destruct Hd as [-> | ->]; destruct (Z.odd g) eqn:Og.
    - replace (1 * (0 * 1 * (- f - g) + g + (0 * 1 * (g - f) + f) - (0 * 1 * (- f - g) + g))
               + (0 * 1 * (- f - g) + g)) with (f + g) by ring.
      rewrite Z.odd_add, Hf, Og. reflexivity.
    - replace (0 * (0 * 0 * (- f - g) + g + (0 * 0 * (g - f) + f) - (0 * 0 * (- f - g) + g))
               + (0 * 0 * (- f - g) + g)) with g by ring.
      exact Og.
    - replace (1 * (1 * 1 * (- f - g) + g + (1 * 1 * (g - f) + f) - (1 * 1 * (- f - g) + g))
               + (1 * 1 * (- f - g) + g)) with (g - f) by ring.
      rewrite Z.odd_sub, Hf, Og. reflexivity.
    - replace (0 * (1 * 0 * (- f - g) + g + (1 * 0 * (g - f) + f) - (1 * 0 * (- f - g) + g))
               + (1 * 0 * (- f - g) + g)) with g by ring.
      exact Og. }
  clearbody c. clearbody g0.
  split.
  - exists (c * (q - u) + u). rewrite Hu, Hq. ring.
  - set (r2 := g0 * (c * (- v - r) + r + (c * (r - v) + v) - (c * (- v - r) + r)) + (c * (- v - r) + r)).
    assert (Hr3 : ((r2 mod 2) * (r2 + a - r2) + r2) mod 2 = 0).
    { apply odd_false_mod2.
      replace ((r2 mod 2) * (r2 + a - r2) + r2) with (r2 + (r2 mod 2) * a) by ring.
      rewrite (Zmod_odd r2), Z.odd_add, Z.odd_mul, Ha.
      destruct (Z.odd r2); reflexivity. }
    set (e := r2 mod 2) in *. clearbody e.
    exists ((c * (- u - q) + q + g0 * (c * (q - u) + u) - e * b) / 2).
    apply halve_comb; [exact Ha | exact Hg2 | exact Hr3 | ].
    subst r2. rewrite Hu, Hq. ring.
Qed.

(* state after n iterations of _divsteps(a, b) *)
Definition ext_inv (a b : Z) (n : nat) (s : Z*Z*Z*Z*Z) : Prop :=
  gcd_inv a b n (proj3 s) /\ bezout_inv a b s.

Lemma ext_inv_steps : forall a b n, Z.odd a = true ->
  ext_inv a b n (steps_ext a n (1, a, 0, b, 1)).
Proof.
  intros a b n Ha. split.
  - rewrite steps_ext_proj. apply gcd_inv_steps. exact Ha.
  - induction n as [|n IH].
    + change (steps_ext a 0 (1, a, 0, b, 1)) with (1, a, 0, b, 1). unfold bezout_inv.
      split; [exists 1 | exists 0]; ring.
    + simpl steps_ext.
      pose proof (gcd_inv_steps a b n Ha) as Hinv.
      pose proof (steps_ext_proj a n (1, a, 0, b, 1)) as Hpr.
      change (proj3 (1, a, 0, b, 1)) with (1, a, b) in Hpr. rewrite <- Hpr in Hinv. clear Hpr.
      destruct (steps_ext a n (1, a, 0, b, 1)) as [[[[delta f] v] g] r].
      simpl in Hinv. destruct Hinv as (Hf & _).
      unfold divstep_ext. apply divstep_ext_d_bezout; auto. apply delta_gt0_01.
Qed.

Lemma divsteps_result : forall l a b, BY_bound l -> Z.odd a = true ->
  Z.abs a <= 2^l -> Z.abs b <= 2^l ->
  exists f v u, divsteps_v l a b = (f, v) /\ Z.odd f = true /\
    Z.abs f = Z.gcd a b /\ f = u * a + v * b.
Proof.
  intros l a b HBY Ha Har Hbr.
  destruct (gcd_loop_result l a b HBY Ha Har Hbr) as (d' & f' & Hs & Hf' & Hab).
  pose proof (ext_inv_steps a b (niter l) Ha) as [_ Hbz].
  pose proof (steps_ext_proj a (niter l) (1, a, 0, b, 1)) as Hpr.
  change (proj3 (1, a, 0, b, 1)) with (1, a, b) in Hpr.
  unfold divsteps_v.
  destruct (steps_ext a (niter l) (1, a, 0, b, 1)) as [[[[delta f] v] g] r].
  simpl in Hpr. rewrite Hs in Hpr. injection Hpr as -> -> ->.
  destruct Hbz as [[u Hu] _].
  exists f', v, u. auto.
Qed.

Lemma tuple5_eq : forall (a a' b b' c c' d d' e e' : Z),
  a = a' -> b = b' -> c = c' -> d = d' -> e = e' -> (a, b, c, d, e) = (a', b', c', d', e').
Proof. intros; subst; reflexivity. Qed.

Lemma steps_ext_00 : forall n, exists delta' r', steps_ext 0 n (1, 0, 0, 0, 1) = (delta', 0, 0, 0, r').
Proof.
  induction n as [|n IH].
  - exists 1, 1. reflexivity.
  - destruct IH as (d & r & E). simpl steps_ext. rewrite E.
    unfold divstep_ext, divstep_ext_d, if_else. rewrite (Zmod_0_l 2).
    eexists. eexists. apply tuple5_eq; [reflexivity | ring | ring | | reflexivity].
    match goal with |- ?x / 2 = 0 => replace x with 0 by ring end. reflexivity.
Qed.

Lemma divsteps_00 : forall l, divsteps_v l 0 0 = (0, 0).
Proof.
  intros l. unfold divsteps_v. destruct (steps_ext_00 (niter l)) as (d & r & ->). reflexivity.
Qed.

(** ** gcdext *)

Lemma lt0_cases : forall x, (x < 0 /\ lt0 x = 1) \/ (0 <= x /\ lt0 x = 0).
Proof. intros x. unfold lt0. destruct (x <? 0) eqn:E; [apply Z.ltb_lt in E | apply Z.ltb_ge in E]; lia. Qed.

Lemma gcdext_core : forall l a2 b2 g t, BY_bound l -> Z.odd a2 = true ->
  Z.abs a2 <= 2^l -> Z.abs b2 <= 2^l -> divsteps_v l a2 b2 = (g, t) ->
  g mod 2 = 1 /\
  (1 - 2 * lt0 g) * g = Z.gcd a2 b2 /\
  (((1 - 2 * lt0 g) * g - (1 - 2 * lt0 g) * t * b2) / a2) * a2 + ((1 - 2 * lt0 g) * t) * b2
    = (1 - 2 * lt0 g) * g.
Proof.
  intros l a2 b2 g t HBY Ha Har Hbr E.
  destruct (divsteps_result l a2 b2 HBY Ha Har Hbr) as (f & v & u & E' & Hf & Hab & Hu).
  rewrite E in E'. injection E' as -> ->.
  assert (Ha0 : a2 <> 0) by (intro; subst a2; discriminate Ha).
  split; [apply odd_mod2; exact Hf|].
  remember (Z.gcd a2 b2) as G eqn:EG. clear EG.
  destruct (lt0_cases f) as [[Hneg ->] | [Hpos ->]].
  - split; [lia|].
    replace ((1 - 2 * 1) * f - (1 - 2 * 1) * v * b2) with ((- u) * a2) by (rewrite Hu; ring).
    rewrite Z.div_mul by exact Ha0. rewrite Hu. ring.
  - split; [lia|].
    replace ((1 - 2 * 0) * f - (1 - 2 * 0) * v * b2) with (u * a2) by (rewrite Hu; ring).
    rewrite Z.div_mul by exact Ha0. rewrite Hu. ring.
Qed.

Lemma scale_bezout : forall p a1 b1 a b X T Gv,
  a = p * a1 -> b = p * b1 -> X * a1 + T * b1 = Gv -> X * a + T * b = p * Gv.
Proof. intros; subst; ring. Qed.

Theorem gcdext_correct_partial : forall l a b, BY_bound l -> 0 <= l ->
  Z.abs a <= 2^l -> Z.abs b <= 2^l ->
  let '(g, s, t) := gcdext_v l a b in g = Z.gcd a b /\ s * a + t * b = g.
Proof.
  intros l a b HBY Hl Ha Hb.
  assert (Hz : (a = 0 /\ b = 0) \/ (a <> 0 \/ b <> 0)) by lia.
  destruct Hz as [[-> ->] | Hnz].
  - unfold gcdext_v. rewrite !Zdiv_0_l, Zmod_0_l. change (1 - 0) with 1.
    rewrite if_swap_1, divsteps_00. rewrite Zmod_0_l. simpl lt0. 
    replace (0 - 2 * lt0 0) with 0 by reflexivity.
    rewrite !Z.mul_0_l. simpl Z.sub. simpl Z.add. rewrite Zdiv_0_l, if_swap_1.
    rewrite Z.mul_0_r. split; reflexivity.
  - destruct (strip_spec l a b Hl Ha Hb Hnz) as (a1 & b1 & Hp & Ea & Eb & Da & Db & Hodd & Ha1 & Hb1).
    unfold gcdext_v. rewrite Da, Db.
    set (p := gcp2 l a b) in *.
    assert (Hgcd : Z.gcd a b = p * Z.gcd a1 b1).
    { rewrite <- Z.gcd_mul_mono_l_nonneg by lia. rewrite <- Ea, <- Eb. reflexivity. }
    destruct (Z.odd a1) eqn:Oa.
    + apply odd_mod2 in Oa as Ma. rewrite Ma. change (1 - 1) with 0. rewrite if_swap_0.
      destruct (divsteps_v l a1 b1) as [g t] eqn:E.
      destruct (gcdext_core l a1 b1 g t HBY Oa Ha1 Hb1 E) as (Hg0 & HG & HB).
      rewrite Hg0. replace (a1 + 1 - 1) with a1 by ring. rewrite if_swap_0.
      split; [rewrite HG; symmetry; exact Hgcd|].
      apply (scale_bezout p a1 b1); [exact Ea | exact Eb | exact HB].
    + apply odd_false_mod2 in Oa as Ma. rewrite Ma. change (1 - 0) with 1. rewrite if_swap_1.
      simpl in Hodd.
      destruct (divsteps_v l b1 a1) as [g t] eqn:E.
      destruct (gcdext_core l b1 a1 g t HBY Hodd Hb1 Ha1 E) as (Hg0 & HG & HB).
      rewrite Hg0. replace (b1 + 1 - 1) with b1 by ring. rewrite if_swap_1.
      split; [rewrite HG, Z.gcd_comm; symmetry; exact Hgcd|].
      rewrite Z.add_comm.
      apply (scale_bezout p b1 a1); [exact Eb | exact Ea | exact HB].
Qed.

(** ** inverse *)

Lemma mod_shift : forall x y k b, x = y + k * b -> x mod b = y mod b.
Proof. intros x y k b ->. apply Z_mod_plus_full. Qed.

Lemma abs1_sq : forall f, Z.abs f = 1 -> f * f = 1.
Proof. intros f H. assert (f = 1 \/ f = -1) as [-> | ->] by lia; reflexivity. Qed.

(* the value before the final two range corrections is an inverse of a modulo b *)
Theorem inverse_raw_congr : forall l a b, BY_bound l ->
  0 <= a <= 2^l -> 0 < b <= 2^l -> Z.gcd a b = 1 ->
  (inverse_raw l a b * a) mod b = 1 mod b.
Proof.
  intros l a b HBY Ha Hb Hg. unfold inverse_raw.
  destruct (Z.odd a) eqn:Oa.
  - apply odd_mod2 in Oa as Ma. rewrite Ma. change (1 - 1) with 0. rewrite if_swap_0.
    destruct (divsteps_result l a b HBY Oa) as (f & v & u & -> & Hf & Hab & Hu); try lia.
    rewrite Hg in Hab. apply abs1_sq in Hab.
    assert (Ha0 : a <> 0) by (intro; subst a; discriminate Oa).
    unfold if_else.
    replace (1 - f * (v - a) * b) with ((f * u + f * b) * a) by nia.
    rewrite Z.div_mul by exact Ha0.
    apply (mod_shift _ _ (- (f * (v - a)))). nia.
  - apply odd_false_mod2 in Oa as Ma. rewrite Ma. change (1 - 0) with 1. rewrite if_swap_1.
    assert (Ob : Z.odd b = true).
    { destruct (Z.odd b) eqn:Ob; [reflexivity | exfalso].
      apply odd_false_mod2 in Ob.
      assert (H2 : (2 | Z.gcd a b)).
      { apply Z.gcd_greatest; apply Z.mod_divide; lia. }
      rewrite Hg in H2. destruct H2 as [k Hk]. lia. }
    destruct (divsteps_result l b a HBY Ob) as (f & v & u & -> & Hf & Hab & Hu); try lia.
    rewrite Z.gcd_comm, Hg in Hab. apply abs1_sq in Hab.
    unfold if_else.
    apply (mod_shift _ _ (- (f * u + f * a))). nia.
Qed.

Lemma inverse_v_shift : forall l a b, 0 < b ->
  (exists k, inverse_v l a b = inverse_raw l a b + k * b) /\
  (- 2 * b <= inverse_raw l a b < 2 * b -> 0 <= inverse_v l a b < b).
Proof.
  intros l a b Hb. unfold inverse_v. set (u := inverse_raw l a b). clearbody u.
  unfold if_else, ge01.
  destruct (lt0_cases u) as [[Hu ->] | [Hu ->]].
  - destruct (b <=? (1 * (u + 2 * b - u) + u)) eqn:E;
      [apply Z.leb_le in E | apply Z.leb_gt in E].
    + split; [exists 1; ring | lia].
    + split; [exists 2; ring | lia].
  - destruct (b <=? (0 * (u + 2 * b - u) + u)) eqn:E;
      [apply Z.leb_le in E | apply Z.leb_gt in E].
    + split; [exists (-1); ring | lia].
    + split; [exists 0; ring | lia].
Qed.

(* The range of the uncorrected inverse, -2b <= u < 2b, depends on the size of the
   Bezout coefficient v returned by _divsteps (roughly -a <= v < 2a), which is not
   re-proved here; it is a hypothesis, established by exhaustive computation for small l. *)
Definition inverse_range_bound (l : Z) : Prop :=
  forall a b, 0 <= a <= 2^l -> 0 < b <= 2^l -> Z.gcd a b = 1 ->
    - 2 * b <= inverse_raw l a b < 2 * b.

Theorem inverse_correct_partial : forall l a b, BY_bound l ->
  0 <= a <= 2^l -> 0 < b <= 2^l -> Z.gcd a b = 1 ->
  (inverse_v l a b * a) mod b = 1 mod b /\
  (inverse_range_bound l -> 0 <= inverse_v l a b < b).
Proof.
  intros l a b HBY Ha Hb Hg.
  destruct (inverse_v_shift l a b) as [[k Hk] Hr]; [lia|].
  split.
  - rewrite <- (inverse_raw_congr l a b HBY Ha Hb Hg).
    apply (mod_shift _ _ (k * a)). rewrite Hk. ring.
  - intros HR. apply Hr. apply HR; assumption.
Qed.

Definition inverse_range_check (l : Z) : bool :=
  forallb (fun a =>
    forallb (fun b => negb (Z.gcd a b =? 1) ||
                      (let u := inverse_raw l a b in (- 2 * b <=? u) && (u <? 2 * b)))
            (zrange 1 (Z.to_nat (2^l))))
    (zrange 0 (Z.to_nat (2^l + 1))).

Lemma inverse_range_check_sound : forall l, inverse_range_check l = true -> inverse_range_bound l.
Proof.
  intros l H a b Ha Hb Hg. unfold inverse_range_check in H.
  rewrite forallb_forall in H.
  assert (Hia : In a (zrange 0 (Z.to_nat (2^l + 1)))) by (apply zrange_In; lia).
  specialize (H a Hia). rewrite forallb_forall in H.
  assert (Hib : In b (zrange 1 (Z.to_nat (2^l)))) by (apply zrange_In; lia).
  specialize (H b Hib). rewrite Hg in H.
  change (negb (1 =? 1)) with false in H. rewrite Bool.orb_false_l in H.
  cbv zeta in H.
  apply andb_prop in H. destruct H as [H1 H2].
  apply Z.leb_le in H1. apply Z.ltb_lt in H2. lia.
Qed.

Theorem inverse_range_bound_small : forall l, 0 <= l <= 7 -> inverse_range_bound l.
Proof.
  intros l Hl.
  assert (H : l = 0 \/ l = 1 \/ l = 2 \/ l = 3 \/ l = 4 \/ l = 5 \/ l = 6 \/ l = 7) by lia.
  repeat (destruct H as [-> | H]); try subst l;
    apply inverse_range_check_sound; vm_cast_no_check (eq_refl true).
Qed.

(** ** Size of delta: the comparison argument fits the shortened bit length *)

Definition size_inv (M : Z) (s : Z*Z*Z) : Prop :=
  let '(delta, f, g) := s in
  Z.abs f <= M /\ Z.abs g <= M /\
  (1 <= delta -> 2^(delta - 1) * Z.abs g <= M) /\
  (delta <= 0 -> 2^(- delta) <= M).

Lemma pow2_succ : forall x, 0 <= x -> 2^(x + 1) = 2 * 2^x.
Proof. intros x Hx. rewrite Z.pow_add_r by lia. change (2^1) with 2. ring. Qed.

Lemma size_inv_step : forall M delta f g, 1 <= M ->
  size_inv M (delta, f, g) ->
  size_inv M (divstep_ref ((0 <? delta) && Z.odd g) (delta, f, g)).
Proof.
  intros M delta f g HM (Hf & Hg & Hpos & Hneg).
  unfold divstep_ref, size_inv.
  assert (Hshrink : delta <= -1 -> 2^(- (1 + delta)) <= M).
  { intros Hd. specialize (Hneg ltac:(lia)).
    replace (- delta) with (- (1 + delta) + 1) in Hneg by ring.
    rewrite pow2_succ in Hneg by lia.
    pose proof (Z.pow_nonneg 2 (- (1 + delta))). lia. }
  destruct (0 <? delta) eqn:Ed; [apply Z.ltb_lt in Ed | apply Z.ltb_ge in Ed];
    destruct (Z.odd g) eqn:Og; simpl andb; cbv iota.
  - (* swap *)
    specialize (Hpos ltac:(lia)).
    assert (Hg1 : 1 <= Z.abs g) by (destruct (Z.eq_dec g 0); [subst g; discriminate Og | lia]).
    pose proof (Z.pow_nonneg 2 (delta - 1)) as Hpn.
    split; [exact Hg|]. split; [|split].
    + pose proof (Z.div_mod (g - f) 2). pose proof (Z.mod_pos_bound (g - f) 2). lia.
    + intros; lia.
    + intros _. replace (- (1 - delta)) with (delta - 1) by ring. nia.
  - (* delta > 0, g even *)
    apply odd_false_mod2 in Og as Mg. rewrite Mg, Z.mul_0_l, Z.add_0_r.
    pose proof (half_even g Mg) as Hh.
    specialize (Hpos ltac:(lia)).
    split; [exact Hf|]. split; [lia|]. split; [|intros; lia].
    intros _. replace (1 + delta - 1) with ((delta - 1) + 1) by ring.
    rewrite pow2_succ by lia.
    replace (2 * 2 ^ (delta - 1) * Z.abs (g / 2)) with (2 ^ (delta - 1) * (2 * Z.abs (g / 2))) by ring.
    replace (2 * Z.abs (g / 2)) with (Z.abs g) by lia. exact Hpos.
  - (* delta <= 0, g odd *)
    apply odd_mod2 in Og as Mg. rewrite Mg, Z.mul_1_l.
    assert (Hh : Z.abs ((g + f) / 2) <= M).
    { pose proof (Z.div_mod (g + f) 2). pose proof (Z.mod_pos_bound (g + f) 2). lia. }
    split; [exact Hf|]. split; [exact Hh|]. split.
    + intros Hd. assert (delta = 0) by lia. subst delta.
      replace (1 + 0 - 1) with 0 by ring. rewrite Z.pow_0_r. lia.
    + intros Hd. apply Hshrink. lia.
  - (* delta <= 0, g even *)
    apply odd_false_mod2 in Og as Mg. rewrite Mg, Z.mul_0_l, Z.add_0_r.
    pose proof (half_even g Mg) as Hh.
    split; [exact Hf|]. split; [lia|]. split.
    + intros Hd. assert (delta = 0) by lia. subst delta.
      replace (1 + 0 - 1) with 0 by ring. rewrite Z.pow_0_r. lia.
    + intros Hd. apply Hshrink. lia.
Qed.

Lemma size_inv_steps : forall M f0 g0 n, Z.odd f0 = true ->
  Z.abs f0 <= M -> Z.abs g0 <= M -> size_inv M (steps_gcd n (1, f0, g0)).
Proof.
  intros M f0 g0 n Hf HfM HgM.
  assert (HM : 1 <= M) by (destruct (Z.eq_dec f0 0); [subst f0; discriminate Hf | lia]).
  induction n as [|n IH].
  - simpl steps_gcd. unfold size_inv. split; [exact HfM|]. split; [exact HgM|].
    split; [intros _; change (2 ^ (1 - 1)) with 1; lia | intros; lia].
  - simpl steps_gcd. pose proof (gcd_inv_steps f0 g0 n Hf) as Hinv.
    destruct (steps_gcd n (1, f0, g0)) as [[delta f] g].
    destruct Hinv as (_ & _ & Hp & _).
    rewrite divstep_gcd_ref by exact Hp. apply size_inv_step; assumption.
Qed.

Lemma bit_length_spec : forall m, 0 <= m -> m < 2^(bit_length m).
Proof.
  intros m Hm. unfold bit_length. destruct (m <=? 0) eqn:E.
  - apply Z.leb_le in E. simpl. lia.
  - apply Z.leb_gt in E. pose proof (Z.log2_spec m E). unfold Z.succ in *. lia.
Qed.

Lemma pow2_le_inv : forall x l, 0 <= x -> 0 <= l -> 2^x <= 2^l -> x <= l.
Proof. intros x l Hx Hl H. apply (Z.pow_le_mono_r_iff 2); lia. Qed.

(* Range of delta while g <> 0 (in particular whenever g is odd, the only case in which
   the value of delta_gt0 matters).  NB the lower bound is -(min(n,l)+1), one more than
   the comment in the code claims; the comparison argument still fits. *)
Lemma delta_range : forall l f0 g0 n, 0 <= l -> Z.odd f0 = true ->
  Z.abs f0 <= 2^l -> Z.abs g0 <= 2^l ->
  let '(delta, f, g) := steps_gcd n (1, f0, g0) in
  g <> 0 ->
  - (Z.min (Z.of_nat n) l + 1) <= delta - 1 <= Z.min (Z.of_nat n) l /\
  - 2^(bit_length (Z.min (Z.of_nat n) l)) <= delta_arg (Z.of_nat n) delta
      < 2^(bit_length (Z.min (Z.of_nat n) l)).
Proof.
  intros l f0 g0 n Hl Hf Hfr Hgr.
  pose proof (size_inv_steps (2^l) f0 g0 n Hf Hfr Hgr) as Hs.
  pose proof (gcd_inv_steps f0 g0 n Hf) as Hi.
  destruct (steps_gcd n (1, f0, g0)) as [[delta f] g].
  destruct Hs as (_ & _ & Hpos & Hneg). destruct Hi as (_ & _ & Hp & Hr).
  intros Hg0.
  assert (Hup : 1 <= delta -> delta - 1 <= l).
  { intros Hd. specialize (Hpos Hd). apply pow2_le_inv; [lia | lia | ].
    pose proof (Z.pow_nonneg 2 (delta - 1) ltac:(lia)). nia. }
  assert (Hlo : delta <= 0 -> - delta <= l).
  { intros Hd. apply pow2_le_inv; [lia | lia | apply Hneg; exact Hd]. }
  assert (Hrange : - (Z.min (Z.of_nat n) l + 1) <= delta - 1 <= Z.min (Z.of_nat n) l) by lia.
  split; [exact Hrange|].
  pose proof (bit_length_spec (Z.min (Z.of_nat n) l) ltac:(lia)) as Hbl.
  destruct (delta_gt0_spec (Z.of_nat n) delta Hp) as [Hpar _].
  unfold delta_arg. pose proof (half_even _ Hpar) as Hh.
  pose proof (mod2_cases (Z.of_nat n)). lia.
Qed.

(* ... and it does NOT hold once g = 0 (delta then just increments): for l = 7, a = 1,
   b = 0, at iteration i = 16 < _iterations(7) = 24 the argument of sgn is 8 = 2^3 with
   l = min(16,7).bit_length() = 3.  Harmless for the result, because delta_gt0 is
   multiplied by g%2 = 0 (divstep_gcd_d_even_indep). *)
Example delta_arg_out_of_range_when_g_is_0 :
  let '(delta, f, g) := steps_gcd 16 (1, 1, 0) in
  g = 0 /\ 16 < iterations 7 /\
  delta_arg 16 delta = 2^(bit_length (Z.min 16 7)).
Proof. vm_compute. split; [reflexivity|]. split; reflexivity. Qed.

(* For inputs in the secint(l) range (|a|,|b| <= 2^(l-1)) the comment in the code,
   |delta-1| <= min(i,l) for g != 0, holds literally. *)
Corollary delta_range_secint : forall l f0 g0 n, 1 <= l -> Z.odd f0 = true ->
  Z.abs f0 <= 2^(l-1) -> Z.abs g0 <= 2^(l-1) ->
  let '(delta, f, g) := steps_gcd n (1, f0, g0) in
  g <> 0 -> Z.abs (delta - 1) <= Z.min (Z.of_nat n) l.
Proof.
  intros l f0 g0 n Hl Hf Hfr Hgr.
  pose proof (delta_range (l-1) f0 g0 n ltac:(lia) Hf Hfr Hgr) as Hd.
  pose proof (gcd_inv_steps f0 g0 n Hf) as Hi.
  destruct (steps_gcd n (1, f0, g0)) as [[delta f] g].
  destruct Hi as (_ & _ & _ & Hr).
  intros Hg. destruct (Hd Hg) as [Hrange _]. lia.
Qed.

(* gcd(a, b, l) applies abs(., l=l), a comparison on l bits, to the result of _gcd; for
   a = b = 2^l (bit length l+1, outside the documented precondition) that result is 2^l,
   outside the range -2^l <= x < 2^l of the comparison (the real protocol then returns
   3*2^l); gcd_correct_partial therefore assumes |a|,|b| < 2^l. *)
Example gcd_raw_at_2_pow_l : gcd_raw 5 32 32 = 2^5.
Proof. vm_compute. reflexivity. Qed.

(** ** Summary *)

Theorem divsteps_invariant : forall a b n, Z.odd a = true ->
  let '(delta, f, v, g, r) := steps_ext a n (1, a, 0, b, 1) in
  (* the (delta, f, g) part is the state of the _gcd loop *)
  steps_gcd n (1, a, b) = (delta, f, g) /\
  Z.odd f = true /\
  Z.gcd f g = Z.gcd a b /\
  (exists u, f = u * a + v * b) /\
  (exists q, g = q * a + r * b) /\
  (* parity of delta: the field division by 2 in the argument of sgn is exact *)
  (delta - 1 - Z.of_nat n) mod 2 = 0 /\
  (delta - 1 - Z.of_nat n mod 2) mod 2 = 0 /\
  delta_gt0 (Z.of_nat n) delta = (if 0 <? delta then 1 else 0) /\
  (* range of delta: always |delta-1| <= n; bounded via l only while g <> 0 *)
  Z.abs (delta - 1) <= Z.of_nat n /\
  (forall l, 0 <= l -> Z.abs a <= 2^l -> Z.abs b <= 2^l -> g <> 0 ->
     - (Z.min (Z.of_nat n) l + 1) <= delta - 1 <= Z.min (Z.of_nat n) l /\
     - 2^(bit_length (Z.min (Z.of_nat n) l)) <= delta_arg (Z.of_nat n) delta
        < 2^(bit_length (Z.min (Z.of_nat n) l))).
Proof.
  intros a b n Ha.
  pose proof (ext_inv_steps a b n Ha) as [Hg Hb].
  pose proof (steps_ext_proj a n (1, a, 0, b, 1)) as Hpr.
  change (proj3 (1, a, 0, b, 1)) with (1, a, b) in Hpr.
  pose proof (fun l H0 H1 H2 => delta_range l a b n H0 Ha H1 H2) as Hdr.
  destruct (steps_ext a n (1, a, 0, b, 1)) as [[[[delta f] v] g] r].
  unfold proj3 in Hpr, Hg. rewrite <- Hpr in Hdr.
  destruct Hg as (Hf & Hgcd & Hp & Hr). destruct Hb as [Hu Hq].
  destruct (delta_gt0_spec (Z.of_nat n) delta Hp) as [Hpar Hgt].
  split; [symmetry; exact Hpr|].
  repeat (split; [assumption|]).
  exact Hdr.
Qed.
