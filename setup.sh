#!/bin/bash
# Offline setup: NumPy venv for C37/C38 (from the local wheelhouse) and a full .vo build of the Coq theories.
set -e
cd "$(dirname "$0")"
if [ ! -x .venv-np/bin/python ]; then
  /venv/bin/python -m venv .venv-np >/dev/null 2>&1 || python3 -m venv .venv-np
  .venv-np/bin/pip install --no-index --find-links /opt/veriftools/wheels numpy >/dev/null 2>&1 || echo "WARN: numpy not installed (C37/C38 will report it)"
fi
mkdir -p coq/cases coq/gen replays evidence
/venv/bin/python - <<'PY'
import sys; sys.path.insert(0, 'harness')
from lib.core import build_theories
ok, out = build_theories()
print(out[-2000:])
sys.exit(0 if ok else 1)
PY
echo "setup done"
