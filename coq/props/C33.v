(** C33 — secure random functions stay in range/shape (statements only; proofs in theories/RandomFns.v).
    All theorems are for ALL bit tapes; [Some] excludes exhaustion of the tape / restart fuel. *)
Require Import MPyC.RandomFns.
From Coq Require Import ZArith List Permutation.
Import ListNotations.
Local Open Scope nat_scope.

(** random_unit_vector: length n, entries 0/1 with sum 1 ... *)
Theorem C33_unit_vector_shape :
  forall (fuel : nat) (n : Z) (tp : tape) (u : list Z) (tp' : tape),
    (1 <= n)%Z -> bits tp -> random_unit_vector fuel n tp = Some (u, tp') ->
    length u = Z.to_nat n /\ (bits u /\ zsum u = 1%Z) /\ bits tp'.
Proof. exact unit_vector_shape. Qed.
Print Assumptions C33_unit_vector_shape.

(** ... i.e. exactly one 1, rest 0. *)
Theorem C33_unit_vector_onehot :
  forall (fuel : nat) (n : Z) (tp : tape) (u : list Z) (tp' : tape),
    (1 <= n)%Z -> bits tp -> random_unit_vector fuel n tp = Some (u, tp') ->
    exists j, j < Z.to_nat n /\ u = repeat 0%Z j ++ 1%Z :: repeat 0%Z (Z.to_nat n - 1 - j).
Proof. exact unit_vector_onehot. Qed.
Print Assumptions C33_unit_vector_onehot.

(** shuffle / random_permutation: a permutation of the input (Fisher-Yates with one-hot vectors = swaps). *)
Theorem C33_shuffle_perm :
  forall (fuel : nat) (x : list Z) (tp : tape) (r : list Z) (tp' : tape),
    bits tp -> shuffle fuel x tp = Some (r, tp') -> Permutation r x /\ bits tp'.
Proof. exact shuffle_perm. Qed.
Print Assumptions C33_shuffle_perm.

(** random_derangement: a permutation of x with y[i] <> x[i] at every position. *)
Theorem C33_derangement_no_fixed_point :
  forall (rounds fuel : nat) (x : list Z) (tp : tape) (y : list Z) (tp' : tape),
    bits tp -> random_derangement rounds fuel x tp = Some (y, tp') ->
    Permutation y x /\ (forall i, i < length x -> nth i y 0%Z <> nth i x 0%Z).
Proof. exact random_derangement_ok. Qed.
Print Assumptions C33_derangement_no_fixed_point.

(** sample, population branch: k elements that are a sub-selection (with multiplicity) of the population. *)
Theorem C33_sample_pop_subselection :
  forall (fuel : nat) (pop : list Z) (k : nat) (tp : tape) (r : list Z) (tp' : tape),
    k <= length pop -> bits tp -> sample_pop fuel pop k tp = Some (r, tp') ->
    length r = k /\ exists rest, Permutation (r ++ rest) pop.
Proof. exact sample_pop_subselection. Qed.
Print Assumptions C33_sample_pop_subselection.

(** choice returns a member of the sequence. *)
Theorem C33_choice_member :
  forall (fuel : nat) (seq : list Z) (tp : tape) (v : Z) (tp' : tape),
    bits tp -> choice fuel seq tp = Some (v, tp') -> In v seq.
Proof. exact choice_member. Qed.
Print Assumptions C33_choice_member.

(** getrandbits (and random, as scaled integer): a k-bit value. *)
Theorem C33_getrandbits_range :
  forall (k : nat) (tp : tape) (v : Z) (tp' : tape),
    bits tp -> getrandbits k tp = Some (v, tp') -> (0 <= v < 2 ^ Z.of_nat k)%Z /\ bits tp'.
Proof. exact getrandbits_range. Qed.
Print Assumptions C33_getrandbits_range.

(** _randbelow: 0 <= result < n, for every n >= 1 and every tape (fast path and rejection loop). *)
Theorem C33_randbelow_range :
  forall (fuel : nat) (n : Z) (tp : tape) (v : Z) (tp' : tape),
    (1 <= n)%Z -> bits tp -> randbelow fuel n tp = Some (v, tp') -> (0 <= v < n)%Z /\ bits tp'.
Proof. exact randbelow_range. Qed.
Print Assumptions C33_randbelow_range.

Theorem C33_randbelow_bits_range :
  forall (fuel : nat) (n : Z) (tp : tape) (x : list Z) (tp' : tape),
    (1 <= n)%Z -> bits tp -> randbelow_bits fuel n tp = Some (x, tp') ->
    bits x /\ length x = bit_length (n - 1) /\ (0 <= from_bits x < n)%Z /\ bits tp'.
Proof. exact randbelow_bits_range. Qed.
Print Assumptions C33_randbelow_bits_range.

(** randrange / randint: start + r*step with 0 <= r < len(range(start, stop, step)); within [start, stop) for step > 0. *)
Theorem C33_randrange_lattice :
  forall (fuel : nat) (start stop step : Z) (tp : tape) (v : Z) (tp' : tape),
    bits tp -> randrange fuel start stop step tp = Some (v, tp') ->
    exists r, (0 <= r < range_len start stop step)%Z /\ v = (start + r * step)%Z.
Proof. exact randrange_lattice. Qed.
Print Assumptions C33_randrange_lattice.

Theorem C33_randrange_within :
  forall (fuel : nat) (start stop step : Z) (tp : tape) (v : Z) (tp' : tape),
    bits tp -> (0 < step)%Z -> randrange fuel start stop step tp = Some (v, tp') ->
    (start <= v < stop)%Z /\ (step | v - start)%Z.
Proof. exact randrange_within. Qed.
Print Assumptions C33_randrange_within.

(** uniform (scaled integers a <= b, incl. a = b): a <= N <= b, and N < b when a < b; mirrored for b < a. *)
Theorem C33_uniform_within :
  forall (fuel : nat) (a b : Z) (tp : tape) (v : Z) (tp' : tape),
    bits tp -> (a <= b)%Z -> uniform_fxp fuel a b tp = Some (v, tp') ->
    (a <= v <= b)%Z /\ ((a < b)%Z -> (v < b)%Z).
Proof. exact uniform_within. Qed.
Print Assumptions C33_uniform_within.

Theorem C33_uniform_within_rev :
  forall (fuel : nat) (a b : Z) (tp : tape) (v : Z) (tp' : tape),
    bits tp -> (b < a)%Z -> uniform_fxp fuel a b tp = Some (v, tp') -> (b < v <= a)%Z.
Proof. exact uniform_within_rev. Qed.
Print Assumptions C33_uniform_within_rev.

(** choices with cum_weights= / weights= (nonnegative integer weights, positive total): members of the population. *)
Theorem C33_choices_cum_member :
  forall (fuel : nat) (pop cum : list Z) (k : nat) (tp : tape) (r : list Z) (tp' : tape),
    bits tp -> cum <> [] -> length cum = length pop -> nondecr 0 cum -> (0 < last cum 0)%Z ->
    choices_cum fuel pop cum k tp = Some (r, tp') -> Forall (fun v => In v pop) r.
Proof. exact choices_cum_member. Qed.
Print Assumptions C33_choices_cum_member.

Theorem C33_choices_weights_member :
  forall (fuel : nat) (pop w : list Z) (k : nat) (tp : tape) (r : list Z) (tp' : tape),
    bits tp -> w <> [] -> length w = length pop -> Forall (fun a => (0 <= a)%Z) w ->
    (0 < last (accumulate 0 w) 0)%Z ->
    choices_weights fuel pop w k tp = Some (r, tp') -> Forall (fun v => In v pop) r.
Proof. exact choices_weights_member. Qed.
Print Assumptions C33_choices_weights_member.

(** Uniformity by counting, bound in the statement (n <= 64): a tape holding exactly one pass of k bits is accepted
    iff it encodes a value v < n, the output is v and the k bits are consumed; every v < n has such a tape.
    (The unbounded version and the induction over restarts are missing.) *)
Theorem C33_randbelow_one_pass_bounded_partial :
  forall n : Z, (1 <= n <= 64)%Z ->
    forall tp, In tp (all_tapes (bit_length (n - 1))) ->
      randbelow 100 n tp = if (from_bits tp <? n)%Z then Some (from_bits tp, []) else None.
Proof. exact randbelow_one_pass_bounded. Qed.
Print Assumptions C33_randbelow_one_pass_bounded_partial.

Theorem C33_randbelow_one_pass_onto_bounded_partial :
  forall n : Z, (1 <= n <= 64)%Z -> forall v : Z, (0 <= v < n)%Z ->
    exists tp, In tp (all_tapes (bit_length (n - 1))) /\ randbelow 100 n tp = Some (v, []).
Proof. exact randbelow_one_pass_onto_bounded. Qed.
Print Assumptions C33_randbelow_one_pass_onto_bounded_partial.

(** The bits retained on a restart (x[:j]) are not inspected by the rejecting pass: any x' that agrees with x
    from position j upwards is rejected at the same position j. *)
Theorem C33_rejection_ignores_retained_bits :
  forall (b : Z) (t : nat), 1 <= t -> forall (steps : nat) (x x' : list Z) (h : Z) (i j : nat),
    rb_pass b t x h steps i = Some j ->
    (forall m, j <= m -> nth m x' 0%Z = nth m x 0%Z) ->
    rb_pass b t x' h steps i = Some j.
Proof. exact rb_pass_ignores_low_bits. Qed.
Print Assumptions C33_rejection_ignores_retained_bits.

Example C33_nonvacuous2 :
  randbelow 100 6 [1; 1; 1; 0; 1]%Z = Some (5%Z, []) /\          (* 7 rejected at bit 1... restart keeps bit 0 *)
  randrange 100 2 11 3 [0; 1]%Z = Some (8%Z, []) /\
  uniform_fxp 100 16 28 [1; 1; 0; 1]%Z = Some (27%Z, []) /\ uniform_fxp 100 16 16 [1]%Z = Some (16%Z, [1%Z]) /\
  uniform_fxp 100 28 16 [1; 1; 0; 1]%Z = Some (17%Z, []) /\
  choices_weights 100 [5; 7; 9]%Z [1; 2; 1]%Z 2 [1; 0; 1; 1]%Z = Some ([7; 9]%Z, []) /\
  rb_pass 5 2 [1; 1; 1]%Z 1 3 3 = Some 1 /\ rb_pass 5 2 [0; 1; 1]%Z 1 3 3 = Some 1.
Proof. vm_compute. repeat split; reflexivity. Qed.

(** Non-vacuity: concrete tapes on which the functions return [Some], incl. a restart. *)
Example C33_nonvacuous :
  bits [1; 0; 1; 1; 0; 0; 0]%Z /\
  random_unit_vector 100 5 [1; 0; 1; 1; 0; 0; 0]%Z = Some ([0; 0; 1; 0; 0]%Z, [0%Z]) /\
  shuffle 100 [10; 20; 30]%Z [1; 0; 0; 1; 1; 1]%Z = Some ([20; 30; 10]%Z, [1; 1; 1]%Z) /\
  random_derangement 5 100 [3; 9; 5]%Z [0; 1; 1; 1; 0; 0]%Z = Some ([9; 5; 3]%Z, []) /\
  sample_pop 100 [3; 9; 5; 1]%Z 2 [1; 0; 0; 1]%Z = Some ([9; 3]%Z, []) /\
  choice 100 [5; 7; 9]%Z [1; 0]%Z = Some (7%Z, []) /\
  getrandbits 3 [1; 0; 1]%Z = Some (5%Z, []).
Proof.
  split; [repeat constructor; (left; reflexivity) || (right; reflexivity)|].
  vm_compute. repeat split; reflexivity.
Qed.
