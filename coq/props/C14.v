(** C14 — sharings dealt during protocols have full threshold degree.  Only statements.
    (The per-site obligation "every dealing site passes the runtime threshold as degree" is
    regenerated from the sources into coq/gen/DealSites.v and compiled on every run.) *)
Require Import MPyC.Base MPyC.Field MPyC.Poly MPyC.Lagrange MPyC.Shamir MPyC.Secrecy MPyC.Deal.
Local Open Scope nat_scope.

(** With t >= 1 drawn coefficients, the message to any single party (nonzero point x) can be ANY
    field value y, for every dealt secret s: messages never carry the secret (or a share being
    re-dealt) in the clear. *)
Theorem C14_no_cleartext :
  forall (K : FieldT) (t : nat) (s x y : K), 1 <= t -> x <> f0 K ->
    exists c, length c = t /\ share_pt c s x = y.
Proof. exact no_cleartext. Qed.
Print Assumptions C14_no_cleartext.

(** A dealt message is a secret-independent mask plus the secret. *)
Theorem C14_message_is_mask_plus_secret :
  forall (K : FieldT) (c : list K) (s x : K), share_pt c s x = fadd K (share_pt c (f0 K) x) s.
Proof. exact message_is_mask_plus_secret. Qed.
Print Assumptions C14_message_is_mask_plus_secret.

(** The messages a dealer sends to any t parties are in bijection with its t coefficients, for
    every dealt value: uniform and independent of the value when the coefficients are uniform. *)
Theorem C14_messages_to_t_parties_bijective :
  forall (K : FieldT) (s : K) (xs ys : list K),
    NoDup (f0 K :: xs) -> length ys = length xs ->
    exists c, (length c = length xs /\ map (share_pt c s) xs = ys) /\
              forall c', length c' = length xs -> map (share_pt c' s) xs = ys -> c' = c.
Proof. exact shares_bijective. Qed.
Print Assumptions C14_messages_to_t_parties_bijective.

(** a dealing with t coefficients is a polynomial with t+1 coefficients whose leading one is the
    first value drawn: degree exactly t whenever that draw is nonzero *)
Theorem C14_degree_is_threshold :
  forall (K : FieldT) (c : list K) (s x : K), share_pt c s x = eval (s :: rev c) x.
Proof. exact share_pt_eval. Qed.
Print Assumptions C14_degree_is_threshold.
