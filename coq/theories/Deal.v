(** C14: what a dealing with threshold t >= 1 puts on the wire. *)
Require Import MPyC.Base MPyC.Field MPyC.Poly MPyC.Lagrange MPyC.Shamir MPyC.Secrecy.

Section Deal.
Variable K : FieldT.
Add Field KF : (fth K).
Notation "0" := (f0 K). Notation "1" := (f1 K).
Infix "+" := (fadd K). Infix "*" := (fmul K). Infix "-" := (fsub K). Infix "/" := (fdiv K).

Lemma fpow_neq0 (x : K) n : x <> 0 -> fpow x n <> 0.
Proof. intros Hx. induction n as [|n IH]; simpl; [apply f1_neq_f0|apply fmul_neq0; auto]. Qed.

Lemma eval_zeros_app (n : nat) (a x : K) : eval (repeat 0 n ++ [a]) x = a * fpow x n.
Proof. induction n as [|n IH]; simpl; [ring|]. rewrite IH. ring. Qed.

(** With t >= 1 the message to any single party can take EVERY value, whatever the dealt secret:
    no message is determined by (or equal to) the secret or a share of it. *)
Theorem no_cleartext (t : nat) (s x y : K) : 1 <= t -> x <> 0 ->
  exists c, length c = t /\ share_pt c s x = y.
Proof.
  intros Ht Hx. destruct t as [|t']; [lia|].
  exists (((y - s) / fpow x (S t')) :: repeat 0 t'). split; [simpl; rewrite repeat_length; reflexivity|].
  rewrite share_pt_eval. cbn [rev].
  assert (Er : rev (repeat 0 t') = repeat 0 t').
  { clear. induction t' as [|n IH]; simpl; [reflexivity|]. rewrite IH. clear.
    induction n as [|n IH]; simpl; [reflexivity|]. rewrite <- IH. reflexivity. }
  rewrite Er. cbn [eval]. rewrite eval_zeros_app.
  assert (Hp := fpow_neq0 x t' Hx). simpl. field. split; [exact Hp|exact Hx].
Qed.

(** the dealt secret only shifts every message: message = (secret-independent mask) + secret *)
Theorem message_is_mask_plus_secret (c : list K) (s x : K) : share_pt c s x = share_pt c 0 x + s.
Proof. unfold share_pt. ring. Qed.

End Deal.
