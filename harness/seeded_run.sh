#!/bin/bash
# usage: seeded_run.sh <property id> <patch.diff> [tier] [--inplace]
# Default: applies the patch in a scratch worktree of /repo (outside /repo and /verif) and points the check at it
# through MPYC_REPO (generated tables, evidence and replays go to a scratch VERIF_ALT directory, not to /verif),
# so that other work against /repo is not disturbed.  With --inplace: applies the patch to /repo
# itself (git -C /repo apply), runs the check, and restores /repo (git -C /repo checkout -- .) straight afterwards.
set -u
P="$1"; PATCH="$(readlink -f "$2")"; TIER="${3:-quick}"; MODE="${4:-}"
LOG="/tmp/seeded_run_${P}_$$.log"
if [ "$MODE" = "--inplace" ]; then
  cd /repo || exit 2
  if ! git diff --quiet; then echo "/repo is dirty; refusing"; exit 2; fi
  git apply "$PATCH" || { echo "patch does not apply"; exit 2; }
  cd /verif; ./check "$P" --tier "$TIER" > "$LOG" 2>&1; rc=$?
  git -C /repo checkout -- .
else
  WT=$(mktemp -d /tmp/seedrun.XXXXXX)
  git -C /repo worktree add -q --detach "$WT" HEAD || exit 2
  ( cd "$WT" && ( git apply "$PATCH" 2>/dev/null || git apply -3 "$PATCH" ) ) || { echo "patch does not apply"; git -C /repo worktree remove --force "$WT"; exit 2; }
  ALT=$(mktemp -d /tmp/seedalt.XXXXXX)
  cd /verif; MPYC_REPO="$WT" VERIF_ALT="$ALT" ./check "$P" --tier "$TIER" > "$LOG" 2>&1; rc=$?
  git -C /repo worktree remove --force "$WT" >/dev/null 2>&1; rm -rf "$WT" "$ALT"
fi
grep -E "VIOLATION|KNOWN-FINDING|done:" "$LOG" | tail -8
echo "check_exit=$rc log=$LOG"
