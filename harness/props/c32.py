"""C32 — mpctools.reduce / accumulate agree with functools.reduce / itertools.accumulate; log depth.

Proof: coq/props/C32.v (theories/Tools.v): for every associative f (no commutativity), every list and
optional initial value, the pairing loop of reduce equals the left fold and both in-place prefix
recursions (Brent-Kung, Sklansky) equal the list of prefix folds; depth bounds by instrumenting f.
Tie: the real functions are run for every n = 0..70, both methods, with/without initial, with
non-commutative associative operations (string concatenation = free semigroup, 2x2 matrices mod p),
against functools/itertools and against the Coq model on the same inputs (values and depths).
"""
import sys, functools, itertools, operator
from lib.core import zlist, natlit, zlit, blit

MANIFEST = {
    'text': 'Coq theorems for all lists, all associative f (commutativity not used), with and without initial: reduce = '
            'functools.reduce (None/TypeError on the empty sequence), accumulate(Brent-Kung) = accumulate(Sklansky) = '
            'itertools.accumulate; depth of the f-application tree: reduce <= ceil(log2 n), Sklansky <= ceil(log2 n), '
            'Brent-Kung <= 2 ceil(log2 n), for every n, by instrumenting f with depth counters (erasure lemma: the '
            'instrumentation does not change values). The model (pairing loop; acc(i,j) with in-place updates) is '
            'compared on every run with the real mpctools on every n = 0..70: values and per-element depths.',
    'note': 'Trusted: Coq kernel + vm_compute; model of Python list slicing/assignment in Tools.v tied by the exhaustive '
            'n <= 70 comparison (free-semigroup operation, which distinguishes every non-equivalent bracketing/ordering, for '
            'n <= 12 (24 thorough) in Coq and all n in Python; 2x2 matrices mod 1000003 for all n). f is assumed total and pure. The '
            'documented exact depths for n = 2^k (Sklansky k, Brent-Kung max(2k-2, k)) are checked on the implementation '
            'and the model by computation, not proved; the proved Brent-Kung bound is 2 ceil(log2 n). Default method choice '
            'is a one-line model (default_method_bk) compared for n around 32 with no_prss on/off.',
    'technique': 'Coq proof (segment invariants for the in-place prefix recursions, depth-instrumented operation) + exhaustive small-n correspondence',
}

P = 1000003


def mm(a, b):
    return ((a[0] * b[0] + a[1] * b[2]) % P, (a[0] * b[1] + a[1] * b[3]) % P,
            (a[2] * b[0] + a[3] * b[2]) % P, (a[2] * b[1] + a[3] * b[3]) % P)


class D:
    """value with the depth of the f-tree that produced it"""
    __slots__ = ('v', 'd')

    def __init__(self, v, d=0):
        self.v, self.d = v, d


def lift(f, counter):
    def g(a, b):
        counter[0] += 1
        return D(f(a.v, b.v), 1 + max(a.d, b.d))
    return g


def clog2(n):
    return 0 if n <= 1 else (n - 1).bit_length()


PREAMBLE = '''Local Open Scope Z_scope.
Definition P := 1000003.
Definition mm (a b : Z * Z * Z * Z) : Z * Z * Z * Z :=
  let '(a0, a1, a2, a3) := a in let '(b0, b1, b2, b3) := b in
  ((a0 * b0 + a1 * b2) mod P, (a0 * b1 + a1 * b3) mod P, (a2 * b0 + a3 * b2) mod P, (a2 * b1 + a3 * b3) mod P).
Definition eq4 (a b : Z * Z * Z * Z) : bool :=
  let '(a0, a1, a2, a3) := a in let '(b0, b1, b2, b3) := b in (a0 =? b0) && (a1 =? b1) && (a2 =? b2) && (a3 =? b3).
Fixpoint leq {A} (e : A -> A -> bool) (x y : list A) : bool :=
  match x, y with [] , [] => true | a :: x', b :: y' => e a b && leq e x' y' | _, _ => false end.
Definition oeq {A} (e : A -> A -> bool) (x y : option A) : bool :=
  match x, y with None, None => true | Some a, Some b => e a b | _, _ => false end.
Definition d4 : Z * Z * Z * Z := (0, 0, 0, 0).
Definition natl_eq := leq Nat.eqb.
Local Open Scope nat_scope.
'''


def m4(a):
    return '(%d, %d, %d, %d)%%Z' % a


def m4list(xs):
    return '[' + '; '.join(m4(a) for a in xs) + ']'


def optm4(a):
    return 'None' if a is None else '(Some %s)' % m4(a)


def natlist(xs):
    return '[' + '; '.join(str(x) for x in xs) + ']%nat'


def run(ctx):
    if not any(a == '--no-log' for a in sys.argv):
        sys.argv = [sys.argv[0], '--no-log']
    from mpyc.runtime import mpc       # sets mpctools.runtime (needed for the default method)
    from mpyc import mpctools
    ok = ctx.build() and ctx.check_props()
    rng = ctx.rng
    NMAX = ctx.n(70, 150)
    ctx.rule = ('case = (function, method, n, initial?, operation); every n in 0..%d for each combination; non-trivial when the '
                'input (incl. initial) has >= 3 elements (bracketing matters)' % NMAX)
    ctx.explanation = ('exhaustive over lengths; operations are non-commutative and associative; string concatenation of '
                       'distinct symbols is the free semigroup, so equality of results means the same ordered product')
    ctx.extra['exhaustive'] = True
    NV = mpctools._no_value
    methods = ['Brent-Kung', 'Sklansky']
    exprs, meta = [], []
    # Coq model: every n without initial; with initial around powers of two and at the ends (quick tier);
    # free-semigroup operation for small n (its literals grow quadratically)
    init_ns = set(range(0, NMAX + 1)) if ctx.tier == 'thorough' else {0, 1, 2, 3, 4, 5, 6, 7, 8, 9, 15, 16, 17, 31, 32, 33, 63, 64, 65, NMAX - 1, NMAX}
    FREE_MAX = ctx.n(12, 24)

    def sym(i):
        return chr(0x100 + i)

    for n in range(0, NMAX + 1):
        mats = [tuple(rng.randint(-2, 3) % P for _ in range(4)) for _ in range(n)]
        imat = tuple(rng.randint(-2, 3) % P for _ in range(4))
        strs = [sym(i + 1) for i in range(n)]
        for with_init in (False, True):
            N = n + (1 if with_init else 0)
            # ---------------- reduce
            for opname, xs, init, f in (('concat', strs, sym(0), operator.add), ('mat', mats, imat, mm)):
                key = {'fn': 'reduce', 'op': opname, 'n': n, 'initial': with_init}
                args = (init,) if with_init else ()
                try:
                    want = functools.reduce(f, xs, *args)
                except TypeError:
                    want = 'ERR:Type'
                try:
                    got = mpctools.reduce(f, iter(xs), *args)
                except TypeError:
                    got = 'ERR:Type'
                if got != want:
                    ctx.violation('reduce-wrong op=%s n=%d initial=%s' % (opname, n, with_init), dict(key, got=repr(got), want=repr(want)))
                # depth
                cnt = [0]
                if N >= 1:
                    r = mpctools.reduce(lift(f, cnt), [D(a) for a in xs], *([D(init)] if with_init else []))
                    if r.v != want:
                        ctx.violation('reduce-wrong (instrumented) op=%s n=%d' % (opname, n), dict(key, got=repr(r.v)))
                    if r.d > clog2(N) or cnt[0] != N - 1:
                        ctx.violation('reduce-depth n=%d' % N, dict(key, depth=r.d, bound=clog2(N), calls=cnt[0]))
                    rd = r.d
                else:
                    rd = None
                ctx.case(key, nontrivial=N >= 3, kind='reduce/' + opname)
                if opname == 'mat' and (not with_init or n in init_ns):
                    exprs.append('oeq eq4 (reduce mm %s %s) %s' % (m4list(xs), optm4(init if with_init else None),
                                                                   'None' if got == 'ERR:Type' else '(Some %s)' % m4(got)))
                    meta.append((key, 'value'))
                    if not with_init:
                        exprs.append('option_map snd (reduce (fdepth Z.add) (leaves (repeat 0%%Z %d)) None)' % n)
                        meta.append((key, 'depth', rd))
                elif opname == 'concat' and n <= FREE_MAX:
                    ints = [[i + 1] for i in range(n)]
                    exprs.append('oeq natl_eq (reduce (@app nat) %s %s) %s' % (
                        '[' + '; '.join(natlist(a) for a in ints) + ']', '(Some [0])' if with_init else 'None',
                        'None' if got == 'ERR:Type' else '(Some %s)' % natlist([ord(c) - 0x100 for c in got])))
                    meta.append((key, 'value'))
            # ---------------- accumulate
            for method in methods:
                for opname, xs, init, f in (('concat', strs, sym(0), operator.add), ('mat', mats, imat, mm)):
                    key = {'fn': 'accumulate', 'method': method, 'op': opname, 'n': n, 'initial': with_init}
                    want = list(itertools.accumulate(xs, f, initial=init) if with_init else itertools.accumulate(xs, f))
                    res = mpctools.accumulate(iter(xs), f, init if with_init else NV, method=method)
                    is_iter = iter(res) is res
                    got = list(res)
                    if got != want or not is_iter:
                        ctx.violation('accumulate-wrong method=%s op=%s n=%d initial=%s' % (method, opname, n, with_init),
                                      dict(key, got=repr(got)[:2000], want=repr(want)[:2000], iterator=is_iter))
                    cnt = [0]
                    r = list(mpctools.accumulate([D(a) for a in xs], lift(f, cnt), D(init) if with_init else NV, method=method))
                    depths = [e.d for e in r]
                    if [e.v for e in r] != want:
                        ctx.violation('accumulate-wrong (instrumented) method=%s n=%d' % (method, n), dict(key))
                    k = clog2(N)
                    bound = k if method == 'Sklansky' else max(2 * k - 2, k)
                    if depths and max(depths) > bound:
                        ctx.violation('accumulate-depth method=%s n=%d' % (method, N), dict(key, depths=depths, bound=bound))
                    if N >= 1 and N == 1 << k:      # documented exact figures for n = 2^k
                        calls = (N // 2) * k if method == 'Sklansky' else 2 * N - 2 - k
                        if max(depths) != bound or cnt[0] != calls:
                            ctx.violation('accumulate-documented-complexity method=%s n=%d' % (method, N),
                                          dict(key, depth=max(depths), doc_depth=bound, calls=cnt[0], doc_calls=calls))
                    ctx.case(key, nontrivial=N >= 3, kind='accumulate/%s/%s' % (method, opname))
                    bk = blit(method == 'Brent-Kung')
                    if opname == 'mat' and (not with_init or n in init_ns):
                        exprs.append('leq eq4 (accumulate mm d4 %s %s %s) %s' % (bk, m4list(xs), optm4(init if with_init else None), m4list(got)))
                        meta.append((key, 'value'))
                        if not with_init:
                            exprs.append('map snd (accumulate (fdepth Z.add) (0%%Z, 0%%nat) %s (leaves (repeat 0%%Z %d)) None)' % (bk, n))
                            meta.append((key, 'depths', depths))
                    elif opname == 'concat' and n <= FREE_MAX:
                        ints = [[i + 1] for i in range(n)]
                        exprs.append('leq natl_eq (accumulate (@app nat) [] %s %s %s) %s' % (
                            bk, '[' + '; '.join(natlist(a) for a in ints) + ']', '(Some [0])' if with_init else 'None',
                            '[' + '; '.join(natlist([ord(c) - 0x100 for c in s]) for s in got) + ']'))
                        meta.append((key, 'value'))

    # ---------------- default method, initial=None as a value, malformed input
    saved = mpc.options.no_prss
    try:
        for no_prss in (False, True):
            mpc.options.no_prss = no_prss
            for n in (0, 1, 2, 31, 32, 33, 64):
                xs = [D(sym(i)) for i in range(n)]
                cnt = [0]
                r = list(mpctools.accumulate(xs, lift(operator.add, cnt)))
                want = list(itertools.accumulate([sym(i) for i in range(n)]))
                if [e.v for e in r] != want:
                    ctx.violation('accumulate-wrong default-method n=%d no_prss=%s' % (n, no_prss), {'n': n, 'no_prss': no_prss})
                cb = [0]
                rb = list(mpctools.accumulate([D(sym(i)) for i in range(n)], lift(operator.add, cb), method='Brent-Kung'))
                cs = [0]
                rs = list(mpctools.accumulate([D(sym(i)) for i in range(n)], lift(operator.add, cs), method='Sklansky'))
                used_bk = [e.d for e in r] == [e.d for e in rb] and cnt[0] == cb[0]
                used_sk = [e.d for e in r] == [e.d for e in rs] and cnt[0] == cs[0]
                key = {'fn': 'accumulate-default', 'n': n, 'no_prss': no_prss}
                ctx.case(key, nontrivial=n >= 3, kind='default method')
                exprs.append('default_method_bk %s %s' % (blit(no_prss), natlit(n)))
                meta.append((key, 'default', (used_bk, used_sk)))
    finally:
        mpc.options.no_prss = saved
    calls = []
    r = mpctools.reduce(lambda a, b: calls.append(1), [], None)
    r2 = list(mpctools.accumulate([], operator.add, None))
    if r is not None or calls or r2 != [None]:
        ctx.violation('initial-None-not-a-value', {'reduce([], None)': repr(r), 'accumulate([], add, None)': repr(r2)})
    ctx.case({'fn': 'initial=None'}, nontrivial=False, kind='malformed/edge')
    try:
        list(mpctools.accumulate([1, 2], operator.add, method='Kogge-Stone'))
        ctx.violation('accumulate-invalid-method-accepted', {})
    except ValueError:
        pass
    ctx.case({'fn': 'invalid method'}, nontrivial=False, kind='malformed/edge')

    ctx.log('%d cases on the implementation; evaluating %d model expressions in Coq' % (ctx.evaluations, len(exprs)))
    if ok:
        res = ctx.coq_eval(['MPyC.Tools'], exprs, preamble=PREAMBLE, chunk=45)
        mism = 0
        for r, mt in zip(res, meta):
            key, what = mt[0], mt[1]
            if isinstance(r, tuple) and r and r[0] == 'ERROR':
                mism += 1
                ctx.broken.append({'kind': 'correspondence', 'what': 'coq evaluation failed', 'case': key, 'detail': r[1]})
                continue
            if what == 'value':
                good = r is True
            elif what == 'depth':
                m = r[1] if isinstance(r, tuple) and r and r[0] == 'Some' else None
                good = m == mt[2]
            elif what == 'depths':
                good = r == mt[2]
            else:   # default method: model says Brent-Kung iff the run matched Brent-Kung's call/depth profile
                used_bk, used_sk = mt[2]
                good = (used_bk if r else used_sk)
            if not good:
                mism += 1
                ctx.broken.append({'kind': 'correspondence', 'what': what, 'case': key, 'model': str(r)[:300], 'impl': str(mt[2:])[:300]})
        ctx.extra['traces_validated_against_impl'] = len(exprs) - mism
        ctx.log('model/implementation disagreements: %d' % mism)
    if ctx.broken and not ctx.violations:
        ctx.unproved('C32 model/proof', {'broken': ctx.broken[:5]})
