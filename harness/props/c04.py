"""C04 — secure finite-field arithmetic equals field arithmetic (all field kinds, all party
configurations, including m >= q lifting).

Proof: coq/props/C04.v over coq/theories/SecFld.v (value-level model of runtime.pow incl. the
b = 254 chain, reciprocal by blinding, is_zero via a^(q-1), is_zero_public, char-2 and_/xor/invert/
or_, to_bits/from_bits, and the subfield lifting of sectypes._SecFld).
Tie: the real protocols run in the multi-party simulator (m real runtimes, genuinely shared
inputs via mpc.input) for every field kind and configuration; every output is compared with plain
`finfields` arithmetic (oracle) and must be an element of the REQUESTED field; for prime fields and
binary fields the Coq model is evaluated (vm_compute) on the same inputs and compared exactly.
"""
import itertools, logging
from lib.core import zlit, zlist, natlit, nlit, blit
from lib.sim import Sim

MANIFEST = {
    'text': 'Coq theorems over an abstract field (all fields, all elements, all public exponents): runtime.pow as coded '
            '(LSB-first square-and-multiply, the b=254 addition chain, reciprocal for negative exponents) equals the power '
            'function; reciprocal by blinding r/(a r) = 1/a for every nonzero mask, retry loop sound and complete; '
            'Fermat a^(q-1)=1 proved for ANY finite field given with a duplicate-free complete enumeration of its elements '
            '(theories/Fermat.v: x->ax permutes the nonzero elements), hence is_zero/==/!= via a^(q-1) exact in every '
            'enumerated finite field with NO Fermat hypothesis; instantiated for Z_p for every prime p and for GF(4); is_zero_public correct iff mask nonzero; characteristic 2 on d-bit vectors: & = from_bits(schur('
            'to_bits)), | = a+b+(a&b), ~ = a+(2^d-1), ^ = +, masked to_bits exact for every mask, from_bits inverse; prime '
            'fields from_bits(to_bits) roundtrip; lifting: for any field embedding K->L all operators on lifted values '
            'out-convert to the result in the requested field K. Tied to /repo on every run: m-party simulator runs '
            '(configs (1,0),(2,0),(3,1),(4,1),(5,2) [+(7,3) thorough] x PRSS on/off) of + - * / ** == != & | ^ ~ to_bits '
            'from_bits is_zero_public on genuinely shared inputs over GF(p) p in {2,3,5,7,11,101,2^31-1,64-bit}, GF(2^d) '
            'd<=8, GF(9), GF(27), GF(25) incl. lifted SecFld(2),(3),(5),(7) with m>=q, all element pairs for order<=16 in '
            'the (1,0),(3,1) configs, vs plain finfields arithmetic and vs the Coq model (vm_compute) on the same inputs.',
    'note': 'Partial: lift_correct assumes the embedding is a ring homomorphism inverted by out_conv (discharged for '
            'GF(2) in GF(4); other (q,e) by the correspondence run only). The model is value level: sharing/resharing/PRSS '
            'are C11-C16; the secure path of to_bits for prime fields (convert -> secint bits -> convert back) is covered by '
            'the simulator oracle, not modelled. Coq executable instance only for prime fields (ZpOps) and bit vectors; '
            'odd-characteristic extension fields are checked against the finfields oracle only. Mask r of the model '
            'reciprocal is chosen by the harness (result proved independent of r<>0). SecFld(4) with m>=4,t>0 is refused by '
            'an assert in sectypes (not a wrong result). Known findings: F-C04-1 to_bits on a lifted odd prime field (TypeError, hangs); '
            'F-C04-2 lifted type times/divided by a public int outside [0,q) leaves the requested field (checked on raw outputs).',
    'technique': 'Coq proof over abstract field + multi-party simulator differential check vs finfields oracle and vm_compute model',
}

P31 = 2 ** 31 - 1
P64 = 18446744073709551557
POW_KS = [0, 1, 2, 3, 5, 6, 254, -1, -2, -5]


def field_list(ctx):
    """(p, d) of the requested fields."""
    primes = [2, 3, 5, 7, 11, 101, P31, P64]
    binary = [(2, d) for d in range(2, 9)]
    ext = [(3, 2), (3, 3), (5, 2)]
    return [(p, 1) for p in primes] + binary + ext


def canon(v):
    """field element -> unsigned int representation"""
    val = v.value
    if isinstance(val, int):
        return val % type(v).modulus
    return int(val)


def gen_cases(ctx, p, d, exhaustive, npairs):
    q = p ** d
    rng = ctx.rng
    if exhaustive:
        pairs = list(itertools.product(range(q), range(q)))
        unary = list(range(q))
    else:
        bnd = sorted({0, 1, 2 % q, q - 1, q - 2 if q > 2 else 0, q // 2, (q // 2 + 1) % q})
        nb = 3 if npairs <= 3 else 4
        bsel = [bnd[0], bnd[1], bnd[-1]] if nb == 3 else bnd[:3] + [bnd[-1]]
        pairs = [(a, b) for a in bsel for b in bsel]
        while len(pairs) < npairs + nb * nb:
            pairs.append((rng.randrange(q), rng.randrange(q)))
        pairs.append((pairs[-1][0], pairs[-1][0]))           # equal operands
        unary = bnd + [rng.randrange(q) for _ in range(4)]
    if q > 64:
        unary = unary[:8]
    elif exhaustive and q > 9:
        unary = unary[:10]
    return pairs, unary


def make_prog(specs):
    """specs: list of (p, d, pairs, unary, consts). Returns program returning {name: result}."""
    async def prog(mpc, mods, pid):
        ff = mods['mpyc.finfields']
        m = len(mpc.parties)
        res = {}
        for (p, d, pairs, unary, consts) in specs:
            q = p ** d
            name = 'GF(%d^%d)' % (p, d)
            try:
                secfld = mpc.SecFld(q)
            except AssertionError:
                res[name] = 'refused'
                continue
            Freq = ff.GF(p) if d == 1 else ff.GF(ff.find_irreducible(p, d))
            lifted = secfld.subfield is not None
            info = {'lifted': lifted, 'work_field': secfld.field.__name__, 'work_order': secfld.field.order,
                    'bit_length': secfld.bit_length}
            A = mpc.input([secfld(a if pid == 0 else 0) for a, b in pairs], senders=0)
            B = mpc.input([secfld(b if pid == m - 1 else 0) for a, b in pairs], senders=m - 1)
            U = mpc.input([secfld(u if pid == 1 % m else 0) for u in unary], senders=1 % m)
            outs, labels = [], []
            routs, rlabels = [], []      # lifted types: public-int mul/div opened raw (no out-conversion assert)

            def add(lbl, v):
                if lifted and lbl[0] in ('mulc', 'rmulc', 'divc', 'rdivc'):
                    rlabels.append(lbl)
                    routs.append(v)
                else:
                    labels.append(lbl)
                    outs.append(v)
            for i, ((a, b), x, y) in enumerate(zip(pairs, A, B)):
                add(('add', i), x + y)
                add(('sub', i), x - y)
                add(('mul', i), x * y)
                add(('eq', i), x == y)
                add(('ne', i), x != y)
                if b:
                    add(('div', i), x / y)
                if p == 2:
                    add(('and', i), x & y)
                    add(('or', i), x | y)
                    add(('xor', i), x ^ y)
            for i, (u, x) in enumerate(zip(unary, U)):
                add(('neg', i), -x)
                add(('pos', i), +x)
                if p == 2:
                    add(('inv', i), ~x)
                add(('pow_q1', i), x ** (q - 1))
                for k in (POW_KS if len(unary) <= 6 else POW_KS[i % 3::3] + [254]):
                    if k >= 0 or u:
                        add(('pow', i, k), x ** k)
                if u:
                    add(('rdiv1', i), 1 / x)
                c = consts[i % len(consts)]
                add(('addc', i), x + c)
                add(('raddc', i), c + x)
                add(('subc', i), x - c)
                add(('rsubc', i), c - x)
                add(('mulc', i), x * c)
                add(('rmulc', i), c * x)
                if c % p and d == 1:
                    add(('divc', i), x / c)
                if u and d == 1:
                    add(('rdivc', i), c / x)
                if not lifted:
                    add(('addF', i), x + Freq(c))
                    add(('mulF', i), x * Freq(c))
            # bit decomposition (prime and binary fields; lifted odd primes are probed separately)
            bits_done = []
            if (d == 1 or p == 2) and not (lifted and p > 2):
                l = secfld.bit_length
                for i, x in enumerate(U[:6] if q <= 256 else U[:2]):
                    bits = mpc.to_bits(x)
                    for j, bj in enumerate(bits):
                        add(('bit', i, j), bj)
                    add(('from_bits', i), mpc.from_bits(bits))
                    bits_done.append(i)
            got = await mpc.output(outs)
            vals = [(canon(v), type(v) is Freq) for v in got]
            if routs:
                rgot = await mpc.output(routs, raw=True)
                labels = labels + rlabels
                vals = vals + [(int(v.value), int(v.value) < p) for v in rgot]   # in the image of GF(p) iff constant
            zpub = []
            for i, x in enumerate(U[:5]):
                zpub.append(bool(await mpc.is_zero_public(x)))
            res[name] = (info, labels, vals, zpub)
        return res
    return prog


def make_bits_probe(p):
    async def prog(mpc, mods, pid):
        secfld = mpc.SecFld(p)
        x = mpc.input(secfld(p - 1 if pid == 0 else 0), senders=0)
        bits = mpc.to_bits(x)
        return [canon(v) for v in await mpc.output(bits)]
    return prog


def oracle_values(F, p, d, pairs, unary, consts, labels):
    q = p ** d
    exp = {}
    E = F
    for lbl in labels:
        op, i = lbl[0], lbl[1]
        if op in ('add', 'sub', 'mul', 'eq', 'ne', 'div', 'and', 'or', 'xor'):
            a, b = pairs[i]
            x, y = E(a), E(b)
            if op == 'add':
                v = x + y
            elif op == 'sub':
                v = x - y
            elif op == 'mul':
                v = x * y
            elif op == 'div':
                v = x / y
            elif op == 'eq':
                v = E(int(a == b))
            elif op == 'ne':
                v = E(int(a != b))
            elif op == 'and':
                v = E(a & b)
            elif op == 'or':
                v = E(a | b)
            else:
                v = E(a ^ b)
        else:
            u = unary[i]
            x = E(u)
            c = consts[i % len(consts)]
            if op == 'neg':
                v = -x
            elif op == 'pos':
                v = x
            elif op == 'inv':
                v = E((q - 1) ^ u)
            elif op == 'pow_q1':
                v = E(int(u != 0))          # independent of the package's pow: Fermat
            elif op == 'pow':
                v = x ** lbl[2]
            elif op == 'rdiv1':
                v = E(1) / x
            elif op in ('addc', 'raddc', 'addF'):
                v = x + E(c)
            elif op == 'subc':
                v = x - E(c)
            elif op == 'rsubc':
                v = E(c) - x
            elif op in ('mulc', 'rmulc', 'mulF'):
                v = x * E(c)
            elif op == 'divc':
                v = x / E(c)
            elif op == 'rdivc':
                v = E(c) / x
            elif op == 'bit':
                v = E((u >> lbl[2]) & 1)
            elif op == 'from_bits':
                v = x
            else:
                raise KeyError(op)
        exp[lbl] = canon(v)
    return exp


def ref_prime(p, op, a, b=None):
    """second, package-independent reference for prime fields (plain ints)"""
    if op == 'add':
        return (a + b) % p
    if op == 'sub':
        return (a - b) % p
    if op == 'mul':
        return (a * b) % p
    if op == 'div':
        return (a * pow(b, p - 2, p)) % p
    if op == 'eq':
        return int(a == b)
    if op == 'ne':
        return int(a != b)
    return None


def run(ctx):
    lvl = logging.root.manager.disable
    logging.disable(logging.WARNING)
    try:
        _run(ctx)
    finally:
        logging.disable(lvl)


def _run(ctx):
    import mpyc.finfields as FF0
    ok = ctx.build(['MPyC.SecFld']) and ctx.check_props()
    # on a broken tree thousands of outputs can be wrong: keep the first 60 replay files, count the rest
    _viol, _new = ctx.violation, [0, 0]

    def capped(sig, detail, found_input=True):
        if _new[0] >= 60:
            _new[1] += 1
            ctx.extra['violations_not_written'] = _new[1]
            return 'new'
        r = _viol(sig, detail, found_input)
        if r == 'new':
            _new[0] += 1
        return r
    ctx.violation = capped
    rng = ctx.rng
    configs = [(1, 0), (2, 0), (3, 1), (4, 1), (5, 2)] + ctx.n([], [(5, 1), (6, 2), (7, 3)])
    fields = field_list(ctx)
    ctx.rule = ('case = (config (m,t,prss), requested field, operator, operands); operands genuinely shared by mpc.input from '
                'different parties; all element pairs for order <= 16 in config (3,1,PRSS) (order <= %d for m <= 3, <= 5 for m >= 4), '
                'boundary + random above; non-trivial = every case (distinct by config/field/op/operands)' % ctx.n(9, 16))
    ctx.explanation = ('outputs of the real multi-party protocols vs plain finfields arithmetic, type of every output = requested '
                       'field; Coq model (ZpOps / bit vectors) evaluated on the same operands and compared exactly')
    coq_cases = {}     # key -> impl value (first seen); compared across configs too
    coq_exprs = {}
    nchecked = 0
    lifted_seen = {}
    refused = set()
    exhaustive_done = set()
    for (m, t) in configs:
        for no_prss in (False, True):
            cfg = 'm=%d,t=%d,%s' % (m, t, 'noprss' if no_prss else 'prss')
            # workload level: 2 = all pairs for order <= 16; 1 = all pairs for order <= 9; 0 = order <= 5 + fewer fields
            if ctx.tier == 'thorough':
                level = 2 if m <= 5 else 1
            else:
                level = 2 if (m, t, no_prss) == (3, 1, False) else 1 if (m <= 3 and not no_prss) or m == 3 else 0
            exq = {2: 16, 1: 9, 0: 5}[level]
            specs = []
            for (p, d) in fields:
                q = p ** d
                if level == 0 and q not in ((2, 3, 4, 5, 7, P64, 16, 256, 9) if m >= 4 else (2, 3, 4, 5, 7, 11, 101, P31, P64, 8, 16, 256, 9, 27, 25)):
                    continue
                ex = q <= exq
                pairs, unary = gen_cases(ctx, p, d, ex, ctx.n(3, 20) if level == 0 else ctx.n(6, 20))
                if level == 0 and not ex:
                    unary = unary[:5]
                if ex:
                    exhaustive_done.add((cfg, q))
                if d == 1:
                    consts = [q + 1, 2] + [rng.choice([0, 1, 3, -1, q - 1, q, -q - 2, rng.randrange(-q, 2 * q)]) for _ in range(3)]
                else:       # ints denote elements by their base-p digits: stay inside [0, q)
                    consts = [rng.choice([0, 1, 2, 3, q - 1, rng.randrange(q)]) % q for _ in range(5)]
                specs.append((p, d, pairs, unary, consts))
            sim = Sim(m=m, t=t, no_prss=no_prss, seed=ctx.seed + 13 * m + t, log_messages=False, track_tasks=False)
            loop_errs = []
            sim.loop.set_exception_handler(lambda loop, c: loop_errs.append(repr(c.get('exception') or c.get('message'))))
            try:
                st = sim.start()
                if not sim.started:
                    ctx.violation('sim-start-failed ' + cfg, {'cfg': cfg, 'start': repr(st)})
                    continue
                res = sim.run(make_prog(specs), idle_limit=10 ** 8 if m == 1 else 3000 if t > 0 else 50000)
                if all(r != 'PENDING' for r in res):
                    sim.shutdown()
            finally:
                sim.close()
            if any(not isinstance(r, dict) for r in res):
                ctx.violation('program-failed ' + cfg, {'cfg': cfg, 'results': [repr(r)[:300] for r in res],
                                                        'loop_errors': loop_errs[:3]})
                continue
            for r in res[1:]:
                if r != res[0]:
                    ctx.violation('party-disagreement ' + cfg, {'cfg': cfg})
                    break
            r0 = res[0]
            for (p, d, pairs, unary, consts) in specs:
                q = p ** d
                name = 'GF(%d^%d)' % (p, d)
                out = r0[name]
                if out == 'refused':
                    # sectypes asserts ext_deg == 1 for lifting: SecFld(p^d), d>1, with m >= q and t > 0
                    if not (d > 1 and m >= q and t > 0):
                        ctx.violation('unexpected-refusal %s %s' % (name, cfg), {'cfg': cfg, 'field': name})
                    refused.add((name, cfg))
                    ctx.case({'cfg': cfg, 'field': name, 'refused': True}, nontrivial=True, kind='refused(assert)')
                    continue
                info, labels, vals, zpub = out
                want_lift = t > 0 and m >= q
                if info['lifted'] != want_lift:
                    ctx.violation('lifting-rule %s %s' % (name, cfg), {'cfg': cfg, 'field': name, 'info': info})
                if info['lifted']:
                    lifted_seen[(name, m)] = info['work_field']
                    if info['work_order'] <= m:
                        ctx.violation('lifted-field-too-small %s %s' % (name, cfg), {'cfg': cfg, 'info': info})
                F = FF0.GF(p) if d == 1 else FF0.GF(FF0.find_irreducible(p, d))
                labels = [tuple(l) for l in labels]
                exp = oracle_values(F, p, d, pairs, unary, consts, labels)
                kind = ('lifted ' if info['lifted'] else '') + ('GF(p)' if d == 1 else 'GF(2^d)' if p == 2 else 'GF(p^d)')
                for lbl, (val, tyok) in zip(labels, vals):
                    op, i = lbl[0], lbl[1]
                    binop = op in ('add', 'sub', 'mul', 'eq', 'ne', 'div', 'and', 'or', 'xor')
                    operands = list(pairs[i]) if binop else [unary[i]]
                    key = {'cfg': cfg, 'field': name, 'op': list(lbl[:1]) + list(lbl[2:]), 'x': operands}
                    if not binop and op not in ('neg', 'pos', 'inv', 'pow_q1', 'pow', 'rdiv1', 'bit', 'from_bits'):
                        key['c'] = consts[i % len(consts)]
                    ctx.case(key, nontrivial=True, kind=kind)
                    nchecked += 1
                    want = exp[lbl]
                    if d == 1 and binop and op in ('add', 'sub', 'mul', 'div', 'eq', 'ne'):
                        w2 = ref_prime(p, op, *pairs[i])
                        assert w2 == want, ('oracle self-check', p, op, pairs[i], w2, want)
                    cst = consts[i % len(consts)] if not binop else None
                    if info['lifted'] and op in ('mulc', 'rmulc', 'divc', 'rdivc') and not 0 <= cst < q and (val != want or not tyok):
                        # F-C04-2: _coerce2 passes the int through unreduced; the lifted field reads it in base q
                        ctx.violation('lifted public-int-operand-outside-[0,q) op=%s %s %s' % (op, name, cfg),
                                      {'cfg': cfg, 'field': name, 'work_field': info['work_field'], 'op': op, 'x': operands,
                                       'const': cst, 'raw_output_int': val, 'in_subfield': tyok, 'want': want})
                        continue
                    if val != want:
                        ctx.violation('value-mismatch %s%s op=%s %s' % ('lifted ' if info['lifted'] else '', name, op, cfg),
                                      {'cfg': cfg, 'field': name, 'work_field': info['work_field'], 'op': list(lbl),
                                       'operands': operands, 'const': consts[i % len(consts)] if not binop else None,
                                       'got': val, 'want': want})
                    if not tyok:
                        ctx.violation('output-not-in-requested-field %s op=%s %s' % (name, op, cfg),
                                      {'cfg': cfg, 'field': name, 'work_field': info['work_field'], 'op': list(lbl)})
                    # model cases (config independent)
                    if d == 1 and binop and op == 'add':
                        a, b = pairs[i]
                        coq_exprs.setdefault(('bin', p, a, b), None)
                    if p == 2 and d > 1 and binop and op == 'and':
                        a, b = pairs[i]
                        coq_exprs.setdefault(('bits', d, a, b), None)
                    ck = None
                    if d == 1 and binop and op in ('add', 'sub', 'mul', 'div', 'eq', 'ne'):
                        ck = ('bin', p) + tuple(pairs[i]) + (op,)
                    elif d == 1 and op == 'pow':
                        ck = ('pow', p, unary[i], lbl[2])
                        coq_exprs.setdefault(('pow', p, unary[i], lbl[2]), None)
                    elif d == 1 and op == 'pow_q1':
                        ck = ('pow', p, unary[i], p - 1)
                        coq_exprs.setdefault(('pow', p, unary[i], p - 1), None)
                    elif p == 2 and d > 1 and op in ('and', 'or', 'xor'):
                        ck = ('bits', d) + tuple(pairs[i]) + (op,)
                    elif p == 2 and d > 1 and op == 'inv':
                        ck = ('inv', d, unary[i])
                        coq_exprs.setdefault(('inv', d, unary[i]), None)
                    elif p == 2 and d > 1 and op == 'bit':
                        ck = ('bit', d, unary[i], lbl[2])
                        coq_exprs.setdefault(('tobits', d, unary[i]), None)
                    if ck is not None:
                        coq_cases.setdefault(ck, []).append((val, cfg))
                for i, z in enumerate(zpub):
                    ctx.case({'cfg': cfg, 'field': name, 'op': 'is_zero_public', 'x': unary[i]}, kind=kind)
                    nchecked += 1
                    if z != (unary[i] % q == 0):
                        ctx.violation('is_zero_public-wrong %s %s' % (name, cfg), {'cfg': cfg, 'field': name, 'x': unary[i], 'got': z})
                    if d == 1:
                        coq_exprs.setdefault(('zpub', p, unary[i]), None)
                        coq_cases.setdefault(('zpub', p, unary[i]), []).append((z, cfg))
            ctx.log('%s: %d outputs checked so far' % (cfg, nchecked))
            # bit decomposition of lifted odd prime fields, each in its own simulator (a failure hangs the program)
            for p in (3, 5, 7):
                if t > 0 and m >= p:
                    sim = Sim(m=m, t=t, no_prss=no_prss, seed=ctx.seed + 1, log_messages=False, track_tasks=False)
                    errs = []
                    sim.loop.set_exception_handler(lambda loop, c: errs.append(repr(c.get('exception') or c.get('message'))))
                    try:
                        sim.start()
                        rb = sim.run(make_bits_probe(p), idle_limit=300)
                    finally:
                        sim.close()
                    want = [((p - 1) >> j) & 1 for j in range((p - 1).bit_length())]
                    ctx.case({'cfg': cfg, 'field': 'GF(%d)' % p, 'op': 'to_bits(lifted)', 'x': p - 1}, kind='lifted GF(p)')
                    if any(r != want for r in rb):
                        typeerr = any('Binary field or prime field required' in e for e in errs)
                        ctx.violation('to_bits lifted-odd-prime-field%s GF(%d) %s' % (' TypeError' if typeerr else ' OTHER', p, cfg),
                                      {'cfg': cfg, 'field': 'SecFld(%d)' % p, 'program': 'x = mpc.input(secfld(p-1), senders=0); '
                                       'await mpc.output(mpc.to_bits(x))', 'results': [repr(r)[:120] for r in rb],
                                       'loop_errors': errs[:3], 'want': want})
    ctx.extra['exhaustive'] = True
    ctx.extra['exhaustive_pairs_for'] = sorted('%s q=%d' % k for k in exhaustive_done)[:60]
    ctx.extra['lifted_types_seen'] = sorted('%s m=%d -> %s' % (k[0], k[1], v) for k, v in lifted_seen.items())
    ctx.extra['refused_by_assert'] = sorted('%s %s' % k for k in refused)
    ctx.extra['implementation_outputs_checked'] = nchecked
    ctx.notes.append('plain subfield elements as operands of a LIFTED secure type are rejected by _coerce (TypeError); only '
                     'int constants are mixed with lifted types here (observation, not a wrong result)')
    # ---- Coq model on the same operands
    keys = list(coq_exprs)
    exprs = []
    for k in keys:
        if k[0] == 'bin':
            _, p, a, b = k
            r = rng.randrange(1, p) if p > 2 else 1
            exprs.append('zp_binops %s %s %s %s' % (zlit(p), zlit(r), zlit(a), zlit(b)))
        elif k[0] == 'pow':
            _, p, a, e = k
            r = rng.randrange(1, p) if p > 2 else 1
            exprs.append('zp_pow %s %s %s %s' % (zlit(p), zlit(r), zlit(a), zlit(e)))
        elif k[0] == 'zpub':
            _, p, a = k
            r = rng.randrange(1, p) if p > 2 else 1
            exprs.append('zp_is_zero_public %s %s %s' % (zlit(p), zlit(r), zlit(a)))
        elif k[0] == 'bits':
            _, d, a, b = k
            exprs.append('(and2 %s %s %s, or2 %s %s %s, xor2 %s %s)' % (natlit(d), nlit(a), nlit(b), natlit(d), nlit(a), nlit(b), nlit(a), nlit(b)))
        elif k[0] == 'inv':
            _, d, a = k
            exprs.append('invert2 %s %s' % (natlit(d), nlit(a)))
        elif k[0] == 'tobits':
            _, d, a = k
            rb = '[' + '; '.join(blit(rng.random() < 0.5) for _ in range(d)) + ']'
            exprs.append('to_bits2_masked %s %s %s' % (natlit(d), rb, nlit(a)))
    ctx.log('evaluating %d model expressions in Coq' % len(exprs))
    mism = 0
    if ok and exprs:
        out = ctx.coq_eval(['MPyC.SecFld'], exprs, chunk=140)
        model = {}
        for k, r in zip(keys, out):
            if isinstance(r, tuple) and r and r[0] == 'ERROR':
                mism += 1
                ctx.broken.append({'kind': 'correspondence', 'what': 'coq evaluation failed', 'case': list(k), 'detail': r[1][:300]})
                continue
            if k[0] == 'bin':
                _, p, a, b = k
                for op, v in zip(('add', 'sub', 'mul', 'div', 'eq', 'ne'), r):
                    model[('bin', p, a, b, op)] = v
            elif k[0] == 'pow':
                model[k] = r
            elif k[0] == 'zpub':
                model[k] = r
            elif k[0] == 'bits':
                _, d, a, b = k
                for op, v in zip(('and', 'or', 'xor'), r):
                    model[('bits', d, a, b, op)] = v
            elif k[0] == 'inv':
                model[k] = r
            elif k[0] == 'tobits':
                _, d, a = k
                for j, bj in enumerate(r):
                    model[('bit', d, a, j)] = int(bj)
        compared = 0
        for ck, lst in coq_cases.items():
            if ck not in model:
                continue
            for (val, cfg) in lst:
                compared += 1
                if model[ck] != val:
                    mism += 1
                    if len(ctx.broken) < 20:
                        ctx.broken.append({'kind': 'correspondence', 'case': [str(x) for x in ck], 'cfg': cfg, 'model': model[ck], 'impl': val})
        ctx.extra['traces_validated_against_impl'] = compared - mism
        ctx.extra['model_expressions'] = len(exprs)
        ctx.log('model/implementation comparisons: %d, disagreements: %d' % (compared, mism))
    if ctx.broken and not ctx.violations:
        ctx.unproved('C04 model/proof', {'broken': ctx.broken[:5]})
