"""fakenet — real `mpyc.asyncoro.MessageExchanger` objects on fake transports (no sockets).

Nothing in /repo is patched: the exchangers are the real class, the runtime they talk to is a real
`mpyc.runtime.Runtime` instance (its constructor only stores pid/parties/options and draws the PRSS
keys), built for an arbitrary (m, t, pid) with plain `Party` objects.  `data_received` can then be
driven with arbitrary chunks, and everything a client writes ends up in `FakeTransport.writes`.

API
---
mods()                                -> (mpyc.runtime module, mpyc.asyncoro module), imported with a
                                         neutral sys.argv (mpyc parses sys.argv on import)
make_runtime(m, t, pid, no_prss=False, key_fn=None, option_t=None) -> Runtime
      real Runtime for party `pid` of `m` with threshold `t`; `parties[pid].protocol` is a Future
      (as after Runtime.start), all other `protocol`s None.  key_fn(subset) -> 16 bytes replaces the
      secrets.token_bytes keys (same dict keys) to make runs reproducible.  option_t: the start-up
      option value (rt.options.threshold) when it differs from the threshold in force: the runtime
      is built with option_t and then `rt.threshold = t` is assigned, as a program does with
      `mpc.threshold = t` before `mpc.start()`.
reset_protocols(rt)                   fresh `parties[pid].protocol` Future, peers' protocols None
                                      (set_protocol resolves that Future once all peers are connected)
FakeTransport()                       .write/.writelines/.close record into .writes; .take() -> bytes
                                      written since the last take(); .closed
server_exchanger(rt)                  -> (MessageExchanger(rt), transport)   connection_made called;
                                         waits for the peer's handshake (peer_pid is None)
client_exchanger(rt, peer_pid)        -> (MessageExchanger(rt, peer_pid), transport)   connection_made
                                         called: transport holds pid + PRSS keys for that peer
split_at(data, cuts)                  -> list of bytes chunks; cuts = sorted positions in 0..len(data),
                                         repeated positions give empty chunks
all_cutsets(n)                        -> iterator over all 2^(n-1) compositions of n bytes (as cut lists)
random_cuts(rng, n, k, empties=0)     -> k random cut positions (+ `empties` duplicated ones)
feed(ex, chunks)                      call ex.data_received(chunk) for each chunk
snapshot(ex)                          -> (peer_pid, bytes(ex.bytes), [(pc, payload bytes | 'W'), ...])
                                         buffers in dict (insertion) order, 'W' = a waiting Future
flush(rt, rounds=2)                   run the runtime's event loop briefly (Future callbacks)
"""
import sys
import argparse
import itertools
from asyncio import Future

_mods = None


def mods():
    """Import mpyc.runtime / mpyc.asyncoro once, shielding mpyc's import-time argv parsing."""
    global _mods
    if _mods is None:
        saved = sys.argv
        sys.argv = [saved[0] if saved else 'x', '--no-log']
        try:
            import mpyc.runtime as R
            import mpyc.asyncoro as A
        finally:
            sys.argv = saved
        _mods = (R, A)
    return _mods


def make_runtime(m, t, pid, no_prss=False, key_fn=None, option_t=None):
    R, A = mods()
    opts = argparse.Namespace(**vars(R.mpc.options))
    opts.threshold = t if option_t is None else option_t
    opts.no_prss = bool(no_prss)
    opts.no_log = True
    opts.M = m
    opts.index = pid
    parties = [R.Party(i) for i in range(m)]
    rt = R.Runtime(pid, parties, opts)           # threshold setter draws the PRSS keys (unless no_prss)
    if option_t is not None and option_t != t:
        rt.threshold = t                         # the program assigns mpc.threshold before mpc.start():
        #                                          keys are redrawn for t; rt.options.threshold stays option_t
    if key_fn is not None and not no_prss:
        for subset in list(rt._prss_keys):
            k = bytes(key_fn(subset))
            assert len(k) == 16
            rt._prss_keys[subset] = k
    reset_protocols(rt)
    return rt


def reset_protocols(rt):
    for p in rt.parties:
        p.protocol = Future(loop=rt._loop) if p.pid == rt.pid else None


class FakeTransport:
    def __init__(self):
        self.writes = []
        self.closed = False
        self._taken = 0

    def write(self, data):
        self.writes.append(bytes(data))

    def writelines(self, seq):
        for d in seq:
            self.write(d)

    def close(self):
        self.closed = True

    def take(self):
        out = b''.join(self.writes[self._taken:])
        self._taken = len(self.writes)
        return out


def server_exchanger(rt):
    R, A = mods()
    ex = A.MessageExchanger(rt)
    tr = FakeTransport()
    ex.connection_made(tr)
    return ex, tr


def client_exchanger(rt, peer_pid):
    R, A = mods()
    ex = A.MessageExchanger(rt, peer_pid)
    tr = FakeTransport()
    ex.connection_made(tr)
    return ex, tr


def split_at(data, cuts):
    pos = [0] + list(cuts) + [len(data)]
    return [bytes(data[a:b]) for a, b in zip(pos, pos[1:])]


def all_cutsets(n):
    """All compositions of n bytes: every subset of the n-1 interior cut positions."""
    for r in range(0, max(n, 1)):
        for c in itertools.combinations(range(1, n), r):
            yield list(c)


def random_cuts(rng, n, k, empties=0):
    cuts = [rng.randrange(0, n + 1) for _ in range(k)]
    for _ in range(empties):
        cuts.append(rng.choice(cuts) if cuts else rng.randrange(0, n + 1))
    return sorted(cuts)


def feed(ex, chunks):
    for c in chunks:
        ex.data_received(c)


def snapshot(ex):
    buf = []
    for pc, v in ex.buffers.items():
        buf.append((pc, 'W' if isinstance(v, Future) else bytes(v)))
    return ex.peer_pid, bytes(ex.bytes), buf


def flush(rt, rounds=2):
    loop = rt._loop
    for _ in range(rounds):
        loop.call_soon(loop.stop)
        loop.run_forever()
