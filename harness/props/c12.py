"""C12 — Shamir split and recombine are inverse for all fields and thresholds.

Proof: coq/props/C12.v (abstract field, any t < |I|, any point).  Tie: real
thresha.random_split / recombine (and the np_ variants when NumPy is importable) run on the same
coefficient tape as the Coq model `Exec.zp_split` / `zp_recombine`, compared exactly (prime
fields); extension/binary fields run against an independent Lagrange oracle only.
"""
import itertools
from lib.core import zlist, natlit, zlit

MANIFEST = {
    'text': 'Theorems in Coq over an abstract field: any >t distinct shares of random_split recombine at ANY point to the '
            'sharing polynomial (so to the secret at 0), for all t < m < |F|, all coefficient tapes, all subsets; list and '
            'array variants agree. The executable Z_p instance of exactly these definitions is run against thresha on '
            'identical randbelow tapes every run.',
    'note': 'Trusted: Coq kernel+vm_compute; the model of random_split/recombine (coq/theories/Shamir.v, Lagrange.v) is tied '
            'to thresha.py by exact comparison on prime fields (all (t,m), m<=6/7, all subsets m<=5/6); extension/binary '
            'fields are covered by the abstract theorems and an implementation-level oracle, not by an executable instance; '
            'secrets.randbelow is a tape oracle.',
    'technique': 'Coq proof (Lagrange interpolation via root bound, abstract field) + vm_compute correspondence on shared tapes',
}


class Tape:
    def __init__(self, vals):
        self.vals = list(vals)
        self.pos = 0

    def randbelow(self, n):
        v = self.vals[self.pos] % n
        self.pos += 1
        return v


def oracle_interp(field, xs, ys, xr):
    """Independent Lagrange interpolation with field elements (not thresha's vector code)."""
    tot = field(0)
    X = [field(x) for x in xs]
    R = field(xr)
    for i, xi in enumerate(X):
        num, den = field(1), field(1)
        for j, xj in enumerate(X):
            if j != i:
                num = num * (R - xj)
                den = den * (xi - xj)
        tot = tot + field(ys[i]) * num / den
    return tot


def poly_value(field, s, c, x):
    """s + c[t-1] X + ... + c[0] X^t at field(x), by plain powers (independent of Horner code)."""
    t = len(c)
    X = field(x)
    tot = field(s)
    for j, cj in enumerate(c):
        tot = tot + field(cj) * X ** (t - j)
    return tot


def coq_points(pts):
    return '[' + '; '.join('(%s, %s)' % (natlit(x), zlist(row)) for x, row in pts) + ']'


def run(ctx):
    from mpyc import thresha, finfields
    ok = ctx.build() and ctx.check_props()
    ctx.rule = ('case = (field, t, m, secrets, tape); non-trivial when t >= 1; all subsets of size >= t+1 '
                'for m <= %d, points 0, a node, m+1, random' % ctx.n(5, 6))
    ctx.explanation = ('theorems over an abstract field (any t, m, subset, point); executable Zp model '
                       'compared exactly with thresha on the same randbelow tape')
    rng = ctx.rng
    try:
        from mpyc.numpy import np
    except Exception:  # pragma: no cover
        np = None
    have_np = bool(np)
    primes = [2, 3, 7, 11, 101, 257, 2**61 - 1, 18446744073709551557]
    ext = [(2, 3), (2, 8), (3, 2), (3, 3), (5, 2)]
    maxm = ctx.n(6, 7)
    full_subsets_upto = ctx.n(5, 6)
    cases = []
    for p in primes:
        F = finfields.GF(p)
        for m in range(1, maxm + 1):
            if m >= p:
                continue
            for t in range(0, m):
                for rep in range(ctx.n(1, 3)):
                    n = rng.choice([1, 1, 2, 3])
                    ss = [rng.choice([0, 1, p - 1, rng.randrange(p)]) for _ in range(n)]
                    tape = [rng.choice([0, p - 1, rng.randrange(p), rng.randrange(p)]) for _ in range(t * n)]
                    as_field = rng.random() < 0.5
                    cases.append((p, F, m, t, ss, tape, as_field))
    exprs, meta = [], []
    for (p, F, m, t, ss, tape, as_field) in cases:
        tp = Tape(tape)
        thresha.secrets = tp
        s_in = [F(s) for s in ss] if as_field else list(ss)
        shares = thresha.random_split(F, s_in, t, m)
        assert tp.pos == t * len(ss), 'random_split consumed %d tape values, expected %d' % (tp.pos, t * len(ss))
        shares = [[int(v) for v in row] for row in shares]
        # subsets and points
        allsub = [I for r in range(t + 1, m + 1) for I in itertools.combinations(range(m), r)]
        if m > full_subsets_upto:
            allsub = rng.sample(allsub, min(len(allsub), 12))
        recs = []
        for I in allsub:
            I = list(I)
            rng.shuffle(I)
            for xr in {0, I[0] + 1, m + 1, rng.randrange(0, 2 * p + 5)}:
                pts = [(i + 1, [F(v) for v in shares[i]] if as_field else shares[i]) for i in I]
                got = thresha.recombine(F, pts, xr)
                got = [int(v) % p if not hasattr(v, 'value') else int(v.value) for v in got]
                recs.append((I, xr, got))
                # the property itself, on the implementation, via an independent computation
                for h, s in enumerate(ss):
                    want = int(poly_value(F, s, tape[h * t:(h + 1) * t], xr).value)
                    if got[h] != want:
                        ctx.violation('recombine-wrong p=%d t=%d m=%d' % (p, t, m),
                                      {'field': 'GF(%d)' % p, 't': t, 'm': m, 'secrets': ss, 'tape': tape,
                                       'subset': I, 'x_r': xr, 'got': got, 'want_h': [h, want]})
        # list x_rs form
        if allsub:
            I = list(allsub[-1])
            pts = [(i + 1, shares[i]) for i in I]
            multi = thresha.recombine(F, pts, [0, m + 1])
            m0 = thresha.recombine(F, pts, 0)
            m1 = thresha.recombine(F, pts, m + 1)
            if [[int(v) % p for v in r] for r in multi] != [[int(v) % p for v in m0], [int(v) % p for v in m1]]:
                ctx.violation('recombine-list-form p=%d' % p, {'field': p, 't': t, 'm': m, 'points': pts})
        key = {'p': p, 't': t, 'm': m, 'secrets': ss, 'tape': tape, 'as_field': as_field}
        ctx.case(key, nontrivial=t >= 1, kind='GF(p) t=%d' % t)
        sub_sample = recs if len(recs) <= 24 else rng.sample(recs, 24)
        e = '(zp_split %s %s %s %s %s, [%s])' % (
            zlit(p), zlist(tape), zlist(ss), natlit(t), natlit(m),
            '; '.join('zp_recombine %s %s %s' % (zlit(p), coq_points([(i + 1, shares[i]) for i in I]), zlit(xr))
                      for (I, xr, got) in sub_sample))
        exprs.append(e)
        meta.append((key, shares, sub_sample))
        # numpy variants
        if have_np:
            tp = Tape(tape)
            thresha.secrets = tp
            npsh = thresha.np_random_split(F, F.array(ss), t, m)
            npsh = [[int(v) % p for v in row] for row in npsh.tolist()] if hasattr(npsh, 'tolist') else npsh
            exprs.append('zp_np_split %s %s %s %s %s' % (zlit(p), zlist(tape), zlist(ss), natlit(t), natlit(m)))
            meta.append(('np', key, npsh))
    import secrets as _secrets
    thresha.secrets = _secrets
    ctx.log('%d implementation cases; evaluating %d model expressions in Coq' % (len(cases), len(exprs)))
    if ok:
        res = ctx.coq_eval(['MPyC.Exec'], exprs, chunk=40)
        mism = 0
        for r, mt in zip(res, meta):
            if mt[0] == 'np':
                _, key, npsh = mt
                if r != npsh:
                    mism += 1
                    ctx.broken.append({'kind': 'correspondence', 'what': 'np_random_split', 'case': key,
                                       'model': str(r)[:300], 'impl': str(npsh)[:300]})
                continue
            key, shares, sub = mt
            if isinstance(r, tuple) and r and r[0] == 'ERROR':
                mism += 1
                ctx.broken.append({'kind': 'correspondence', 'what': 'coq evaluation failed', 'case': key, 'detail': r[1]})
                continue
            mshares, mrecs = r
            if mshares != shares:
                mism += 1
                ctx.broken.append({'kind': 'correspondence', 'what': 'random_split', 'case': key,
                                   'model': mshares, 'impl': shares})
            for (I, xr, got), mg in zip(sub, mrecs):
                if mg != got:
                    mism += 1
                    ctx.broken.append({'kind': 'correspondence', 'what': 'recombine', 'case': key,
                                       'subset': I, 'x_r': xr, 'model': mg, 'impl': got})
        ctx.extra['traces_validated_against_impl'] = len(exprs) - mism
        ctx.log('model/implementation disagreements: %d' % mism)
    # extension and binary fields: independent oracle only (no Coq instance yet)
    nx = 0
    for (p, d) in ext:
        F = finfields.GF(finfields.find_irreducible(p, d)) if hasattr(finfields, 'find_irreducible') else None
        q = p ** d
        for m in range(1, min(maxm, q - 1) + 1):
            for t in range(0, m):
                n = rng.choice([1, 2])
                ss = [rng.randrange(q) for _ in range(n)]
                tape = [rng.randrange(q) for _ in range(t * n)]
                tp = Tape(tape)
                thresha.secrets = tp
                sh = thresha.random_split(F, [F(s) for s in ss], t, m)
                thresha.secrets = _secrets
                subs = [I for r in range(t + 1, m + 1) for I in itertools.combinations(range(m), r)]
                if len(subs) > 10:
                    subs = rng.sample(subs, 10)
                for I in subs:
                    for xr in (0, I[0] + 1, m + 1):
                        got = thresha.recombine(F, [(i + 1, sh[i]) for i in I], xr)
                        for h in range(n):
                            want = poly_value(F, ss[h], tape[h * t:(h + 1) * t], xr)
                            nx += 1
                            g = got[h] if isinstance(got[h], F) else F(got[h])   # raw values are representatives
                            if g != want:
                                ctx.violation('recombine-wrong GF(%d^%d) t=%d m=%d' % (p, d, t, m),
                                              {'field': [p, d], 't': t, 'm': m, 'secrets': ss, 'tape': tape,
                                               'subset': list(I), 'x_r': xr, 'got': str(got[h]), 'want': str(want)})
                if have_np and hasattr(thresha, 'np_random_split'):
                    # array variants on the same tape (np_random_split draws all coefficients of all secrets in one sweep:
                    # draw number j*n + h is the coefficient of X^(j+1) of secret h, i.e. c[t-1-j] of the list variant)
                    # must give the same shares and recombine alike
                    tape_np = [tape[h * t + (t - 1 - j)] for j in range(t) for h in range(n)]
                    thresha.secrets = Tape(tape_np)
                    try:
                        npsh = thresha.np_random_split(F, F.array([F(x).value for x in ss], check=False), t, m)
                    finally:
                        thresha.secrets = _secrets
                    for i in range(m):
                        for h in range(n):
                            a, b = npsh[i][h], sh[i][h]
                            a = a if isinstance(a, F) else F(a)
                            b = b if isinstance(b, F) else F(b)
                            nx += 1
                            if a != b:
                                ctx.violation('np_random_split-differs-from-random_split GF(%d^%d) t=%d m=%d' % (p, d, t, m),
                                              {'field': [p, d], 't': t, 'm': m, 'secrets': ss, 'tape': tape, 'party': i,
                                               'np_share': str(a), 'list_share': str(b)})
                    if t < m:
                        I = tuple(range(m - t - 1, m))
                        pts = [(i + 1, npsh[i]) for i in I]
                        for xr in (0, m + 1):
                            got = thresha.np_recombine(F, pts, xr)
                            for h in range(n):
                                want = poly_value(F, ss[h], tape[h * t:(h + 1) * t], xr)
                                g = got[h] if isinstance(got[h], F) else F(got[h])
                                nx += 1
                                if g != want:
                                    ctx.violation('np_recombine-wrong GF(%d^%d) t=%d m=%d' % (p, d, t, m),
                                                  {'field': [p, d], 't': t, 'm': m, 'secrets': ss, 'tape': tape, 'subset': list(I),
                                                   'x_r': xr, 'got': str(g), 'want': str(want)})
                ctx.case({'ext': [p, d], 't': t, 'm': m, 'ss': ss, 'tape': tape}, nontrivial=t >= 1, kind='GF(p^d)')
    ctx.extra['extension_field_oracle_checks'] = nx
    ctx.notes.append('extension/binary fields: property oracle on the implementation only; the Coq theorems cover them '
                     'as abstract fields, an executable extension-field instance is not part of this check')
    ctx.notes.append('numpy variants compared: %s' % have_np)
    if ctx.broken and not ctx.violations:
        # a proof obligation or the correspondence broke, but every implementation run satisfied the
        # property oracle above (which already covered all subsets/points for the same cases)
        ctx.unproved('C12 model/proof', {'broken': ctx.broken[:5]})
