(** SecGrp.v — value/share-level model of the secure group protocols of mpyc/secgroups.py:
    repeat_secret_base_secret_output (square-and-multiply over the exponent bits with if_else),
    repeat_public_base_secret_output / repeat_public_base_public_output (every party raises the
    public base to the integer representative of lambda_i * x_i; the results are multiplied).
    Definitions over [GOps] (executable), theorems over [GroupT] (group laws as record fields). *)
Require Import MPyC.Zp.
From Coq Require Import ZArith List Lia Bool Znumtheory.
Import ListNotations.
Local Open Scope nat_scope.

Record GOps := mkGOps { gcar :> Type; gop : gcar -> gcar -> gcar; ginv : gcar -> gcar; gid : gcar }.

Record GroupT := mkGroup {
  gops :> GOps;
  g_assoc : forall a b c : gops, gop gops (gop gops a b) c = gop gops a (gop gops b c);
  g_id_l : forall a : gops, gop gops (gid gops) a = a;
  g_id_r : forall a : gops, gop gops a (gid gops) = a;
  g_inv_l : forall a : gops, gop gops (ginv gops a) a = gid gops;
  g_inv_r : forall a : gops, gop gops a (ginv gops a) = gid gops }.

(** * Definitions *)
Section Defs.
Variable G : GOps.
Local Infix "@" := (gop G) (at level 40, left associativity).
Local Notation e := (gid G).

(** specification: a^n, a^z *)
Fixpoint gpow (a : G) (n : nat) : G := match n with O => e | S n' => a @ gpow a n' end.
Definition zpow (a : G) (z : Z) : G :=
  match z with Z0 => e | Zpos p => gpow a (Pos.to_nat p) | Zneg p => ginv G (gpow a (Pos.to_nat p)) end.

(** fast evaluation of a^z (used by the executable instances; equal to zpow in a group) *)
Definition zpow_fast (a : G) (z : Z) : G :=
  match z with Z0 => e | Zpos p => Pos.iter_op (gop G) p a | Zneg p => ginv G (Pos.iter_op (gop G) p a) end.

Definition gprod (l : list G) : G := fold_right (gop G) e l.

(** secgrp.if_else(c, a, b) at value level for a bit c *)
Definition gsel (c : bool) (a b : G) : G := if c then a else b.

(** repeat_secret_base_secret_output(a, x):
      x = to_bits(x); b = a; c = if_else(x[0], a, identity)
      for x_i in x[1:]: b = b @ b; c = if_else(x_i, c @ b, c)
    (None: x[0] on an empty bit list raises) *)
Definition rep_step (bc : G * G) (xi : bool) : G * G :=
  let b := fst bc @ fst bc in (b, gsel xi (snd bc @ b) (snd bc)).
Definition repeat_bits (a : G) (x : list bool) : option G :=
  match x with
  | [] => None
  | x0 :: rest => Some (snd (fold_left rep_step rest (a, gsel x0 a e)))
  end.
End Defs.

Arguments gpow {G}. Arguments zpow {G}. Arguments zpow_fast {G}. Arguments gprod {G}. Arguments gsel {G}.
Arguments rep_step {G}. Arguments repeat_bits {G}.

(** integer value of a little-endian bit list *)
Definition bits_val (x : list bool) : nat := fold_right (fun b s => 2 * s + Nat.b2n b) 0 x.
(** l least significant bits of n *)
Fixpoint nat_bits (l : nat) (n : nat) : list bool :=
  match l with O => [] | S l' => Nat.odd n :: nat_bits l' (Nat.div2 n) end.

(** ** the public-base protocol (share level) *)
Local Open Scope Z_scope.
(** int() of a prime-field element with representative v in [0, P): signed fields (SecInt)
    are symmetric around zero, SecFld(order) is unsigned *)
Definition int_rep (signed : bool) (P v : Z) : Z := if signed && (v >? Z.shiftr P 1) then v - P else v.
(** e_i = int(lambda_i * x_i) for all parties *)
Definition pub_exps (signed : bool) (P : Z) (lams xs : list Z) : list Z :=
  map (fun lx => int_rep signed P ((fst lx * snd lx) mod P)) (combine lams xs).
(** c_i = a^(e_i); the c_i are exchanged and multiplied *)
Definition repeat_public_base {G : GOps} (signed : bool) (P : Z) (lams xs : list Z) (a : G) : G :=
  gprod (map (zpow_fast a) (pub_exps signed P lams xs)).
Definition zsum (l : list Z) : Z := fold_right Z.add 0 l.
(** the value shared by xs under the recombination vector lams *)
Definition recombined (P : Z) (lams xs : list Z) : Z := zsum (map (fun lx => fst lx * snd lx) (combine lams xs)) mod P.
Local Close Scope Z_scope.

(** * Theorems *)
Section Thms.
Variable G : GroupT.
Local Infix "@" := (gop G) (at level 40, left associativity).
Local Notation e := (gid G).

Lemma gpow_add (a : G) n m : gpow a (n + m) = gpow a n @ gpow a m.
Proof. induction n as [|n IH]; simpl; [symmetry; apply g_id_l|]. rewrite IH. symmetry. apply g_assoc. Qed.

Lemma gpow_comm1 (a : G) n : a @ gpow a n = gpow a n @ a.
Proof.
  change (a @ gpow a n) with (gpow a (1 + n)). replace (1 + n) with (n + 1) by lia.
  rewrite gpow_add. simpl. rewrite g_id_r. reflexivity.
Qed.

Lemma gpow_id n : gpow (G := G) e n = e.
Proof. induction n as [|n IH]; simpl; [reflexivity|]. rewrite IH. apply g_id_l. Qed.

Lemma ginv_unique (a b : G) : a @ b = e -> b = ginv G a.
Proof.
  intros H. transitivity (ginv G a @ (a @ b)).
  - rewrite <- g_assoc, g_inv_l, g_id_l. reflexivity.
  - rewrite H, g_id_r. reflexivity.
Qed.

Lemma ginv_op (a b : G) : ginv G (a @ b) = ginv G b @ ginv G a.
Proof.
  symmetry. apply ginv_unique.
  rewrite g_assoc. rewrite <- (g_assoc G b). rewrite g_inv_r, g_id_l. apply g_inv_r.
Qed.

Lemma ginv_id : ginv G e = e.
Proof. symmetry. apply ginv_unique. apply g_id_l. Qed.

Lemma iter_op_gpow (a : G) (p : positive) : Pos.iter_op (gop G) p a = gpow a (Pos.to_nat p).
Proof.
  induction p as [|p IH] using Pos.peano_ind.
  - simpl. symmetry. apply g_id_r.
  - rewrite Pos.iter_op_succ by (intros; symmetry; apply g_assoc).
    rewrite IH, Pos2Nat.inj_succ. reflexivity.
Qed.

Theorem zpow_fast_eq (a : G) (z : Z) : zpow_fast a z = zpow a z.
Proof. destruct z; simpl; rewrite ?iter_op_gpow; reflexivity. Qed.

(** zpow through Z.to_nat, convenient for induction *)
Lemma zpow_alt (a : G) (z : Z) : zpow a z = gpow a (Z.to_nat z) @ ginv G (gpow a (Z.to_nat (- z))).
Proof.
  destruct z as [|p|p]; simpl.
  - rewrite ginv_id. symmetry. apply g_id_l.
  - rewrite ginv_id. symmetry. apply g_id_r.
  - symmetry. apply g_id_l.
Qed.

Lemma zpow_nat (a : G) n : zpow a (Z.of_nat n) = gpow a n.
Proof. rewrite zpow_alt, Nat2Z.id. replace (Z.to_nat (- Z.of_nat n)) with O by lia. simpl. rewrite ginv_id. apply g_id_r. Qed.

Lemma zpow_succ (a : G) (z : Z) : zpow a (z + 1) = zpow a z @ a.
Proof.
  rewrite !zpow_alt. destruct (Z_le_gt_dec 0 z) as [Hz|Hz].
  - replace (Z.to_nat (z + 1)) with (S (Z.to_nat z)) by lia.
    replace (Z.to_nat (- (z + 1))) with O by lia. replace (Z.to_nat (- z)) with O by lia.
    simpl. rewrite ginv_id, !g_id_r. apply gpow_comm1.
  - replace (Z.to_nat (z + 1)) with O by lia. replace (Z.to_nat z) with O by lia.
    replace (Z.to_nat (- z)) with (S (Z.to_nat (- (z + 1)))) by lia.
    simpl. rewrite !g_id_l. rewrite ginv_op. rewrite g_assoc, g_inv_l. symmetry. apply g_id_r.
Qed.

Lemma zpow_pred (a : G) (z : Z) : zpow a (z - 1) = zpow a z @ ginv G a.
Proof.
  replace z with (z - 1 + 1)%Z at 2 by lia. rewrite zpow_succ, g_assoc, g_inv_r. symmetry. apply g_id_r.
Qed.

Lemma zpow_add_nat (a : G) (x : Z) (n : nat) : zpow a (x + Z.of_nat n) = zpow a x @ zpow a (Z.of_nat n).
Proof.
  induction n as [|n IH].
  - simpl. rewrite Z.add_0_r. symmetry. apply g_id_r.
  - rewrite Nat2Z.inj_succ. unfold Z.succ. rewrite Z.add_assoc, !zpow_succ, IH. apply g_assoc.
Qed.

Lemma zpow_sub_nat (a : G) (x : Z) (n : nat) : zpow a (x - Z.of_nat n) = zpow a x @ zpow a (- Z.of_nat n).
Proof.
  induction n as [|n IH].
  - simpl. rewrite Z.sub_0_r. symmetry. apply g_id_r.
  - rewrite Nat2Z.inj_succ. unfold Z.succ.
    replace (x - (Z.of_nat n + 1))%Z with (x - Z.of_nat n - 1)%Z by lia.
    replace (- (Z.of_nat n + 1))%Z with (- Z.of_nat n - 1)%Z by lia.
    rewrite !zpow_pred, IH. apply g_assoc.
Qed.

(** exponent law over the integers *)
Theorem zpow_add (a : G) (x y : Z) : zpow a (x + y) = zpow a x @ zpow a y.
Proof.
  destruct (Z_le_gt_dec 0 y) as [Hy|Hy].
  - rewrite <- (Z2Nat.id y Hy). apply zpow_add_nat.
  - replace y with (- Z.of_nat (Z.to_nat (- y)))%Z by lia.
    rewrite Z.add_opp_r. apply zpow_sub_nat.
Qed.

Lemma zpow_0 (a : G) : zpow a 0 = e.
Proof. reflexivity. Qed.

Lemma zpow_opp (a : G) (x : Z) : zpow a (- x) = ginv G (zpow a x).
Proof.
  apply ginv_unique. rewrite <- zpow_add. replace (x + - x)%Z with 0%Z by lia. reflexivity.
Qed.

(** a^P = 1 (i.e. ord(a) | P) implies a^(j P) = 1 for every integer j *)
Lemma zpow_mul_id (a : G) (P j : Z) : zpow a P = e -> zpow a (j * P) = e.
Proof.
  intros HP.
  assert (Hn : forall n : nat, zpow a (Z.of_nat n * P) = e).
  { induction n as [|n IH]; [reflexivity|].
    rewrite Nat2Z.inj_succ. unfold Z.succ. rewrite Z.mul_add_distr_r, Z.mul_1_l, zpow_add, IH, HP. apply g_id_l. }
  destruct (Z_le_gt_dec 0 j) as [Hj|Hj].
  - rewrite <- (Z2Nat.id j Hj). apply Hn.
  - replace (j * P)%Z with (- (Z.of_nat (Z.to_nat (- j)) * P))%Z by lia.
    rewrite zpow_opp, Hn. apply ginv_id.
Qed.

Lemma gprod_zpow (a : G) (es : list Z) : gprod (map (zpow a) es) = zpow a (zsum es).
Proof.
  induction es as [|x es IH]; simpl; [reflexivity|]. fold (gprod (map (zpow a) es)). fold (zsum es).
  rewrite IH. symmetry. apply zpow_add.
Qed.

(** ** repeat with secret base: square-and-multiply over the exponent bits *)
Lemma rep_fold (a : G) (rest : list bool) : forall (k : nat) (c : G),
  fold_left rep_step rest (gpow a k, c) =
    (gpow a (k * 2 ^ length rest), c @ gpow a (2 * k * bits_val rest)).
Proof.
  induction rest as [|xi rest IH]; intros k c.
  - simpl. rewrite Nat.mul_1_r, Nat.mul_0_r. simpl. rewrite g_id_r. reflexivity.
  - cbn [fold_left]. unfold rep_step at 2. cbn [fst snd].
    rewrite <- gpow_add. rewrite IH. f_equal.
    + f_equal. cbn [length]. rewrite Nat.pow_succ_r'. lia.
    + cbn [bits_val fold_right]. fold (bits_val rest). destruct xi; cbn [gsel Nat.b2n].
      * rewrite g_assoc, <- gpow_add. f_equal. f_equal. lia.
      * f_equal. f_equal. lia.
Qed.

Theorem repeat_bits_value (a : G) (x : list bool) : x <> [] -> repeat_bits a x = Some (gpow a (bits_val x)).
Proof.
  destruct x as [|x0 rest]; [congruence|]. intros _. unfold repeat_bits. f_equal.
  pose proof (rep_fold a rest 1 (gsel x0 a e)) as H. simpl (gpow a 1) in H. rewrite g_id_r in H.
  rewrite H. cbn [snd bits_val fold_right]. fold (bits_val rest).
  destruct x0; cbn [gsel Nat.b2n].
  - replace (2 * bits_val rest + 1) with (1 + 2 * 1 * bits_val rest) by lia. rewrite gpow_add. simpl. rewrite g_id_r. reflexivity.
  - rewrite g_id_l. f_equal. lia.
Qed.

Lemma bits_val_nat_bits (l n : nat) : n < 2 ^ l -> bits_val (nat_bits l n) = n.
Proof.
  revert n. induction l as [|l IH]; intros n H.
  - simpl in H. assert (n = 0) by lia. subst. reflexivity.
  - cbn [nat_bits bits_val fold_right]. fold (bits_val (nat_bits l (Nat.div2 n))).
    rewrite Nat.pow_succ_r' in H.
    rewrite IH by (rewrite Nat.div2_div; apply Nat.div_lt_upper_bound; lia).
    rewrite (Nat.div2_odd n) at 3. lia.
Qed.

(** for every bit length l >= 1 and exponent 0 <= x < 2^l the protocol returns a^x *)
Theorem repeat_bits_correct (a : G) (l x : nat) : 0 < l -> x < 2 ^ l ->
  repeat_bits a (nat_bits l x) = Some (gpow a x).
Proof.
  intros Hl Hx. rewrite repeat_bits_value by (destruct l; [lia|discriminate]).
  rewrite bits_val_nat_bits by exact Hx. reflexivity.
Qed.

(** ** repeat with public base *)
Lemma int_rep_mod signed P v : (int_rep signed P v mod P = v mod P)%Z.
Proof.
  unfold int_rep. destruct (signed && (v >? Z.shiftr P 1)%Z); [|reflexivity].
  replace (v - P)%Z with (v + (-1) * P)%Z by lia.
  destruct (Z.eq_dec P 0) as [->|HP]; [rewrite !Zmod_0_r; lia|]. apply Z.mod_add. exact HP.
Qed.

Lemma pub_exps_sum signed P lams xs : P <> 0%Z ->
  (zsum (pub_exps signed P lams xs) mod P = recombined P lams xs)%Z.
Proof.
  intros HP. unfold pub_exps, recombined. induction (combine lams xs) as [|[l x] r IH]; [reflexivity|].
  cbn [map zsum fold_right fst snd]. fold (zsum (map (fun lx => int_rep signed P ((fst lx * snd lx) mod P)) r)).
  fold (zsum (map (fun lx => (fst lx * snd lx)%Z) r)).
  rewrite Z.add_mod by exact HP. rewrite IH, int_rep_mod, Z.mod_mod by exact HP.
  rewrite <- Z.add_mod by exact HP. reflexivity.
Qed.

(** The product of the parties' a^(e_i) is a^(sum e_i), and sum e_i = x + j*P over the integers;
    so the result is a^x PROVIDED a^P = 1, i.e. ord(a) divides the order P of the exponent field.
    This hypothesis is forced by the proof (see [repeat_public_base_refuted] below). *)
Theorem repeat_public_base_correct (signed : bool) (P : Z) (lams xs : list Z) (a : G) (x : Z) :
  P <> 0%Z -> recombined P lams xs = (x mod P)%Z ->
  zpow a P = e ->
  repeat_public_base signed P lams xs a = zpow a x.
Proof.
  intros HP Hx Hord. unfold repeat_public_base.
  rewrite (map_ext _ _ (zpow_fast_eq a)), gprod_zpow.
  pose proof (pub_exps_sum signed P lams xs HP) as Hs. rewrite Hx in Hs.
  set (s := zsum (pub_exps signed P lams xs)) in *.
  assert (E : s = (x + (s / P - x / P) * P)%Z).
  { pose proof (Z.div_mod s P HP). pose proof (Z.div_mod x P HP). lia. }
  rewrite E, zpow_add, zpow_mul_id by exact Hord. apply g_id_r.
Qed.

(** in general the result is a^x times a^(j P) for the integer carry j *)
Theorem repeat_public_base_general (signed : bool) (P : Z) (lams xs : list Z) (a : G) (x : Z) :
  P <> 0%Z -> recombined P lams xs = (x mod P)%Z ->
  exists j : Z, repeat_public_base signed P lams xs a = zpow a x @ zpow a (j * P).
Proof.
  intros HP Hx. unfold repeat_public_base.
  rewrite (map_ext _ _ (zpow_fast_eq a)), gprod_zpow.
  pose proof (pub_exps_sum signed P lams xs HP) as Hs. rewrite Hx in Hs.
  set (s := zsum (pub_exps signed P lams xs)) in *.
  exists (s / P - x / P)%Z. rewrite <- zpow_add. f_equal.
  pose proof (Z.div_mod s P HP). pose proof (Z.div_mod x P HP). lia.
Qed.
End Thms.

(** * Concrete groups *)
(** the cyclic group of order 3 (e.g. the order-3 subgroup {1,2,4} of Z_7^* ) *)
Inductive C3 := c3_0 | c3_1 | c3_2.
Definition c3_op (a b : C3) : C3 :=
  match a, b with
  | c3_0, x | x, c3_0 => x
  | c3_1, c3_1 => c3_2 | c3_1, c3_2 | c3_2, c3_1 => c3_0 | c3_2, c3_2 => c3_1
  end.
Definition c3_inv (a : C3) : C3 := match a with c3_0 => c3_0 | c3_1 => c3_2 | c3_2 => c3_1 end.
Definition C3Ops : GOps := mkGOps C3 c3_op c3_inv c3_0.
Definition C3Group : GroupT.
Proof.
  refine (mkGroup C3Ops _ _ _ _ _); simpl;
    repeat (let a := fresh in intros a; destruct a); reflexivity.
Defined.
Definition c3_num (a : C3) : Z := match a with c3_0 => 0 | c3_1 => 1 | c3_2 => 2 end%Z.

(** F-C28: without ord(a) | P the protocol is wrong.  Witness: 3 parties, exponent field Z_31
    (a 5-bit prime), recombination vector (3, -3, 1) for the points 1,2,3, the degree-1 sharing
    f(X) = 1 + X of x = 1 (shares 2, 3, 4): lambda_i x_i = 6, 22, 4 with sum 32 = 1 + 31, so the
    parties compute a^6 a^22 a^4 = a^32 = a^2 instead of a^1 in a group of order 3 (31 mod 3 = 1). *)
Theorem repeat_public_base_refuted :
  exists (G : GroupT) (signed : bool) (P : Z) (lams xs : list Z) (a : G) (x : Z),
    P <> 0%Z /\ recombined P lams xs = (x mod P)%Z /\
    repeat_public_base signed P lams xs a <> zpow a x.
Proof.
  exists C3Group, false, 31%Z, [3; 28; 1]%Z, [2; 3; 4]%Z, c3_1, 1%Z.
  split; [discriminate|]. split; [vm_compute; reflexivity|]. vm_compute. discriminate.
Qed.

(** the same with signed representatives (SecInt exponents): sharing f(X) = 1 + 5X of x = 1 (shares 6, 11, 16),
    e = (-13, -2, -15) with sum -30 = 1 - 31, result a^(-30) = a^0 instead of a^1 *)
Theorem repeat_public_base_refuted_signed :
  exists (G : GroupT) (P : Z) (lams xs : list Z) (a : G) (x : Z),
    P <> 0%Z /\ recombined P lams xs = (x mod P)%Z /\
    repeat_public_base true P lams xs a <> zpow a x.
Proof.
  exists C3Group, 31%Z, [3; 28; 1]%Z, [6; 11; 16]%Z, c3_1, 1%Z.
  split; [discriminate|]. split; [vm_compute; reflexivity|]. vm_compute. discriminate.
Qed.

(** multiplicative group modulo p as executable ops (correspondence with QR / Schnorr groups) *)
Local Open Scope Z_scope.
Definition ZmulOps (p : Z) : GOps := mkGOps Z (fun a b => (a * b) mod p) (inv_raw p) (1 mod p).
Definition zm_pow (p a z : Z) : Z := zpow_fast (G := ZmulOps p) (a mod p) z.
Definition zm_repeat_public (p : Z) (signed : bool) (P : Z) (lams xs : list Z) (a : Z) : Z :=
  repeat_public_base (G := ZmulOps p) signed P lams xs (a mod p).
Definition zm_repeat_bits (p : Z) (a : Z) (x : list bool) : option Z := repeat_bits (G := ZmulOps p) (a mod p) x.
Definition zm_exps := pub_exps.
