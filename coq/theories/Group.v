(** C27 — abstract groups and the generic [repeat] of mpyc/fingroups.py.

    [FiniteGroupElement.repeat(a, n)] (fingroups.py:190-205):

        if n == 0: return cls.identity
        if n < 0:  a = cls.inversion(a); n = -n
        c = a
        for i in range(n.bit_length() - 2, -1, -1):
            c = cls.operation2(c)
            if (n >> i) & 1: c = cls.operation(c, a)
        return c

    is modelled twice: [repeat_loop] copies the loop (fold over the bit positions
    bit_length-2 .. 0 with [Z.testbit]); [repeat] is the same computation by structural recursion
    on the binary expansion ([positive]).  [repeat_loop_eq] shows they coincide (no hypotheses);
    [repeat_correct] shows that, in any structure satisfying the monoid laws up to an equivalence
    [R] on a closed subset [P] of the carrier (so: projective coordinates, valid permutations,
    points on the curve, ...) and where [op2 a ~ op a a], [repeat a n] is the n-fold iterated
    operation [pow a n] (of the inverse of [a] for negative n) for EVERY integer n.

    Also here (this file is the home of the "multiplicative" families): quadratic residues and
    Schnorr groups as multiplication modulo p, their [repeat] (field power), and encode/decode. *)
Require Import MPyC.Field MPyC.Zp.
From Coq Require Import Znumtheory Zpow_facts Bool Lia.
Local Open Scope Z_scope.

Lemma fold_left_map_gen {A B C} (f : A -> C -> A) (g : B -> C) l a :
  fold_left f (map g l) a = fold_left (fun c i => f c (g i)) l a.
Proof. revert a. induction l as [|x l IH]; simpl; intros; auto. Qed.

Lemma fold_left_ext_gen {A B} (f g : A -> B -> A) l a :
  (forall c i, f c i = g c i) -> fold_left f l a = fold_left g l a.
Proof. intros H. revert a. induction l as [|x l IH]; simpl; intros; auto. rewrite H. apply IH. Qed.

Section Generic.
Variable G : Type.
Variable op : G -> G -> G.
Variable op2 : G -> G.
Variable inv : G -> G.
Variable e : G.

(** ---- the code ---- *)

(** the loop body for the bits below the top bit, most significant first *)
Fixpoint rep_pos (a : G) (n : positive) : G :=
  match n with
  | xH => a
  | xO n' => op2 (rep_pos a n')
  | xI n' => op (op2 (rep_pos a n')) a
  end.

Definition repeat (a : G) (n : Z) : G :=
  match n with
  | Z0 => e
  | Zpos p => rep_pos a p
  | Zneg p => rep_pos (inv a) p
  end.

(** literal copy of the loop: i = bit_length(n)-2 downto 0, i.e. log2(n)-1 downto 0 *)
Definition loop_step (a : G) (n : Z) (c : G) (i : nat) : G :=
  let c := op2 c in if Z.testbit n (Z.of_nat i) then op c a else c.

Definition repeat_loop (a : G) (n : Z) : G :=
  if n =? 0 then e
  else
    let a' := if n <? 0 then inv a else a in
    let n' := if n <? 0 then - n else n in
    fold_left (loop_step a' n') (rev (seq 0 (Z.to_nat (Z.log2 n')))) a'.

(** [__matmul__]: [self is other] dispatches to operation2, otherwise operation *)
Definition matmul (same : bool) (a b : G) : G := if same then op2 a else op a b.

(** ---- the specification: n-fold application ---- *)
Fixpoint pow_nat (a : G) (k : nat) : G :=
  match k with O => e | S k' => op a (pow_nat a k') end.

Definition pow (a : G) (n : Z) : G :=
  match n with
  | Z0 => e
  | Zpos p => pow_nat a (Pos.to_nat p)
  | Zneg p => pow_nat (inv a) (Pos.to_nat p)
  end.

(** ---- loop = recursion (no hypotheses) ---- *)
Lemma fold_loop_step a (p : positive) (b : bool) :
  let n := Zpos (if b then p~1 else p~0)%positive in
  fold_left (loop_step a n) (rev (seq 0 (Z.to_nat (Z.log2 n)))) a
  = loop_step a n (fold_left (loop_step a (Zpos p)) (rev (seq 0 (Z.to_nat (Z.log2 (Zpos p))))) a) O.
Proof.
  intros n.
  assert (En : n = 2 * Zpos p + (if b then 1 else 0)) by (destruct b; reflexivity).
  assert (E : Z.to_nat (Z.log2 n) = S (Z.to_nat (Z.log2 (Zpos p)))).
  { rewrite En. destruct b.
    - rewrite Z.log2_succ_double by lia. rewrite Z2Nat.inj_succ by apply Z.log2_nonneg. reflexivity.
    - rewrite Z.add_0_r, Z.log2_double by lia. rewrite Z2Nat.inj_succ by apply Z.log2_nonneg. reflexivity. }
  rewrite E. generalize (Z.to_nat (Z.log2 (Zpos p))) as k. intros k.
  rewrite <- cons_seq, <- seq_shift. cbn [rev]. rewrite fold_left_app. cbn [fold_left]. f_equal.
  rewrite <- map_rev, fold_left_map_gen. apply fold_left_ext_gen.
  intros c i. unfold loop_step. rewrite Nat2Z.inj_succ, En. destruct b.
  - rewrite Z.testbit_odd_succ by lia. reflexivity.
  - rewrite Z.add_0_r, Z.testbit_even_succ by lia. reflexivity.
Qed.

Lemma fold_loop_pos a (p : positive) :
  fold_left (loop_step a (Zpos p)) (rev (seq 0 (Z.to_nat (Z.log2 (Zpos p))))) a = rep_pos a p.
Proof.
  induction p as [p IH|p IH|].
  - rewrite (fold_loop_step a p true), IH. reflexivity.
  - rewrite (fold_loop_step a p false), IH. reflexivity.
  - reflexivity.
Qed.

Theorem repeat_loop_eq a n : repeat_loop a n = repeat a n.
Proof.
  unfold repeat_loop, repeat. destruct n as [|p|p]; cbn [Z.eqb Z.ltb Z.compare Z.opp].
  - reflexivity.
  - apply fold_loop_pos.
  - apply fold_loop_pos.
Qed.

(** ---- correctness under the (monoid part of the) group laws, up to [R] on [P] ---- *)
Section Laws.
Variable P : G -> Prop.
Variable R : G -> G -> Prop.
Hypothesis R_refl : forall a, R a a.
Hypothesis R_sym : forall a b, R a b -> R b a.
Hypothesis R_trans : forall a b c, R a b -> R b c -> R a c.
Hypothesis P_e : P e.
Hypothesis P_op : forall a b, P a -> P b -> P (op a b).
Hypothesis P_op2 : forall a, P a -> P (op2 a).
Hypothesis P_inv : forall a, P a -> P (inv a).
Hypothesis op_compat : forall a a' b b', P a -> P a' -> P b -> P b' -> R a a' -> R b b' -> R (op a b) (op a' b').
Hypothesis op2_spec : forall a, P a -> R (op2 a) (op a a).
Hypothesis op_assoc : forall a b c, P a -> P b -> P c -> R (op (op a b) c) (op a (op b c)).
Hypothesis op_e_l : forall a, P a -> R (op e a) a.
Hypothesis op_e_r : forall a, P a -> R (op a e) a.

Lemma P_pow_nat a k : P a -> P (pow_nat a k).
Proof. intros Ha. induction k; simpl; auto. Qed.

Lemma P_rep_pos a n : P a -> P (rep_pos a n).
Proof. intros Ha. induction n; simpl; auto. Qed.

Lemma pow_nat_add a m k : P a -> R (pow_nat a (m + k)) (op (pow_nat a m) (pow_nat a k)).
Proof.
  intros Ha. induction m as [|m IH]; simpl.
  - apply R_sym, op_e_l, P_pow_nat, Ha.
  - apply R_trans with (op a (op (pow_nat a m) (pow_nat a k))).
    + apply op_compat; auto using P_pow_nat.
    + apply R_sym, op_assoc; auto using P_pow_nat.
Qed.

Lemma pow_nat_1 a : P a -> R (pow_nat a 1) a.
Proof. intros Ha. simpl. apply op_e_r, Ha. Qed.

Lemma rep_pos_correct a n : P a -> R (rep_pos a n) (pow_nat a (Pos.to_nat n)).
Proof.
  intros Ha. induction n as [n IH|n IH|].
  - (* 2n+1 *)
    rewrite Pos2Nat.inj_xI. cbn [rep_pos].
    replace (S (2 * Pos.to_nat n)) with ((Pos.to_nat n + Pos.to_nat n) + 1)%nat by lia.
    eapply R_trans; [|apply R_sym, pow_nat_add, Ha].
    apply op_compat; auto using P_rep_pos, P_pow_nat.
    + eapply R_trans; [apply op2_spec; auto using P_rep_pos|].
      eapply R_trans; [|apply R_sym, pow_nat_add, Ha].
      apply op_compat; auto using P_rep_pos, P_pow_nat.
    + apply R_sym, pow_nat_1, Ha.
  - rewrite Pos2Nat.inj_xO. cbn [rep_pos].
    replace (2 * Pos.to_nat n)%nat with (Pos.to_nat n + Pos.to_nat n)%nat by lia.
    eapply R_trans; [apply op2_spec; auto using P_rep_pos|].
    eapply R_trans; [|apply R_sym, pow_nat_add, Ha].
    apply op_compat; auto using P_rep_pos, P_pow_nat.
  - apply R_sym. change (Pos.to_nat 1) with 1%nat. apply pow_nat_1, Ha.
Qed.

Theorem repeat_correct_gen a n : P a -> R (repeat a n) (pow a n).
Proof.
  intros Ha. destruct n as [|p|p]; simpl.
  - apply R_refl.
  - apply rep_pos_correct, Ha.
  - apply rep_pos_correct, P_inv, Ha.
Qed.

Theorem matmul_correct same a : P a -> R (matmul same a a) (op a a).
Proof. intros Ha. destruct same; simpl; [apply op2_spec, Ha|apply R_refl]. Qed.

(** with the inverse law, [pow] is the Z-indexed power: a^n * a^(-n) = e *)
Hypothesis op_inv_r : forall a, P a -> R (op a (inv a)) e.

Lemma pow_nat_S_r a k : P a -> R (pow_nat a (S k)) (op (pow_nat a k) a).
Proof.
  intros Ha. replace (S k) with (k + 1)%nat by lia.
  eapply R_trans; [apply pow_nat_add, Ha|].
  apply op_compat; auto using P_pow_nat. apply pow_nat_1, Ha.
Qed.

Lemma pow_nat_inv a k : P a -> R (op (pow_nat a k) (pow_nat (inv a) k)) e.
Proof.
  intros Ha. assert (Hi := P_inv a Ha). induction k as [|k IH].
  - simpl. apply op_e_l, P_e.
  - (* (a^k * a) * (a' * a'^k) *)
    assert (Pk := P_pow_nat a k Ha). assert (Pk' := P_pow_nat (inv a) k Hi).
    apply R_trans with (op (op (pow_nat a k) a) (op (inv a) (pow_nat (inv a) k))).
    { apply op_compat; auto using P_pow_nat. apply pow_nat_S_r, Ha. }
    apply R_trans with (op (pow_nat a k) (op a (op (inv a) (pow_nat (inv a) k)))).
    { apply op_assoc; auto. }
    apply R_trans with (op (pow_nat a k) (op (op a (inv a)) (pow_nat (inv a) k))).
    { apply op_compat; auto. }
    apply R_trans with (op (pow_nat a k) (op e (pow_nat (inv a) k))).
    { apply op_compat; auto. }
    apply R_trans with (op (pow_nat a k) (pow_nat (inv a) k)).
    { apply op_compat; auto. }
    exact IH.
Qed.

Theorem pow_neg a n : P a -> R (op (pow a n) (pow (inv a) n)) e.
Proof.
  intros Ha. destruct n as [|p|p]; simpl.
  - apply op_e_l, P_e.
  - apply pow_nat_inv, Ha.
  - apply pow_nat_inv, P_inv, Ha.
Qed.

End Laws.

(** Leibniz-equality instance (whole carrier) *)
Theorem repeat_correct :
  (forall a b c, op (op a b) c = op a (op b c)) ->
  (forall a, op e a = a) -> (forall a, op a e = a) ->
  (forall a, op2 a = op a a) ->
  forall a n, repeat a n = pow a n.
Proof.
  intros Hassoc Hl Hr H2 a n.
  apply (repeat_correct_gen (fun _ => True) eq); auto; try congruence.
Qed.

End Generic.

Arguments rep_pos {G} op op2 a n.
Arguments repeat {G} op op2 inv e a n.
Arguments repeat_loop {G} op op2 inv e a n.
Arguments pow_nat {G} op e a k.
Arguments pow {G} op inv e a n.
Arguments matmul {G} op op2 same a b.

(** ------------------------------------------------------------------------------------------
    QuadraticResidues / SchnorrGroup: elements are GF(p) values, operation = a.value * b.value,
    inversion = 1/a.value (gmpy invert), repeat(a, n) = a.value**n = powmod(a.value, n, p).
    Python's three-argument pow is modelled by square-and-multiply (on the inverse for n < 0). *)
Definition mul_mod (p a b : Z) : Z := (a * b) mod p.
Definition sqr_mod (p a : Z) : Z := (a * a) mod p.
Definition inv_mod (p a : Z) : Z := inv_raw p a.
Definition powmod (p a n : Z) : Z := repeat (mul_mod p) (sqr_mod p) (inv_mod p) (1 mod p) (a mod p) n.

(** the generic FiniteGroupElement.repeat run on a QR/Schnorr element (operation2 = operation(a,a)) *)
Definition mulgrp_repeat_generic (p a n : Z) : Z :=
  repeat_loop (mul_mod p) (fun c => mul_mod p c c) (inv_mod p) (1 mod p) a n.

(** QuadraticResidue.encode / decode (fingroups.py:311-331); [leg x] stands for
    [legendre(x, modulus) == 1]; range(1, gap) is the candidate list *)
Fixpoint qr_encode_loop (leg : Z -> bool) (p gap m : Z) (cands : list Z) : option (Z * Z) :=
  match cands with
  | [] => None                               (* raise ValueError *)
  | i :: r =>
      if leg i then
        let a := m * gap + i in
        if leg a then Some (a mod p, i mod p) else qr_encode_loop leg p gap m r
      else qr_encode_loop leg p gap m r
  end.
Definition qr_encode (leg : Z -> bool) (p gap m : Z) : option (Z * Z) :=
  qr_encode_loop leg p gap m (map Z.of_nat (seq 1 (Z.to_nat gap - 1))).

(** int(x) for the (signed) prime field *)
Definition signed_int (p v : Z) : Z := if v >? Z.shiftr p 1 then v - p else v.
(** int((M.value - Z.value) / gap) *)
Definition qr_decode (p gap M Zv : Z) : Z :=
  signed_int p ((((M - Zv) mod p) * inv_raw p gap) mod p).

(** SchnorrGroupElement.encode / decode (fingroups.py:456-472) *)
Definition sg_encode (p g m : Z) : Z := powmod p g m.
Fixpoint sg_decode_loop (p g M : Z) (fuel : nat) (m h : Z) : Z :=
  match fuel with
  | O => m - 1                               (* loop ran to completion: last value of m *)
  | S f => if h =? M then m else sg_decode_loop p g M f (m + 1) (mul_mod p g h)
  end.
Definition sg_decode (p g M : Z) : Z := sg_decode_loop p g M 1024 0 (1 mod p).

Section MulMod.
Variable p : Z.
Hypothesis Hp : 1 < p.

Definition red (a : Z) : Prop := a mod p = a.

Lemma red_range a : red a <-> 0 <= a < p.
Proof.
  unfold red; split; intros H.
  - rewrite <- H. apply Z.mod_pos_bound; lia.
  - apply Z.mod_small; exact H.
Qed.

Lemma mul_mod_red a b : red (mul_mod p a b).
Proof. unfold red, mul_mod. apply Z.mod_mod; lia. Qed.

Lemma mul_mod_assoc a b c : mul_mod p (mul_mod p a b) c = mul_mod p a (mul_mod p b c).
Proof.
  unfold mul_mod. rewrite Z.mul_mod_idemp_l, Z.mul_mod_idemp_r by lia. f_equal; ring.
Qed.

Lemma mul_mod_comm a b : mul_mod p a b = mul_mod p b a.
Proof. unfold mul_mod. f_equal; ring. Qed.

Lemma mul_mod_1_l a : red a -> mul_mod p (1 mod p) a = a.
Proof.
  unfold red, mul_mod. intros H. rewrite Z.mul_mod_idemp_l by lia. rewrite Z.mul_1_l. exact H.
Qed.

Lemma mul_mod_1_r a : red a -> mul_mod p a (1 mod p) = a.
Proof. intros H. rewrite mul_mod_comm. apply mul_mod_1_l, H. Qed.

Lemma inv_mod_red a : red (inv_mod p a).
Proof.
  unfold red, inv_mod, inv_raw. destruct (egcd (egcd_fuel p) p (a mod p)) as [[g u] v].
  apply Z.mod_mod; lia.
Qed.

(** repeat (field power) = n-fold multiplication, every integer n *)
Theorem qr_repeat_eq_pow a n :
  powmod p a n = pow (mul_mod p) (inv_mod p) (1 mod p) (a mod p) n.
Proof.
  unfold powmod.
  apply (repeat_correct_gen Z (mul_mod p) (sqr_mod p) (inv_mod p) (1 mod p) red eq); auto; try congruence.
  - unfold red. apply Z.mod_mod; lia.
  - intros; apply mul_mod_red.
  - intros; apply mul_mod_red.
  - intros; apply inv_mod_red.
  - intros; apply mul_mod_assoc.
  - intros; apply mul_mod_1_l; auto.
  - intros; apply mul_mod_1_r; auto.
  - unfold red. apply Z.mod_mod; lia.
Qed.

(** the generic double-and-add repeat, run on QR/Schnorr elements, computes the same power *)
Theorem mulgrp_generic_repeat_eq_pow a n : red a ->
  mulgrp_repeat_generic p a n = pow (mul_mod p) (inv_mod p) (1 mod p) a n.
Proof.
  intros Ha. unfold mulgrp_repeat_generic. rewrite repeat_loop_eq.
  apply (repeat_correct_gen Z (mul_mod p) (fun c => mul_mod p c c) (inv_mod p) (1 mod p) red eq); auto; try congruence.
  - unfold red. apply Z.mod_mod; lia.
  - intros; apply mul_mod_red.
  - intros; apply mul_mod_red.
  - intros; apply inv_mod_red.
  - intros; apply mul_mod_assoc.
  - intros; apply mul_mod_1_l; auto.
  - intros; apply mul_mod_1_r; auto.
Qed.

Lemma pow_nat_mul_mod a k : pow_nat (mul_mod p) (1 mod p) a k = (a ^ Z.of_nat k) mod p.
Proof.
  induction k as [|k IH].
  - reflexivity.
  - cbn [pow_nat]. rewrite IH. unfold mul_mod. rewrite Z.mul_mod_idemp_r by lia.
    rewrite Nat2Z.inj_succ, Z.pow_succ_r by lia. reflexivity.
Qed.

Theorem powmod_spec a n : 0 <= n -> powmod p a n = (a ^ n) mod p.
Proof.
  intros Hn. rewrite qr_repeat_eq_pow. destruct n as [|q|q]; [reflexivity| |lia].
  cbn [pow]. rewrite pow_nat_mul_mod, positive_nat_Z.
  rewrite <- Zpower_mod by lia. reflexivity.
Qed.

(** ---- group laws on the units modulo a prime ---- *)
Hypothesis Hprime : prime p.

Definition unit (a : Z) : Prop := 0 < a < p.

Lemma unit_red a : unit a -> red a.
Proof. intros H. apply red_range. unfold unit in H. lia. Qed.

Lemma unit_mul a b : unit a -> unit b -> unit (mul_mod p a b).
Proof.
  unfold unit, mul_mod. intros Ha Hb.
  pose proof (Z.mod_pos_bound (a * b) p ltac:(lia)) as Hr.
  destruct (Z.eq_dec ((a * b) mod p) 0) as [E|E]; [|lia].
  exfalso. apply Zmod_divide in E; [|lia].
  apply prime_mult in E; [|exact Hprime].
  destruct E as [E|E]; apply Z.divide_pos_le in E; lia.
Qed.

Lemma mul_mod_inv_r a : unit a -> mul_mod p a (inv_mod p a) = 1 mod p.
Proof.
  intros Ha. unfold mul_mod, inv_mod. rewrite Z.mod_1_l by lia.
  apply inv_raw_spec; auto. rewrite (unit_red a Ha). unfold unit in Ha. lia.
Qed.

Lemma unit_inv a : unit a -> unit (inv_mod p a).
Proof.
  intros Ha. pose proof (inv_mod_red a) as Hr. apply red_range in Hr.
  destruct (Z.eq_dec (inv_mod p a) 0) as [E|E]; [|unfold unit; lia].
  exfalso. pose proof (mul_mod_inv_r a Ha) as H. rewrite E in H. unfold mul_mod in H.
  rewrite Z.mul_0_r, Z.mod_0_l, Z.mod_1_l in H by lia. discriminate.
Qed.

(** QR(p) and Schnorr groups live inside the units: laws of multiplication modulo p *)
Theorem mulmod_group :
  (forall a b, unit a -> unit b -> unit (mul_mod p a b)) /\
  (forall a, unit a -> unit (inv_mod p a)) /\ unit (1 mod p) /\
  (forall a b c, mul_mod p (mul_mod p a b) c = mul_mod p a (mul_mod p b c)) /\
  (forall a, unit a -> mul_mod p (1 mod p) a = a /\ mul_mod p a (1 mod p) = a) /\
  (forall a, unit a -> mul_mod p a (inv_mod p a) = 1 mod p /\ mul_mod p (inv_mod p a) a = 1 mod p).
Proof.
  assert (U1 : unit (1 mod p)) by (unfold unit; rewrite Z.mod_1_l; lia).
  refine (conj unit_mul (conj unit_inv (conj U1 (conj mul_mod_assoc (conj _ _))))).
  - intros a Ha. split; [apply mul_mod_1_l|apply mul_mod_1_r]; apply unit_red, Ha.
  - intros a Ha. split; [|rewrite mul_mod_comm]; apply mul_mod_inv_r, Ha.
Qed.

(** closure of the subgroups: squares (QR) and elements of order dividing q (Schnorr) *)
Definition is_square (a : Z) : Prop := exists s, unit s /\ a = mul_mod p s s.
Definition in_subgroup (q a : Z) : Prop := unit a /\ (a ^ q) mod p = 1.

Lemma qr_mul_closed a b : is_square a -> is_square b -> is_square (mul_mod p a b).
Proof.
  intros [s [Hs ->]] [t [Ht ->]]. exists (mul_mod p s t). split; [apply unit_mul; auto|].
  unfold mul_mod. rewrite <- !Z.mul_mod by lia. f_equal; ring.
Qed.

Lemma schnorr_mul_closed q a b : 0 <= q -> in_subgroup q a -> in_subgroup q b -> in_subgroup q (mul_mod p a b).
Proof.
  intros Hq [Ha Ea] [Hb Eb]. split; [apply unit_mul; auto|].
  unfold mul_mod. rewrite <- Zpower_mod by lia. rewrite Z.pow_mul_l.
  rewrite Z.mul_mod by lia. rewrite Ea, Eb. rewrite Z.mod_1_l; lia.
Qed.

(** ---- decode (encode m) = m ---- *)
Lemma qr_encode_loop_spec leg gap m cands M Zv :
  (forall i, In i cands -> 1 <= i < gap) ->
  qr_encode_loop leg p gap m cands = Some (M, Zv) ->
  exists i, 1 <= i < gap /\ M = (m * gap + i) mod p /\ Zv = i mod p.
Proof.
  induction cands as [|i r IH]; simpl; intros Hc H; [discriminate|].
  destruct (leg i).
  - destruct (leg (m * gap + i)).
    + inversion H; subst. exists i. auto.
    + apply IH; auto.
  - apply IH; auto.
Qed.

Theorem qr_decode_encode leg gap m M Zv :
  0 <= m -> (m + 1) * gap < p ->
  qr_encode leg p gap m = Some (M, Zv) -> qr_decode p gap M Zv = m.
Proof.
  intros Hm Hg H. unfold qr_encode in H.
  apply qr_encode_loop_spec in H.
  2:{ intros i Hi. apply in_map_iff in Hi. destruct Hi as [k [<- Hk]]. apply in_seq in Hk. lia. }
  destruct H as [i [Hi [-> ->]]].
  assert (Hgap : 1 < gap) by lia.
  assert (Hmg : 0 <= m * gap) by nia.
  assert (Hlt : m * gap + gap <= p) by nia.
  unfold qr_decode.
  rewrite (Z.mod_small (m * gap + i)) by lia. rewrite (Z.mod_small i) by lia.
  replace (m * gap + i - i) with (m * gap) by ring.
  rewrite (Z.mod_small (m * gap)) by lia.
  assert (Hinv : (gap * inv_raw p gap) mod p = 1).
  { apply inv_raw_spec; auto. rewrite Z.mod_small by lia. lia. }
  rewrite <- Z.mul_assoc. rewrite <- Z.mul_mod_idemp_r by lia. rewrite Hinv.
  rewrite Z.mul_1_r. rewrite Z.mod_small by nia.
  unfold signed_int. rewrite Z.shiftr_div_pow2 by lia. change (2 ^ 1) with 2.
  destruct (m >? p / 2) eqn:E; [|reflexivity].
  exfalso. apply Z.gtb_lt in E.
  assert (p < p / 2 * 2 + 2) by (pose proof (Z.div_mod p 2 ltac:(lia)); pose proof (Z.mod_pos_bound p 2 ltac:(lia)); lia).
  assert (2 * (m + 1) <= (m + 1) * gap) by nia.
  lia.
Qed.

Lemma sg_decode_loop_spec g M fuel : forall m j : Z,
  0 <= j -> 0 <= m - j < Z.of_nat fuel ->
  (forall i, j <= i < m -> (g ^ i) mod p <> M) -> (g ^ m) mod p = M ->
  sg_decode_loop p g M fuel j ((g ^ j) mod p) = m.
Proof.
  induction fuel as [|f IH]; intros m j Hj Hm Hne Heq; [lia|].
  cbn [sg_decode_loop]. destruct ((g ^ j) mod p =? M) eqn:E.
  - apply Z.eqb_eq in E. destruct (Z.eq_dec j m); [auto|]. exfalso. apply (Hne j); [lia|exact E].
  - apply Z.eqb_neq in E. assert (j <> m) by (intros ->; auto).
    replace (mul_mod p g ((g ^ j) mod p)) with ((g ^ (j + 1)) mod p).
    + apply IH; try lia; auto. intros i Hi. apply Hne. lia.
    + unfold mul_mod. rewrite Z.mul_mod_idemp_r by lia. rewrite Z.pow_add_r, Z.pow_1_r by lia.
      f_equal; ring.
Qed.

(** decode(encode(m)) = m for 0 <= m < 1024 below the order of g (g^j <> g^m for j < m) *)
Theorem sg_decode_encode g m :
  0 <= m < 1024 -> (forall j, 0 <= j < m -> (g ^ j) mod p <> (g ^ m) mod p) ->
  sg_decode p g (sg_encode p g m) = m.
Proof.
  intros Hm Hord. unfold sg_decode, sg_encode. rewrite powmod_spec by lia.
  change (1 mod p) with ((g ^ 0) mod p).
  apply sg_decode_loop_spec; try lia; auto.
Qed.

End MulMod.
