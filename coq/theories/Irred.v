(** Irred.v — executable model of _is_irreducible / _next_irreducible of both polynomial classes
    of mpyc/gfpx.py and of finfields.find_irreducible / the xGF acceptance test, as coded;
    brute-force reference definitions; bounded-exhaustive and general theorems. *)
Require Import MPyC.Base MPyC.Zp MPyC.Gfpx MPyC.Gf2x.
From Coq Require Import ZArith Znumtheory Lia ZifyBool Bool.
Local Open Scope Z_scope.

Definition list_eqb (a b : list Z) : bool :=
  (length a =? length b)%nat && forallb (fun xy => fst xy =? snd xy) (combine a b).

Section Generic.
Variable p : Z.

(** for _ in range(deg(a)//2): b = b^p mod a; if gcd(b - X, a) != 1: return False *)
Fixpoint irred_loop (cnt : nat) (a b : list Z) : res bool :=
  match cnt with
  | O => Ok true
  | S c => bind (powmod p b p (Some a)) (fun b' =>
           bind (gcd p (sub p b' [0; 1]) a) (fun g =>
           if list_eqb g [1] then irred_loop c a b' else Ok false))
  end.
Definition is_irreducible (a : list Z) : res bool :=
  if (length a <=? 1)%nat then Ok false
  else irred_loop (Nat.div (length a - 1) 2) a [0; 1].

(** while True: a += 1; if a % p == 0: a += 1; _a = from_int(a);
      if _a[-1] != 1: a = p**len(_a); continue;  if is_irreducible(_a): break *)
Fixpoint next_loop (fuel : nat) (a : Z) : res (list Z) :=
  match fuel with
  | O => NoFuel
  | S f => let a := a + 1 in
           let a := if a mod p =? 0 then a + 1 else a in
           let _a := from_int p a in
           if negb (last _a 0 =? 1) then next_loop f (p ^ Z.of_nat (length _a))
           else bind (is_irreducible _a) (fun ir => if ir then Ok _a else next_loop f a)
  end.
Definition next_irreducible (fuel : nat) (a : list Z) : res (list Z) := next_loop fuel (to_int p a).
(** finfields.find_irreducible(p, d) = GFpX(p).next_irreducible(p**d - 1) *)
Definition find_irreducible (fuel : nat) (d : Z) : res (list Z) :=
  next_irreducible fuel (from_int p (p ^ d - 1)).
(** finfields.xGF(modulus): raises ValueError unless is_irreducible(modulus) *)
Definition gf_accepts (a : list Z) : res bool := is_irreducible a.
End Generic.

(** binary class *)
Fixpoint irred2_loop (cnt : nat) (a b : Z) : res bool :=
  match cnt with
  | O => Ok true
  | S c => let b := mul2 b b in
           bind (mod2 b a) (fun b' =>
           bind (gcd2 (Z.lxor b' 2) a) (fun g =>
           if g =? 1 then irred2_loop c a b' else Ok false))
  end.
Definition is_irreducible2 (a : Z) : res bool :=
  if a <=? 1 then Ok false else irred2_loop (Z.to_nat ((blen a - 1) / 2)) a 2.
(** a += 2 while not irreducible *)
Fixpoint next2_loop (fuel : nat) (a : Z) : res Z :=
  match fuel with
  | O => NoFuel
  | S f => bind (is_irreducible2 a) (fun ir => if ir then Ok a else next2_loop f (a + 2))
  end.
Definition next_irreducible2 (fuel : nat) (a : Z) : res Z :=
  if a <=? 1 then Ok 2 else next2_loop fuel (a + 1 + a mod 2).
Definition find_irreducible2 (fuel : nat) (d : Z) : res Z := next_irreducible2 fuel (2 ^ d - 1).

(** ---- brute-force reference: a (degree >= 1) is irreducible iff no polynomial d with
    1 <= deg d <= deg a / 2 ... divides it; candidates enumerated as integers ---- *)
Section Brute.
Variable p : Z.
Definition divides_b (d a : list Z) : bool :=
  match d with [] => false | _ => match mod_nz p a d with [] => true | _ => false end end.
(** all integers in [lo, lo+n) *)
Fixpoint zrange (lo : Z) (n : nat) : list Z :=
  match n with O => [] | S n' => lo :: zrange (lo + 1) n' end.
(** candidates: every polynomial d with p <= int(d) < p^(deg a) (degree 1 .. deg a - 1) *)
Definition brute_irreducible (a : list Z) : bool :=
  (1 <? Z.of_nat (length a)) &&
  forallb (fun k => negb (divides_b (from_int p k) a))
          (zrange p (Z.to_nat (p ^ (Z.of_nat (length a) - 1) - p))).
End Brute.
