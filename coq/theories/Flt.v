(** C05 — value-level model of mpyc.sectypes.SecureFloat.

    A secure float of type SecFlt(s, e) is a pair (S, e): S is the scaled integer of the
    significand, which has type SecFxp(s+1, s-1), i.e. l = f+2 bits with f = s-1 fractional
    bits; the represented value is  S * 2^(e - f).  Nonzero significands are kept with
    1/2 <= |S / 2^f| <= 1 (BOTH ends occur: secflt(1.0) = (2^f, 0), and 0.5 = (2^(f-1), 0) after
    an addition); secflt(0.0) = (0, 0).

    Modelled as coded (sectypes.py, runtime.py):
      trunc        runtime.trunc: floor((x + r) / 2^f) with r in [0, 2^f) the secret random mask
                   (the only non-determinism at value level; r is the tape)
      flt_input    SecureFloat.__init__ for int/float: e = ceil(log2 |x|), S = round(x / 2^e * 2^f)
                   (Python round = half-to-even); x given as M * 2^q
      flt_output   SecureFloat._output: exponent masked to 0 when S = 0
      flt_mul      __mul__: S = trunc(S1*S2), bits x[-2], x[-3] of to_bits(S) (positions f, f-1 of the
                   two's complement pattern), keep if they differ, else double and decrement e
      flt_add      __add__: swap if e1 < e2, d = min(e1-e2, f), S = S1 + trunc(S2 * 2^(f-d))  [2^-d is
                   the in_prod of the unit vector with the table 2^-i; exact], n = find of the first
                   bit different from the sign bit scanning from position l-2 down, S' =
                   trunc(S * 2^(n-1) * 2^f) (exact unless n = 0), e' = e1 - (n-1)
      flt_neg, flt_sub, comparisons through the sign of the significand of self - other.
    NOT modelled: reciprocal/division (runtime._rec Newton iteration), the sharing layer. *)
From Coq Require Import ZArith Lia List Bool QArith Qabs Qpower.
Import ListNotations.
Local Open Scope Z_scope.

Definition flt := (Z * Z)%type.

(** runtime.trunc at value level: r is the f-bit random mask. *)
Definition trunc (f x r : Z) : Z := (x + r) / 2 ^ f.

(** Python round(): half to even, of m / 2^k for k >= 0. *)
Definition rne_shift (m k : Z) : Z :=
  if k <=? 0 then m * 2 ^ (- k) else
  let q := m / 2 ^ k in
  let r := m mod 2 ^ k in
  let h := 2 ^ (k - 1) in
  if r <? h then q else if h <? r then q + 1 else if Z.even q then q else q + 1.

(** SecureFloat.__init__(value) with value = M * 2^q (every Python float and int is of this form).
    e = ceil(log2 |value|) = log2_up |M| + q ;  sg = round(value * 2^(f - e)). *)
Definition flt_input (f M q : Z) : flt :=
  if M =? 0 then (0, 0) else
  let e := Z.log2_up (Z.abs M) + q in
  (rne_shift M (e - f - q), e).

(** SecureFloat._output: opened significand, exponent masked when the significand is zero. *)
Definition flt_output (x : flt) : flt :=
  let '(sg, e) := x in if sg =? 0 then (0, 0) else (sg, e).

Definition flt_neg (x : flt) : flt := let '(sg, e) := x in (- sg, e).

(** __mul__ *)
Definition flt_mul (f : Z) (x y : flt) (r : Z) : flt :=
  let '(S1, e1) := x in
  let '(S2, e2) := y in
  let sg := trunc f (S1 * S2) r in
  let e := e1 + e2 in
  let c := xorb (Z.testbit sg f) (Z.testbit sg (f - 1)) in    (* x[-2] ^ x[-3], l = f+2 bits *)
  if c then (sg, e) else (2 * sg, e - 1).

(** runtime.find(x, 1-b) on the reversed bit list: scan positions i-1, i-2, ..., 0 for the first
    bit equal to a; the result is the number of positions skipped (= i when not found). *)
Fixpoint scan (v : Z) (a : bool) (i : nat) (n : Z) : Z :=
  match i with
  | O => n
  | S i' => if Bool.eqb (Z.testbit v (Z.of_nat i')) a then n else scan v a i' (n + 1)
  end.

Definition lead (f sg : Z) : Z :=
  let b := Z.testbit sg (f + 1) in                 (* sign bit x[-1] of the l = f+2 bit pattern *)
  scan sg (negb b) (Z.to_nat (f + 1)) 0.

(** __add__ *)
Definition flt_add (f : Z) (x y : flt) (r1 r2 : Z) : flt :=
  let '(S1, e1) := x in
  let '(S2, e2) := y in
  let c := e1 <? e2 in
  let '(S1, e1, S2, e2) := if c then (S2, e2, S1, e1) else (S1, e1, S2, e2) in
  let d := Z.min (e1 - e2) f in
  let sg := S1 + trunc f (S2 * 2 ^ (f - d)) r1 in
  let n := lead f sg in
  (trunc f (sg * 2 ^ (n - 1 + f)) r2, e1 - (n - 1)).

Definition flt_sub (f : Z) (x y : flt) (r1 r2 : Z) : flt := flt_add f x (flt_neg y) r1 r2.

(** comparisons: the sign of the significand of self - other; result is the bit. *)
Definition flt_lt f x y r1 r2 := fst (flt_sub f x y r1 r2) <? 0.
Definition flt_le f x y r1 r2 := fst (flt_sub f x y r1 r2) <=? 0.
Definition flt_eq f x y r1 r2 := fst (flt_sub f x y r1 r2) =? 0.
Definition flt_ge f x y r1 r2 := 0 <=? fst (flt_sub f x y r1 r2).
Definition flt_gt f x y r1 r2 := 0 <? fst (flt_sub f x y r1 r2).
Definition flt_ne f x y r1 r2 := negb (fst (flt_sub f x y r1 r2) =? 0).

(** All results over the extreme tape values (r = 0 rounds down, r = 2^f - 1 rounds up); since
    floor((x+r)/2^f) only takes the values floor(x/2^f) and ceil(x/2^f) for 0 <= r < 2^f, these
    lists enumerate every possible outcome.  Used by the correspondence check. *)
Definition tapes (f : Z) : list Z := [0; 2 ^ f - 1].
Definition flt_mul_all f x y := map (flt_mul f x y) (tapes f).
Definition flt_add_all f x y := flat_map (fun r1 => map (flt_add f x y r1) (tapes f)) (tapes f).
Definition flt_sub_all f x y := flt_add_all f x (flt_neg y).
Definition flt_cmp_all f x y :=
  map (fun z => let s := fst z in [s <? 0; s <=? 0; s =? 0; 0 <=? s; 0 <? s; negb (s =? 0)])
      (flt_sub_all f x y).
