(** Gf2x.v — executable model of mpyc/gfpx.py class [BinaryPolynomial] (GF(2)[X] as nonnegative
    integer bitmasks), following the Python static methods, and its refinement of the generic
    list model [Gfpx] instantiated at p = 2. *)
Require Import MPyC.Base MPyC.Zp MPyC.Gfpx.
From Coq Require Import ZArith Znumtheory Lia ZifyBool Bool.
Local Open Scope Z_scope.

(** int.bit_length() for a >= 0 *)
Definition blen (a : Z) : Z := if a =? 0 then 0 else Z.log2 a + 1.

(** _to_list / coefficient list of a bitmask (structural on the binary numeral) *)
Fixpoint bits_pos (a : positive) : list Z :=
  match a with xH => [1] | xO a' => 0 :: bits_pos a' | xI a' => 1 :: bits_pos a' end.
Definition bits (a : Z) : list Z := match a with Zpos q => bits_pos q | _ => [] end.
(** _from_list *)
Definition unbits (l : list Z) : Z := fold_right (fun ai s => Z.shiftl s 1 + ai) 0 l.

Definition from_int2 (a : Z) : Z := Z.abs a.
Definition add2 (a b : Z) : Z := Z.lxor a b.

(** while a: if a & 1: c |= d;  d <<= 2;  a >>= 1 *)
Fixpoint sq2_pos (a : positive) (d c : Z) : Z :=
  match a with
  | xH => Z.lor c d
  | xO a' => sq2_pos a' (Z.shiftl d 2) c
  | xI a' => sq2_pos a' (Z.shiftl d 2) (Z.lor c d)
  end.
Definition sq2 (a : Z) : Z := match a with Zpos q => sq2_pos q 1 0 | _ => 0 end.

(** while b: if b & 1: c ^= a;  a <<= 1;  b >>= 1 *)
Fixpoint mul2_pos (a : Z) (b : positive) (c : Z) : Z :=
  match b with
  | xH => Z.lxor c a
  | xO b' => mul2_pos (Z.shiftl a 1) b' c
  | xI b' => mul2_pos (Z.shiftl a 1) b' (Z.lxor c a)
  end.
Definition mul2_raw (a b : Z) : Z := match b with Zpos q => mul2_pos a q 0 | _ => 0 end.
Definition mul2 (a b : Z) : Z :=
  if a =? b then sq2 a
  else if a <? b then mul2_raw b a else mul2_raw a b.

Definition lshift2 (a n : Z) : res Z := if n <? 0 then ValueErr else Ok (Z.shiftl a n).
Definition rshift2 (a n : Z) : res Z := if n <? 0 then ValueErr else Ok (Z.shiftr a n).

(** for i in range(m-2, n-2, -1): b >>= 1; [q <<= 1;] if (a >> i) & 1: [q ^= 1;] a ^= b *)
Fixpoint divmod2_loop (cnt : nat) (i q a b : Z) : Z * Z :=
  match cnt with
  | O => (q, a)
  | S c => let b := Z.shiftr b 1 in
           let q := Z.shiftl q 1 in
           if Z.testbit a i then divmod2_loop c (i - 1) (Z.lxor q 1) (Z.lxor a b) b
           else divmod2_loop c (i - 1) q a b
  end.
Fixpoint mod2_loop (cnt : nat) (i a b : Z) : Z :=
  match cnt with
  | O => a
  | S c => let b := Z.shiftr b 1 in
           if Z.testbit a i then mod2_loop c (i - 1) (Z.lxor a b) b
           else mod2_loop c (i - 1) a b
  end.
(** b <> 0 assumed *)
Definition divmod2_nz (a b : Z) : Z * Z :=
  let m := blen a in let n := blen b in
  if m <? n then (0, a)
  else let b := Z.shiftl b (m - n) in
       divmod2_loop (Z.to_nat (m - n)) (m - 2) 1 (Z.lxor a b) b.
Definition mod2_nz (a b : Z) : Z :=
  let m := blen a in let n := blen b in
  if m <? n then a
  else let b := Z.shiftl b (m - n) in
       mod2_loop (Z.to_nat (m - n)) (m - 2) (Z.lxor a b) b.
Definition divmod2 (a b : Z) : res (Z * Z) := if b =? 0 then ZeroDiv else Ok (divmod2_nz a b).
Definition mod2 (a b : Z) : res Z := if b =? 0 then ZeroDiv else Ok (mod2_nz a b).

(** while b: a, b = b, a % b   — bit length of b strictly decreases *)
Fixpoint gcd2_loop (fuel : nat) (a b : Z) : option Z :=
  match fuel with
  | O => None
  | S f => if b =? 0 then Some a else gcd2_loop f b (mod2_nz a b)
  end.
Definition gcd2 (a b : Z) : res Z :=
  match gcd2_loop (S (Z.to_nat (blen b))) a b with None => NoFuel | Some g => Ok g end.

Fixpoint gcdext2_loop (fuel : nat) (a b s s1 t t1 : Z) : option (Z * Z * Z) :=
  match fuel with
  | O => None
  | S f => if b =? 0 then Some (a, s, t)
           else let '(q, r) := divmod2_nz a b in
                gcdext2_loop f b r s1 (Z.lxor s (mul2 q s1)) t1 (Z.lxor t (mul2 q t1))
  end.
Definition gcdext2 (a b : Z) : res (Z * Z * Z) :=
  match gcdext2_loop (S (Z.to_nat (blen b))) a b 1 0 0 1 with None => NoFuel | Some r => Ok r end.

Fixpoint invert2_loop (fuel : nat) (a b s s1 : Z) : option (Z * Z) :=
  match fuel with
  | O => None
  | S f => if b =? 0 then Some (a, s)
           else let '(q, r) := divmod2_nz a b in invert2_loop f b r s1 (Z.lxor s (mul2 q s1))
  end.
Definition invert2 (a b : Z) : res Z :=
  if b =? 0 then ZeroDiv
  else match invert2_loop (S (Z.to_nat (blen b))) a b 1 0 with
       | None => NoFuel
       | Some (g, s) => if g =? 1 then Ok s else ZeroDiv
       end.

(** inherited Polynomial._powmod with the binary _sq/_mul/_mod/_invert *)
Definition omod2 (a : Z) (md : option Z) : res Z :=
  match md with None => Ok a | Some b => mod2 a b end.
Fixpoint powmod2_pos (a : Z) (md : option Z) (n : positive) : res Z :=
  match n with
  | xH => Ok a
  | xO n' => bind (powmod2_pos a md n') (fun b => omod2 (sq2 b) md)
  | xI n' => bind (powmod2_pos a md n')
               (fun b => bind (omod2 (sq2 b) md) (fun b => omod2 (mul2 b a) md))
  end.
Definition powmod2 (a n : Z) (md : option Z) : res Z :=
  if n =? 0 then Ok 1
  else if n <? 0 then
    match md with
    | None => ValueErr
    | Some b => bind (invert2 a b) (fun a' => bind (omod2 a' md) (fun ar => powmod2_pos ar md (Z.to_pos (- n))))
    end
  else bind (omod2 a md) (fun ar => powmod2_pos ar md (Z.to_pos n)).

(** _deriv: a >>= 1; a &= 0b0101...01 *)
Fixpoint mask01 (k : nat) : Z := match k with O => 0 | S k' => Z.shiftl (mask01 k') 2 + 1 end.
Definition deriv2 (a : Z) (m : nat) : Z :=
  match m with
  | O => a
  | S O => let a := Z.shiftr a 1 in Z.land a (mask01 (Z.to_nat (blen a / 2 + 1)))
  | _ => 0
  end.
Definition monic_pinv2 (a : Z) : Z * Z := (a, if a =? 0 then 0 else 1).
Definition lt2 (a b : Z) : bool := a <? b.
(** __call__: parity of the number of ones if x is odd, else 0 (sic: ignores the constant term
    only when x is even and returns 0 — modelled as coded) *)
Fixpoint popcount_pos (a : positive) : Z :=
  match a with xH => 1 | xO a' => popcount_pos a' | xI a' => 1 + popcount_pos a' end.
Definition call2 (a x : Z) : Z :=
  if x mod 2 =? 0 then 0 else match a with Zpos q => popcount_pos q mod 2 | _ => 0 end.

(** ------------------------------------------------------------------------------------------
    Part 2: bitmask <-> coefficient list; xor refines list addition over GF(2) *)
Definition b2z (b : bool) : Z := if b then 1 else 0.

Lemma bits_pos_nth q i : nth i (bits_pos q) 0 = b2z (Pos.testbit_nat q i).
Proof.
  revert i; induction q as [q IH|q IH|]; intros [|i]; cbn [bits_pos nth Pos.testbit_nat b2z];
    try reflexivity; try apply IH.
  destruct i; reflexivity.
Qed.

Lemma testbit_pos_nat q i : Z.testbit (Zpos q) (Z.of_nat i) = Pos.testbit_nat q i.
Proof.
  revert i; induction q as [q IH|q IH|]; intros [|i].
  - reflexivity.
  - rewrite Nat2Z.inj_succ. change (Zpos q~1) with (2 * Zpos q + 1).
    rewrite Z.testbit_odd_succ by apply Nat2Z.is_nonneg. cbn [Pos.testbit_nat]. apply IH.
  - reflexivity.
  - rewrite Nat2Z.inj_succ. change (Zpos q~0) with (2 * Zpos q).
    rewrite Z.testbit_even_succ by apply Nat2Z.is_nonneg. cbn [Pos.testbit_nat]. apply IH.
  - reflexivity.
  - rewrite Nat2Z.inj_succ. change 1 with (2 * 0 + 1) at 1.
    rewrite Z.testbit_odd_succ by apply Nat2Z.is_nonneg. cbn [Pos.testbit_nat].
    apply Z.testbit_0_l.
Qed.

Lemma bits_nth a i : 0 <= a -> nth i (bits a) 0 = b2z (Z.testbit a (Z.of_nat i)).
Proof.
  intros Ha. destruct a as [|q|q].
  - rewrite Z.testbit_0_l. destruct i; reflexivity.
  - cbn [bits]. rewrite testbit_pos_nat. apply bits_pos_nth.
  - lia.
Qed.

Lemma bits_pos_nonnil q : bits_pos q <> [].
Proof. destruct q; discriminate. Qed.

Lemma bits_pos_wf q : wf 2 (bits_pos q).
Proof.
  induction q as [q [IHf IHl]|q [IHf IHl]|].
  - split.
    + cbn [bits_pos]. constructor; [lia|exact IHf].
    + cbn [bits_pos]. rewrite last_cons_nonnil by apply bits_pos_nonnil. exact IHl.
  - split.
    + cbn [bits_pos]. constructor; [lia|exact IHf].
    + cbn [bits_pos]. rewrite last_cons_nonnil by apply bits_pos_nonnil. exact IHl.
  - split.
    + cbn [bits_pos]. constructor; [lia|constructor].
    + cbn [bits_pos last]. lia.
Qed.

Lemma bits_wf a : wf 2 (bits a).
Proof.
  destruct a as [|q|q].
  - split; [constructor|cbn; lia].
  - apply bits_pos_wf.
  - split; [constructor|cbn; lia].
Qed.

Lemma bits_pos_length q : Z.of_nat (length (bits_pos q)) = Zpos (Pos.size q).
Proof.
  induction q as [q IH|q IH|]; cbn [bits_pos length Pos.size].
  - rewrite Nat2Z.inj_succ, IH. lia.
  - rewrite Nat2Z.inj_succ, IH. lia.
  - reflexivity.
Qed.

Lemma log2_pos_size q : Z.log2 (Zpos q) + 1 = Zpos (Pos.size q).
Proof. destruct q as [q|q|]; cbn [Z.log2 Pos.size]; lia. Qed.

Lemma bits_length a : 0 <= a -> Z.of_nat (length (bits a)) = blen a.
Proof.
  intros Ha. destruct a as [|q|q].
  - reflexivity.
  - unfold blen. replace (Zpos q =? 0) with false by (symmetry; apply Z.eqb_neq; lia).
    cbn [bits]. rewrite bits_pos_length, log2_pos_size. reflexivity.
  - lia.
Qed.

Lemma shiftl_1 s : Z.shiftl s 1 = 2 * s.
Proof. rewrite Z.shiftl_mul_pow2 by lia. change (2 ^ 1) with 2. ring. Qed.

Lemma unbits_cons x l : unbits (x :: l) = 2 * unbits l + x.
Proof. unfold unbits. cbn [fold_right]. rewrite shiftl_1. reflexivity. Qed.

Lemma unbits_bits_pos q : unbits (bits_pos q) = Zpos q.
Proof.
  induction q as [q IH|q IH|]; cbn [bits_pos].
  - rewrite unbits_cons, IH. lia.
  - rewrite unbits_cons, IH. lia.
  - reflexivity.
Qed.

Lemma unbits_bits a : 0 <= a -> unbits (bits a) = a.
Proof.
  intros Ha. destruct a as [|q|q].
  - reflexivity.
  - apply unbits_bits_pos.
  - lia.
Qed.

Lemma bits_inj a b : 0 <= a -> 0 <= b -> bits a = bits b -> a = b.
Proof.
  intros Ha Hb H. rewrite <- (unbits_bits a Ha), <- (unbits_bits b Hb), H. reflexivity.
Qed.

Lemma bits_shiftl1 a : 0 < a -> bits (Z.shiftl a 1) = 0 :: bits a.
Proof.
  intros Ha. destruct a as [|q|q]; [lia| |lia]. reflexivity.
Qed.

Lemma bits_shiftl a n : 0 < a -> 0 <= n -> bits (Z.shiftl a n) = repeat 0 (Z.to_nat n) ++ bits a.
Proof.
  intros Ha Hn. revert n Hn. apply natlike_ind.
  - reflexivity.
  - intros n Hn IH.
    replace (Z.succ n) with (n + 1) by lia.
    rewrite <- Z.shiftl_shiftl by exact Hn.
    rewrite bits_shiftl1.
    + rewrite IH. replace (Z.to_nat (n + 1)) with (S (Z.to_nat n)) by lia. reflexivity.
    + rewrite Z.shiftl_mul_pow2 by exact Hn.
      assert (Hp : 0 < 2 ^ n) by (apply Z.pow_pos_nonneg; lia). nia.
Qed.

Lemma bits_shiftr1 a : 0 <= a -> bits (Z.shiftr a 1) = tl (bits a).
Proof.
  intros Ha. destruct a as [|q|q]; [reflexivity| |lia].
  destruct q; reflexivity.
Qed.

Lemma skipn_S_tl {A} k (l : list A) : skipn (S k) l = skipn k (tl l).
Proof. destruct l as [|x l]; [destruct k; reflexivity|reflexivity]. Qed.

Lemma bits_shiftr_nat k a : 0 <= a -> bits (Z.shiftr a (Z.of_nat k)) = skipn k (bits a).
Proof.
  revert a; induction k as [|k IH]; intros a Ha.
  - reflexivity.
  - rewrite skipn_S_tl, <- bits_shiftr1 by exact Ha.
    rewrite <- IH by (apply Z.shiftr_nonneg; exact Ha).
    rewrite Z.shiftr_shiftr by apply Nat2Z.is_nonneg.
    f_equal. f_equal. lia.
Qed.

Lemma bits_shiftr a n : 0 <= a -> 0 <= n -> bits (Z.shiftr a n) = skipn (Z.to_nat n) (bits a).
Proof.
  intros Ha Hn. rewrite <- (bits_shiftr_nat (Z.to_nat n) a Ha).
  rewrite Z2Nat.id by exact Hn. reflexivity.
Qed.

Lemma lxor_nonneg' a b : 0 <= a -> 0 <= b -> 0 <= Z.lxor a b.
Proof. intros Ha Hb. apply Z.lxor_nonneg. split; intros _; assumption. Qed.

Lemma bits_lxor_nth a b i : 0 <= a -> 0 <= b ->
  nth i (bits (Z.lxor a b)) 0 = (nth i (bits a) 0 + nth i (bits b) 0) mod 2.
Proof.
  intros Ha Hb.
  rewrite !bits_nth by (try apply lxor_nonneg'; assumption).
  rewrite Z.lxor_spec.
  destruct (Z.testbit a (Z.of_nat i)), (Z.testbit b (Z.of_nat i)); reflexivity.
Qed.

(** * MAIN: xor of bitmasks is addition (and subtraction) of coefficient lists over GF(2) *)

Lemma bits_Forall a : Forall (fun x => 0 <= x < 2) (bits a).
Proof. exact (proj1 (bits_wf a)). Qed.

Lemma bits_add2 a b : 0 <= a -> 0 <= b -> bits (add2 a b) = add 2 (bits a) (bits b).
Proof.
  intros Ha Hb. apply (wf_nth_ext 2).
  - apply bits_wf.
  - apply add_wf; apply bits_Forall.
  - intros i. unfold add2. rewrite bits_lxor_nth by assumption.
    rewrite nth_add_generic by apply bits_Forall. reflexivity.
Qed.

Lemma bits_sub2 a b : 0 <= a -> 0 <= b -> bits (add2 a b) = sub 2 (bits a) (bits b).
Proof.
  intros Ha Hb. apply (wf_nth_ext 2).
  - apply bits_wf.
  - apply sub_wf; apply bits_Forall.
  - intros i. unfold add2. rewrite bits_lxor_nth by assumption.
    rewrite nth_sub_generic by apply bits_Forall.
    generalize (nth i (bits a) 0) (nth i (bits b) 0). intros u v.
    Z.div_mod_to_equations; lia.
Qed.


