"""C29 — secure sorting and selection are correct for every input order.

Proof: coq/props/C29.v (theories SortNet.v, Tournament.v).  Tie: (a) the comparator sequence of the
REAL runtime._sort is extracted for every n <= 64 by running it on a list that records its index
accesses, and compared with the Coq `merge_exchange_opt n`; (b) all 2^n 0/1 inputs go through the real
_sort / the extracted comparator list; (c) secure end-to-end runs (m=1) of sorted / seclist.sort /
min / max / min_max / argmin / argmax are compared with Python oracles and with the Coq models.
"""
import os, sys, json, subprocess, itertools
from lib.core import zlist, natlit, zlit, blit, impl_env, PYNP

MANIFEST = {
    'text': 'Coq: every comparator list permutes its input (all n); 0-1 principle (fully proved, monotone threshold maps); '
            'a bit-parallel truth-table certificate with a proved soundness lemma (N.land/N.lor projections) shows that the '
            'merge-exchange comparator list of _sort sorts every input of length n <= 16 (n <= 20 in the thorough tier), also '
            'with key= (only < on keys) and reverse=; comparators are in range for all n; tournament min/max return an '
            'element with extreme key, = fold Z.min / Z.max, min_max (keyed pre-pass + halves, middle element) returns elements '
            'with minimal resp. maximal key for every key (min_max_key_spec), argmin/argmax return the FIRST extreme index with its value -- all for every length by strong '
            'induction on the halving. The comparator list of the real _sort is extracted for every n <= 64 on every run '
            'and compared with the Coq list; secure runs are compared with the models and with Python oracles, also in the '
            'multi-party simulator (m=3,t=1; m=5,t=2; PRSS on/off; list-valued rows and numbers from different senders, '
            'opened at every party, with a follow-up multiplication), and np_sort / np.sort / x.sort(axis=) on '
            'secure arrays of shapes (n,), (r,c), (a,b,c) along every axis in the NumPy interpreter.',
    'note': 'PARTIAL: sortedness of merge exchange is proved only for n <= 16 (20 thorough), the bound is in the theorem; '
            'for 17..64 the network is identical to the model and is tested (all 0/1 inputs up to n = 16/22 on the extracted '
            'list, random inputs above). Trusted: Coq kernel + vm_compute; the value-level model of if_swap/if_else/< '
            '(secure arithmetic itself is covered by other properties); np_sort is tied only when the NumPy venv is present '
            '(index sets of each round compared with the same comparator list). Former finding F-C29-1 (min_max ignored key= in '
            'its pre-pass) is repaired in /repo by commit fb1729f; model and theorem follow the repaired code and keyed '
            'min_max (numbers and list elements) is an ordinary case against oracle and model. min() returns the last minimal element on key ties, max() the '
            'first (allowed by the property; modelled exactly). Outside the property (not checked): np_argmin/np_argmax return '
            'transposed index positions for ndim >= 3 along an axis <= ndim-3, and raise for a length-1 axis with several '
            'slices. The secure-array stream (np_sort only) is an implementation-level oracle (no Coq model of the array code '
            'beyond the comparator index sets).',
    'technique': 'Coq proof (0-1 principle + verified truth-table certificate, strong induction for tournaments) + comparator-sequence extraction from the real code',
}


class Rec(list):
    """list that records index reads/writes (no change to /repo; _sort only indexes its argument)"""

    def __init__(self, *a):
        super().__init__(*a)
        self.log = []

    def __getitem__(self, i):
        self.log.append(('g', i))
        return super().__getitem__(i)

    def __setitem__(self, i, v):
        self.log.append(('s', i))
        super().__setitem__(i, v)


def extract_net(mpc, n):
    """comparator sequence (i, j) of the real _sort for length n >= 2; None if the access pattern is unexpected"""
    x = Rec(range(n))
    mpc._sort(x, lambda a: a)
    log = x.log
    if len(log) % 4:
        return None
    net = []
    for k in range(0, len(log), 4):
        (g1, i), (g2, j), (s1, i2), (s2, j2) = log[k:k + 4]
        if (g1, g2, s1, s2) != ('g', 'g', 's', 's') or i != i2 or j != j2:
            return None
        net.append((i, j))
    return net


def run_net_bits(net, n):
    """all 2^n 0/1 inputs at once (Python ints as bit vectors); returns True iff every output is sorted"""
    N = 1 << n
    full = (1 << N) - 1
    ws = []
    for i in range(n):
        # bit k of ws[i] = bit i of k
        blk = ((1 << (1 << i)) - 1) << (1 << i)       # 2^i zeros then 2^i ones
        per = 1 << (i + 1)
        w = 0
        reps = N // per
        # build by doubling
        w = blk
        size = per
        while size < N:
            w |= w << size
            size <<= 1
        ws.append(w & full)
    for (i, j) in net:
        a, b = ws[i], ws[j]
        ws[i], ws[j] = a & b, a | b
    return all(ws[i] & ~ws[i + 1] & full == 0 for i in range(n - 1))


def coq_pairs(ps):
    return '[' + '; '.join('(%s, %s)' % (zlit(a), zlit(b)) for a, b in ps) + ']'


NP_SCRIPT = r'''
import sys, json
sys.argv = ['x', '--no-log']
from mpyc.runtime import mpc
import numpy as np
req = json.loads(sys.stdin.read())
mpc.run(mpc.start())
secint = mpc.SecInt(32)
out = {'nets': {}, 'sorts': []}
orig = mpc.np_update
rounds = []
def rec(a, key, value):
    rounds[-1].append([int(v) for v in key[-1]])
    return orig(a, key, value)
mpc.np_update = rec
for n in req['ns']:
    rounds.append([])
    a = secint.array(np.arange(n))
    mpc.np_sort(a)
    calls = rounds[-1]
    out['nets'][str(n)] = [[calls[k], calls[k + 1]] for k in range(0, len(calls), 2)]
mpc.np_update = orig
for xs in req['lists']:
    a = secint.array(np.array(xs))
    out['sorts'].append([int(v) for v in mpc.run(mpc.output(mpc.np_sort(a)))])
# array stream: np_sort / np.sort / x.sort(axis=) along an axis, compared by the caller with NumPy's result
secfxp = mpc.SecFxp(32, 8)
out['arrays'] = []
for c in req['arrays']:
    a = np.array(c['data']).reshape(c['shape'])
    if c['type'] == 'fxp':
        a = a / 8
        x = secfxp.array(a)
    else:
        x = secint.array(a)
    fn, axis = c['fn'], c['axis']
    try:
        if fn == 'np_sort':
            r = mpc.np_sort(x, axis=axis)
            w = np.sort(a, axis=axis)
        elif fn == 'sort_method':
            r = x.sort(axis=axis)
            w = np.sort(a, axis=axis)
        else:
            r = getattr(np, fn)(x, axis=axis)
            w = getattr(np, fn)(a, axis=axis)
        g = np.array(mpc.run(mpc.output(r)))
        if c['type'] == 'fxp' and fn not in ('argmin', 'argmax'):
            g, w = g * 8, w * 8
        out['arrays'].append({'got': np.array(g).astype(float).round().astype(int).tolist(), 'want': np.array(w).astype(float).round().astype(int).tolist(),
                              'gshape': list(np.shape(g)), 'wshape': list(np.shape(w))})
    except Exception as e:
        out['arrays'].append({'exc': repr(e)[:300], 'want': np.array(w).tolist() if 'w' in dir() else None})
mpc.run(mpc.shutdown())
print('RESULT ' + json.dumps(out))
'''


def np_array_cases(ctx, rng):
    """secure arrays: shapes (n,), (r,c) with r != c (and square), (a,b,c); every axis incl. negative and None"""
    shapes = [(1,), (2,), (3,), (5,), (8,), (13,), (17,), (20,),
              (2, 3), (3, 2), (5, 3), (6, 2), (2, 7), (7, 4), (1, 4), (4, 1), (3, 3), (9, 2), (2, 11),
              (2, 3, 4), (3, 5, 2), (5, 2, 3), (2, 2, 3), (4, 1, 3)]
    if ctx.tier == 'thorough':
        shapes += [(4, 20), (20, 3), (17, 2), (3, 4, 5), (6, 3, 2), (2, 3, 2, 3)]
    cases = []
    for si, shape in enumerate(shapes):
        size = 1
        for d in shape:
            size *= d
        axes = [None] + list(range(-len(shape), len(shape)))
        for ai, axis in enumerate(axes):
            span = rng.choice([1, 2, 4, 30])
            data = [rng.randint(-span, span) for _ in range(size)]
            typ = 'fxp' if (si + ai) % 4 == 3 else 'int'
            fns = ['np_sort' if (si + ai) % 3 else 'sort']
            if len(shape) >= 2 and axis is not None and (si + ai) % 2 == 0:
                fns.append('sort_method')
            for fn in fns:
                cases.append({'fn': fn, 'type': typ, 'shape': list(shape), 'axis': axis, 'data': data})
    return cases


# ---------------------------------------------------------------------------------------------------
# multi-party simulator stream: list-valued elements (rows) through sorted / min / max / min_max /
# argmin / argmax / if_swap, inputs from different senders, everything opened at every party, and a
# follow-up multiplication on the results (a sharing of too high degree shows there at the latest)

def _sim_cases(ctx, rng, m):
    cases = []
    reps = ctx.n(1, 3)

    def rows(n, w, span):
        return [[rng.randint(-span, span) for _ in range(w)] for _ in range(n)]

    for rep in range(reps):
        for n, w in ((2, 2), (3, 2), (5, 2), (6, 3), (7, 2)):
            R = rows(n, w, rng.choice([1, 2, 9]))
            col = rng.randrange(w)
            cases.append(('sorted_rows', R, col, bool((n + rep) % 2), 'col'))
        for n in (3, 4):
            cases.append(('sorted_rows', rows(n, 2, 1), 0, bool(n % 2), 'seclist'))
        for fn in ('min', 'max', 'min_max', 'argmin', 'argmax'):
            n = rng.choice([2, 3, 4, 5, 6])
            cases.append(('sel_rows', fn, rows(n, 2, rng.choice([1, 3])), rng.randrange(2)))
        for bit in (0, 1):
            cases.append(('if_swap', bit, rows(1, 3, 9)[0], rows(1, 3, 9)[0]))
        cases.append(('sorted_nums', [rng.randint(-4, 4) for _ in range(rng.choice([5, 6, 8]))], bool(rep % 2), 'int'))
        cases.append(('sorted_nums', [rng.randint(-12, 12) for _ in range(5)], not bool(rep % 2), 'fxp'))
        cases.append(('seclist_sort', [rng.randint(-3, 3) for _ in range(6)], bool(rep % 2)))
        cases.append(('sel_nums', [rng.randint(-2, 2) for _ in range(7)]))
    return cases


def _sim_prog(cases):
    async def prog(mpc, mods, pid):
        secint = mpc.SecInt(16)
        secfxp = mpc.SecFxp(16, 4)
        seclist = mods['mpyc.seclists'].seclist
        m = len(mpc.parties)

        def share_row(row, i, stype=secint, scale=1):
            # row i is provided by party i mod m (the other parties pass placeholders of the same shape)
            return mpc.input([stype(v / scale if scale != 1 else v) for v in row], senders=i % m)

        def canon(v, scale=1):
            return int(round(float(v) * scale))

        async def opn(vs, scale=1):
            return [canon(v, scale) for v in await mpc.output(list(vs))] if vs else []

        async def opn_rows(R):
            return [await opn(r) for r in R]

        async def prods(R):   # follow-up multiplication on the results
            return await opn([r[0] * r[-1] for r in R])

        res = []
        for c in cases:
            kind = c[0]
            try:
                if kind == 'sorted_rows':
                    _, R, col, reverse, keykind = c
                    X = [share_row(r, i) for i, r in enumerate(R)]
                    key = (lambda r: r[col]) if keykind == 'col' else (lambda r: seclist(r, secint))
                    Y = mpc.sorted(X, key=key, reverse=reverse)
                    r = [await opn_rows(Y), await prods(Y)]
                elif kind == 'sel_rows':
                    _, fn, R, col = c
                    X = [share_row(r, i) for i, r in enumerate(R)]
                    y = getattr(mpc, fn)(X, key=lambda r: r[col])
                    if fn in ('min', 'max'):
                        r = [await opn(y), await prods([y])]
                    elif fn == 'min_max':
                        r = [await opn_rows(y), await prods(list(y))]
                    else:
                        r = [canon(await mpc.output(y[0])), await opn(y[1]), await prods([y[1]])]
                elif kind == 'if_swap':
                    _, bit, r1, r2 = c
                    b = mpc.input(secint(bit), senders=m - 1)
                    x, y = mpc.if_swap(b, share_row(r1, 0), share_row(r2, 1))
                    r = [await opn(x), await opn(y), await opn(mpc.schur_prod(x, y))]
                elif kind == 'sorted_nums':
                    _, xs, reverse, typ = c
                    if typ == 'int':
                        X = [mpc.input(secint(v), senders=i % m) for i, v in enumerate(xs)]
                        Y = mpc.sorted(X, reverse=reverse)
                        r = [await opn(Y), await opn([Y[0] * Y[-1]])]
                    else:
                        X = [mpc.input(secfxp(v / 4), senders=i % m) for i, v in enumerate(xs)]
                        Y = mpc.sorted(X, reverse=reverse)
                        r = [await opn(Y, 4), await opn([Y[0] * Y[-1]], 16)]
                elif kind == 'seclist_sort':
                    _, xs, reverse = c
                    S = seclist([mpc.input(secint(v), senders=i % m) for i, v in enumerate(xs)], secint)
                    S.sort(reverse=reverse)
                    r = [await opn(list(S)), await opn([S[0] * S[-1]])]
                else:   # sel_nums
                    _, xs = c
                    X = [mpc.input(secint(v), senders=i % m) for i, v in enumerate(xs)]
                    mn, mx = mpc.min(X), mpc.max(X)
                    mm = mpc.min_max(X)
                    am, aM = mpc.argmin(X), mpc.argmax(X)
                    r = [await opn([mn, mx, mm[0], mm[1], am[0], am[1], aM[0], aM[1], mn * mx])]
            except Exception as e:   # noqa
                r = 'ERR:' + repr(e)[:200]
            res.append(r)
        return res
    return prog


def _sim_check(ctx, cfg, c, got, exprs, meta):
    kind = c[0]
    key = {'sim': cfg, 'case': [list(x) if isinstance(x, tuple) else x for x in c]}
    elem = 'rows' if kind in ('sorted_rows', 'sel_rows', 'if_swap') else 'numbers'
    ctx.case(key, nontrivial=True, kind='sim %s %s' % (cfg, kind))

    def bad(what, want=None):
        ctx.violation('sim-%s-wrong %s %s [%s]' % (kind if kind != 'sel_rows' else c[1], elem, what, cfg),
                      dict(key, got=str(got)[:400], want=str(want)[:400]))

    if isinstance(got, str):
        ctx.violation('sim-%s-raises %s [%s]' % (kind, elem, cfg), dict(key, got=got))
        return
    if kind == 'sorted_rows':
        _, R, col, reverse, keykind = c
        Y, P = got
        if keykind == 'seclist':
            if Y != sorted(R, reverse=reverse):
                bad('order', sorted(R, reverse=reverse))
        else:
            if sorted(Y) != sorted(R) or [y[col] for y in Y] != sorted([r[col] for r in R], reverse=reverse):
                bad('order/permutation', sorted(R, key=lambda r: r[col], reverse=reverse))
            if len(R[0]) == 2:
                exprs.append('sorted_key_model %s (0,0)%%Z %s %s' % ('fst' if col == 0 else 'snd', coq_pairs(R), blit(reverse)))
                meta.append(('sorted', key, Y))
        if P != [y[0] * y[-1] for y in Y]:
            bad('follow-up product', [y[0] * y[-1] for y in Y])
    elif kind == 'sel_rows':
        _, fn, R, col = c
        ks = [r[col] for r in R]
        if fn in ('min', 'max'):
            y, P = got
            ext = min(ks) if fn == 'min' else max(ks)
            if y not in R or y[col] != ext or P != [y[0] * y[-1]]:
                bad('value')
            exprs.append('%s_model %s %s' % (fn, 'fst' if col == 0 else 'snd', coq_pairs(R)))
            meta.append(('selp', dict(key, fn=fn), tuple(y)))
        elif fn == 'min_max':
            (a, b), P = got
            if a not in R or b not in R or a[col] != min(ks) or b[col] != max(ks) or P != [a[0] * a[-1], b[0] * b[-1]]:
                bad('value')
            exprs.append('min_max_model %s (0, 0)%%Z %s' % ('fst' if col == 0 else 'snd', coq_pairs(R)))
            meta.append(('selp', dict(key, fn=fn), (tuple(a), tuple(b))))
        else:
            i, y, P = got
            ext = min(ks) if fn == 'argmin' else max(ks)
            if i != ks.index(ext) or y != R[i] or P != [y[0] * y[-1]]:
                bad('value', (ks.index(ext), R[ks.index(ext)]))
            exprs.append('%s_model %s %s' % (fn, 'fst' if col == 0 else 'snd', coq_pairs(R)))
            meta.append(('selp', dict(key, fn=fn), (i, tuple(y))))
    elif kind == 'if_swap':
        _, bit, r1, r2 = c
        x, y, P = got
        want = (r2, r1) if bit else (r1, r2)
        if (x, y) != want or P != [a * b for a, b in zip(r1, r2)]:
            bad('value', want)
    elif kind == 'sorted_nums':
        _, xs, reverse, typ = c
        Y, P = got
        w = sorted(xs, reverse=reverse)
        if Y != w or P != [w[0] * w[-1]]:
            bad('order/product', (w, [w[0] * w[-1]]))
        exprs.append('sorted_model %s %s' % (zlist(xs), blit(reverse)))
        meta.append(('sorted', key, Y))
    elif kind == 'seclist_sort':
        _, xs, reverse = c
        Y, P = got
        w = sorted(xs, reverse=reverse)
        if Y != w or P != [w[0] * w[-1]]:
            bad('order/product', (w, [w[0] * w[-1]]))
    else:
        xs = c[1]
        mn, mx = min(xs), max(xs)
        want = [mn, mx, mn, mx, xs.index(mn), mn, xs.index(mx), mx, mn * mx]
        if got[0] != want:
            bad('value', want)


def sim_stream(ctx, rng, exprs, meta):
    from lib.sim import Sim
    configs = [(3, 1, False), (5, 2, False), (3, 1, True)]
    if ctx.tier == 'thorough':
        configs += [(1, 0, False), (2, 0, False), (4, 1, False), (5, 2, True), (5, 1, False)]
    nsim = 0
    for (m, t, noprss) in configs:
        cfg = 'm=%d t=%d %s' % (m, t, 'no-prss' if noprss else 'prss')
        cases = _sim_cases(ctx, rng, m)
        sim = Sim(m=m, t=t, no_prss=noprss, seed=ctx.seed * 1000 + 29 * m + t + (7 if noprss else 0),
                  log_messages=False, track_tasks=False)
        try:
            sim.start()
            if not sim.started:
                ctx.broken.append({'kind': 'harness', 'what': 'simulator start failed', 'config': cfg})
                continue
            res = sim.run(_sim_prog(cases), max_rounds=3000000)      # rounds budget
            sim.shutdown()
        finally:
            sim.close()
        if any(not isinstance(r, list) for r in res):
            # a party did not finish (PENDING) or raised: with a correct tree every party completes
            ctx.violation('sim-run-incomplete [%s]' % cfg, {'config': cfg, 'results': [str(r)[:300] for r in res]})
            continue
        for i in range(1, m):
            if res[i] != res[0]:
                k = next(j for j in range(len(res[0])) if res[i][j] != res[0][j])
                ctx.violation('sim-parties-disagree %s [%s]' % (cases[k][0], cfg),
                              {'config': cfg, 'case': str(cases[k]), 'p0': str(res[0][k])[:300], 'p%d' % i: str(res[i][k])[:300]})
        for c, got in zip(cases, res[0]):
            nsim += 1
            _sim_check(ctx, cfg, c, got, exprs, meta)
        ctx.log('simulator %s: %d cases, %d rounds' % (cfg, len(cases), getattr(sim, 'rounds', -1)))
    ctx.extra['simulator_cases'] = nsim
    ctx.extra['simulator_configs'] = [list(c) for c in configs]


def run(ctx):
    if not any(a == '--no-log' for a in sys.argv):
        sys.argv = [sys.argv[0], '--no-log']
    from mpyc.runtime import mpc
    from mpyc.seclists import seclist
    ok = ctx.build() and ctx.check_props()
    rng = ctx.rng
    ctx.rule = ('networks: every n in 0..64 (comparator list extracted from the real _sort, distinct per n); 0/1 inputs: all '
                '2^n per n; value cases: (function, list, key, reverse), non-trivial when the list has >= 2 elements and '
                'is not already in output order; selection: every length 1..17 with forced ties')
    ctx.explanation = ('the real loop nest is compared comparator by comparator with the Coq model for each n; the Coq '
                       'certificate covers all inputs for n <= 16; implementation-level oracles cover larger n')
    if ctx.tier == 'thorough' and ok:
        # certificate for 17..20 in a generated props file
        from lib import core as _core
        gen = os.path.join(_core.COQ, 'props', 'C29_thorough.v')
        with open(gen, 'w') as f:
            f.write('Require Import MPyC.SortNet.\nFrom Coq Require Import List ZArith Arith Bool Lia Permutation Sorting.Sorted.\n'
                    'Import ListNotations.\nLocal Open Scope nat_scope.\n'
                    'Lemma me_check_le_20 : forallb me_check (seq 0 21) = true.\nProof. vm_compute. reflexivity. Qed.\n'
                    'Theorem C29_sort_correct_le_20_partial : forall n, n <= 20 -> forall xs : list Z, length xs = n ->\n'
                    '  Sorted Z.le (apply_net (merge_exchange n) xs) /\\ Permutation (apply_net (merge_exchange n) xs) xs.\n'
                    'Proof. intros n Hn. apply tt_check_sorts. pose proof me_check_le_20 as H. rewrite forallb_forall in H.\n'
                    '  apply H. apply in_seq. lia. Qed.\nPrint Assumptions C29_sort_correct_le_20_partial.\n')
        ok = ctx.check_props('C29_thorough.v') and ok
        for ext in ('.v', '.vo', '.vok', '.vos', '.glob'):
            p = gen[:-2] + ext
            if os.path.exists(p):
                os.remove(p)
        aux = os.path.join(os.path.dirname(gen), '.C29_thorough.aux')
        if os.path.exists(aux):
            os.remove(aux)

    # ------------------------------------------------------------------ (a) comparator sequences
    NMAX = 64
    nets = {}
    for n in range(2, NMAX + 1):
        net = extract_net(mpc, n)
        if net is None:
            ctx.broken.append({'kind': 'correspondence', 'what': 'unexpected access pattern of _sort', 'n': n})
            net = []
        nets[n] = net
    # n < 2: sorted() must not call _sort
    calls = []
    orig_sort = mpc._sort
    mpc._sort = lambda x, key: calls.append(len(x)) or orig_sort(x, key)
    try:
        r0, r1 = mpc.sorted([]), mpc.sorted([7])
        r2 = mpc.sorted([2, 1])
    finally:
        del mpc._sort
    if r0 != [] or r1 != [7] or r2 != [1, 2] or calls != [2]:
        ctx.violation('sorted-short-lists', {'sorted([])': r0, 'sorted([7])': r1, 'sorted([2,1])': r2, '_sort calls': calls})
    nets[0], nets[1] = [], []
    # the comparison is done inside Coq (printing 15000 pairs through Coq's pretty-printer is slow):
    # comparator (i, j) is passed as the number 64*i + j  (i, j < 64... NMAX = 64 so j <= 63)
    preamble = ('Definition eqnet (a : option (list (nat * nat))) (b : list N) : bool := match a with '
                '| Some l => if list_eq_dec N.eq_dec (map (fun c => (N.of_nat (fst c) * 64 + N.of_nat (snd c))%N) l) b '
                'then true else false | None => false end.\n')
    exprs, meta = [], []
    for n in range(0, NMAX + 1):
        assert all(0 <= i < 64 and 0 <= j < 64 for i, j in nets[n])
        exprs.append('eqnet (merge_exchange_opt %s) [%s]%%N' % (natlit(n), '; '.join(str(i * 64 + j) for i, j in nets[n])))
        meta.append(('net', n))

    # ------------------------------------------------------------------ (b) 0/1 inputs
    # real _sort on every 0/1 vector (plain ints: `<` gives a bool, if_swap is arithmetic)
    n01 = ctx.n(10, 13)
    cnt01 = 0
    for n in range(2, n01 + 1):
        for bits in itertools.product((0, 1), repeat=n):
            x = list(bits)
            mpc._sort(x, lambda a: a)
            cnt01 += 1
            if any(x[i] > x[i + 1] for i in range(n - 1)) or sum(x) != sum(bits):
                ctx.violation('sort-01-wrong n=%d' % n, {'n': n, 'input': list(bits), 'got': x})
                break
        ctx.case({'all01_real_sort': n}, nontrivial=True, kind='all 0/1 inputs through real _sort')
    nbits = ctx.n(16, 22)
    for n in range(2, nbits + 1):
        if not run_net_bits(nets[n], n):
            # find a witness
            wit = None
            if n <= 20:
                for k in range(1 << n):
                    x = [(k >> i) & 1 for i in range(n)]
                    y = list(x)
                    mpc._sort(y, lambda a: a)
                    if any(y[i] > y[i + 1] for i in range(n - 1)):
                        wit = x
                        break
            ctx.violation('sort-01-wrong n=%d' % n, {'n': n, 'input': wit, 'net': nets[n]})
        ctx.case({'all01_extracted_net': n}, nontrivial=True, kind='all 0/1 inputs through extracted comparator list')
    ctx.extra['zero_one_inputs_real_sort'] = cnt01
    ctx.extra['zero_one_inputs_bitparallel'] = sum(1 << n for n in range(2, nbits + 1))
    ctx.extra['exhaustive'] = True
    # random inputs with many duplicates, all n up to 64 and a few larger, through the real _sort (plain ints)
    sort_cases = []
    for n in list(range(2, NMAX + 1)) + [65, 100, 127, 128, 129, 200]:
        for rep in range(ctx.n(3, 10)):
            span = rng.choice([1, 2, 3, n, 10 * n])
            xs = [rng.randint(-span, span) for _ in range(n)]
            if rep == 0:
                xs = sorted(xs, reverse=True)
            ys = list(xs)
            mpc._sort(ys, lambda a: a)
            if ys != sorted(xs):
                ctx.violation('sort-wrong n=%d' % n, {'n': n, 'input': xs, 'got': ys})
            ctx.case({'sort_plain': xs}, nontrivial=ys != xs, kind='real _sort on plain ints, n<=64' if n <= 64 else 'real _sort on plain ints, n>64')
            if n <= 40 and rep < 2:
                sort_cases.append((xs, ys))
    for xs, ys in sort_cases:
        exprs.append('apply_net (merge_exchange %s) %s' % (natlit(len(xs)), zlist(xs)))
        meta.append(('apply', xs, ys))

    # ------------------------------------------------------------------ (c) secure end-to-end
    mpc.run(mpc.start())
    secint = mpc.SecInt(32)
    secfxp = mpc.SecFxp(32, 8)

    def out(v):
        return mpc.run(mpc.output(v))

    def canon_int(v):
        return int(v)

    def canon_fxp(v):
        return int(round(float(v) * 256))

    def excname(e):
        return 'Value' if isinstance(e, ValueError) else 'Type' if isinstance(e, TypeError) else 'Index' if isinstance(e, IndexError) else 'Other'

    lens = [0, 1, 2, 3, 4, 5, 6, 7, 8, 9, 11, 13, 16, 17] if ctx.tier == 'quick' else list(range(0, 26)) + [31, 32, 33]
    for n in lens:
        for rep in range(ctx.n(2, 4)):
            span = rng.choice([1, 2, max(1, n // 2), 50])
            xs = [rng.randint(-span, span) for _ in range(n)]
            reverse = bool((n + rep) % 2)
            kind = ['secint', 'secfxp', 'secint-key-neg', 'seclist', 'pairs-key-second'][(n + 2 * rep) % 5] if n else ['secint', 'seclist'][rep % 2]
            key = {'n': n, 'xs': xs, 'reverse': reverse, 'kind': kind}
            try:
                if kind == 'secint':
                    got = [canon_int(v) for v in out(mpc.sorted([secint(a) for a in xs], reverse=reverse))] if n else mpc.sorted([], reverse=reverse)
                    want = sorted(xs, reverse=reverse)
                    model = 'sorted_model %s %s' % (zlist(xs), blit(reverse))
                elif kind == 'secfxp':
                    got = [canon_fxp(v) for v in out(mpc.sorted([secfxp(a / 8) for a in xs], reverse=reverse))]
                    want = sorted([a * 32 for a in xs], reverse=reverse)
                    model = 'sorted_model %s %s' % (zlist([a * 32 for a in xs]), blit(reverse))
                elif kind == 'secint-key-neg':
                    got = [canon_int(v) for v in out(mpc.sorted([secint(a) for a in xs], key=lambda a: -a, reverse=reverse))]
                    want = sorted(xs, key=lambda a: -a, reverse=reverse)
                    model = 'sorted_key_model Z.opp 0%%Z %s %s' % (zlist(xs), blit(reverse))
                elif kind == 'seclist':
                    s = seclist([secint(a) for a in xs], secint)
                    s.sort(reverse=reverse)
                    got = [canon_int(v) for v in out(list(s))] if n else list(s)
                    want = sorted(xs, reverse=reverse)
                    model = 'sorted_model %s %s' % (zlist(xs), blit(reverse))
                else:   # lists of two numbers, sorted by the second: element order on ties is the network's
                    ps = [(i, a) for i, a in enumerate(xs)]
                    res = mpc.sorted([[secint(i), secint(a)] for i, a in ps], key=lambda e: e[1], reverse=reverse)
                    got = [tuple(canon_int(v) for v in out(e)) for e in res]
                    want = None
                    if sorted(got) != sorted(ps) or [g[1] for g in got] != sorted(xs, reverse=reverse):
                        ctx.violation('sorted-key-wrong kind=%s n=%d' % (kind, n), dict(key, got=got))
                    model = 'sorted_key_model snd (0,0)%%Z %s %s' % (coq_pairs(ps), blit(reverse))
            except Exception as e:   # noqa
                ctx.violation('sorted-raises kind=%s n=%d' % (kind, n), dict(key, exc=repr(e)))
                continue
            if want is not None and got != want:
                ctx.violation('sorted-wrong kind=%s n=%d' % (kind, n), dict(key, got=got, want=want))
            ctx.case(key, nontrivial=n >= 2 and got != (xs if kind != 'pairs-key-second' else None), kind='secure sorted/' + kind)
            exprs.append(model)
            meta.append(('sorted', key, [list(g) if isinstance(g, tuple) else g for g in got]))

    # selection: lengths 1..17 (and 0 -> ValueError), ties forced
    fnames = ['min', 'max', 'min_max', 'argmin', 'argmax']
    sel_lens = list(range(0, 18)) if ctx.tier == 'quick' else list(range(0, 34))
    for n in sel_lens:
        for rep in range(ctx.n(4, 6)):
            span = [1, max(1, n // 3), 20, 2][rep % 4]
            xs = [rng.randint(-span, span) for _ in range(n)]
            if n >= 3 and rep == 1:   # extremes at both ends and in the middle
                lo, hi = min(xs), max(xs)
                xs[0], xs[-1], xs[n // 2] = hi, lo, rng.choice([lo, hi])
            if n >= 2 and rep == 2:   # the middle element x[n//2] is the unique minimum
                xs[n // 2] = min(xs) - 1
            if n >= 2 and rep == 3:   # ... the unique maximum; the unique minimum sits just before it
                xs[n // 2] = max(xs) + 1
                xs[(n - 1) // 2 if n % 2 == 0 else n // 2 - 1] = min(xs) - 1
            for fn in fnames:
                for usekey in ([False, True] if (n + rep) % 2 == 0 or n <= 3 else [False]):
                    keyf = (lambda a: -a) if usekey else None
                    pk = (lambda a: -a) if usekey else (lambda a: a)
                    key = {'fn': fn, 'xs': xs, 'key': 'neg' if usekey else None}
                    sx = [secint(a) for a in xs]
                    try:
                        r = getattr(mpc, fn)(sx, key=keyf) if usekey else getattr(mpc, fn)(sx)
                        if fn in ('min', 'max'):
                            got = canon_int(out(r))
                        else:
                            got = tuple(canon_int(out(v)) for v in r)
                    except Exception as e:   # noqa
                        got = 'ERR:' + excname(e)
                    # oracle
                    if n == 0:
                        want = 'ERR:Value'
                    elif fn == 'min':
                        want = min(xs, key=pk)
                    elif fn == 'max':
                        want = max(xs, key=pk)
                    elif fn == 'min_max':
                        want = (min(xs, key=pk), max(xs, key=pk))
                    elif fn == 'argmin':
                        m = min(xs, key=pk)
                        want = (xs.index(m), m)
                    else:
                        m = max(xs, key=pk)
                        want = (xs.index(m), m)
                    if got != want:
                        ctx.violation('%s-wrong n=%d key=%s' % (fn, n, key['key']), dict(key, got=got, want=want))
                    ctx.case(key, nontrivial=n >= 2 and len(set(xs)) < n, kind='secure ' + fn + ('/key' if usekey else ''))
                    kf = 'Z.opp' if usekey else 'zid'
                    exprs.append('%s_model %s %s%s' % (fn, kf, '0%Z ' if fn == 'min_max' else '', zlist(xs)))
                    meta.append(('sel', key, got))
    # selection on lists of numbers with key (which element wins on key ties)
    for n in ([1, 2, 3, 5, 8] if ctx.tier == 'quick' else range(1, 14)):
        ks = [rng.randint(0, 2) for _ in range(n)]
        ps = [(i, k) for i, k in enumerate(ks)]
        for fn in ('min', 'max', 'min_max', 'argmin', 'argmax'):
            sx = [[secint(i), secint(k)] for i, k in ps]
            try:
                r = getattr(mpc, fn)(sx, key=lambda e: e[1])
            except Exception as e:   # noqa
                ctx.violation('%s-raises pairs n=%d' % (fn, n), {'fn': fn, 'pairs': ps, 'exc': repr(e)})
                continue
            if fn in ('min', 'max'):
                got = tuple(canon_int(v) for v in out(r))
                good = got in ps and got[1] == (min(ks) if fn == 'min' else max(ks))
            elif fn == 'min_max':
                got = tuple(tuple(canon_int(v) for v in out(e)) for e in r)
                good = got[0] in ps and got[1] in ps and got[0][1] == min(ks) and got[1][1] == max(ks)
            else:
                got = (canon_int(out(r[0])), tuple(canon_int(v) for v in out(r[1])))
                ext = min(ks) if fn == 'argmin' else max(ks)
                good = got == (ks.index(ext), ps[ks.index(ext)])
            key = {'fn': fn, 'pairs': ps, 'key': 'second'}
            if not good:
                ctx.violation('%s-wrong pairs n=%d' % (fn, n), dict(key, got=got))
            ctx.case(key, nontrivial=n >= 2, kind='secure ' + fn + '/pairs')
            exprs.append('%s_model snd %s%s' % (fn, '(0, 0)%Z ' if fn == 'min_max' else '', coq_pairs(ps)))
            meta.append(('selp', key, got))
    mpc.run(mpc.shutdown())

    # ------------------------------------------------------------------ (d) multi-party simulator: rows and numbers, t >= 1
    sim_stream(ctx, rng, exprs, meta)

    # ------------------------------------------------------------------ np_sort (separate interpreter with NumPy)
    np_done = False
    if os.path.exists(PYNP):
        try:
            ns = list(range(2, 34)) + [47, 64]
            lists = [[rng.randint(-3, 3) for _ in range(n)] for n in (2, 3, 5, 8, 13, 16, 17)]
            arrays = np_array_cases(ctx, rng)
            p = subprocess.run([PYNP, '-c', NP_SCRIPT], input=json.dumps({'ns': ns, 'lists': lists, 'arrays': arrays}), text=True,
                               env=impl_env(), stdout=subprocess.PIPE, stderr=subprocess.PIPE, timeout=900)
            line = [l for l in p.stdout.split('\n') if l.startswith('RESULT ')]
            if p.returncode or not line:
                ctx.notes.append('np_sort run failed: ' + p.stderr[-300:])
                ctx.broken.append({'kind': 'harness', 'what': 'NumPy interpreter run of np_sort failed', 'detail': p.stderr[-1500:]})
            else:
                res = json.loads(line[-1][7:])
                for n in ns:
                    flat = []
                    disjoint = True
                    for I, J in res['nets'][str(n)]:
                        if len(set(I) | set(J)) != 2 * len(I):
                            disjoint = False
                        flat += list(zip(I, J))
                    if not disjoint:
                        ctx.violation('np_sort-round-not-disjoint n=%d' % n, {'n': n, 'rounds': res['nets'][str(n)]})
                    if [list(c) for c in flat] != [list(c) for c in nets[n]]:
                        ctx.broken.append({'kind': 'correspondence', 'what': 'np_sort index sets differ from _sort comparators', 'n': n})
                    ctx.case({'np_sort_net': n}, nontrivial=True, kind='np_sort index sets')
                for xs, got in zip(lists, res['sorts']):
                    if got != sorted(xs):
                        ctx.violation('np_sort-wrong n=%d' % len(xs), {'xs': xs, 'got': got})
                    ctx.case({'np_sort': xs}, nontrivial=True, kind='secure np_sort')
                for c, r in zip(arrays, res['arrays']):
                    key = dict(c)
                    nd = len(c['shape'])
                    ax = None if c['axis'] is None else c['axis'] % nd
                    if ax is None:
                        tag = 'flattened'
                    elif c['shape'][ax] == 1 and len(c['data']) > 1:
                        tag = 'len1-axis'
                    elif ax == nd - 1:
                        tag = 'last-axis'
                    elif ax <= nd - 3:
                        tag = 'axis<=ndim-3'
                    else:
                        tag = 'axis=ndim-2'
                    cls = '%s %s %dd %s' % (c['fn'], c['type'], nd, tag)
                    if 'exc' in r:
                        ctx.violation('np-%s-raises %s' % (c['fn'], cls), dict(key, exc=r['exc']))
                    elif r['got'] != r['want'] or r['gshape'] != r['wshape']:
                        ctx.violation('np-%s-wrong %s' % (c['fn'], cls), dict(key, got=r['got'], want=r['want']))
                    ctx.case(key, nontrivial=len(c['data']) >= 2, kind='secure array ' + cls)
                np_done = True
        except Exception as e:   # noqa
            ctx.notes.append('np_sort run failed: %r' % (e,))
            ctx.broken.append({'kind': 'harness', 'what': 'NumPy interpreter run of np_sort failed', 'detail': repr(e)})
    else:
        ctx.notes.append('NumPy interpreter %s absent: np_sort / secure-array stream SKIPPED' % PYNP)
    ctx.notes.append('np_sort tied in the NumPy interpreter: %s' % np_done)

    # ------------------------------------------------------------------ Coq model on the same inputs
    ctx.log('%d cases on the implementation; evaluating %d model expressions in Coq' % (ctx.evaluations, len(exprs)))
    if ok:
        res = ctx.coq_eval(['MPyC.SortNet', 'MPyC.Tournament'], exprs, preamble=preamble, chunk=40)
        mism = 0

        def opt(v):   # Some x -> x ; None -> 'ERR:Value'
            if v is None:
                return 'ERR:Value'
            if isinstance(v, tuple) and v and v[0] == 'Some':
                return v[1]
            return v

        for r, mt in zip(res, meta):
            if isinstance(r, tuple) and r and r[0] == 'ERROR':
                mism += 1
                ctx.broken.append({'kind': 'correspondence', 'what': 'coq evaluation failed', 'case': str(mt)[:300], 'detail': r[1]})
                continue
            if mt[0] == 'net':
                n = mt[1]
                if r is not True:
                    mism += 1
                    ctx.broken.append({'kind': 'correspondence', 'what': 'comparator sequence of _sort differs from merge_exchange_opt',
                                       'n': n, 'impl': str(nets[n])[:400]})
                ctx.case({'net': n}, nontrivial=n >= 2, kind='comparator sequence vs Coq')
            elif mt[0] == 'apply':
                if r != mt[2]:
                    mism += 1
                    ctx.broken.append({'kind': 'correspondence', 'what': 'apply_net', 'input': mt[1], 'model': r, 'impl': mt[2]})
            elif mt[0] == 'sorted':
                rr = [list(e) if isinstance(e, tuple) else e for e in r]
                if rr != mt[2]:
                    mism += 1
                    ctx.broken.append({'kind': 'correspondence', 'what': 'sorted', 'case': mt[1], 'model': rr, 'impl': mt[2]})
            elif mt[0] == 'sel':
                fn = mt[1]['fn']
                if fn == 'min_max':
                    a, b = r
                    m = 'ERR:Value' if a is None or b is None else (opt(a), opt(b))
                else:
                    m = opt(r)
                if m != mt[2]:
                    mism += 1
                    ctx.broken.append({'kind': 'correspondence', 'what': fn, 'case': mt[1], 'model': str(m), 'impl': str(mt[2])})
            elif mt[0] == 'selp':
                m = (opt(r[0]), opt(r[1])) if mt[1]['fn'] == 'min_max' else opt(r)
                if m != mt[2]:
                    mism += 1
                    ctx.broken.append({'kind': 'correspondence', 'what': mt[1]['fn'] + ' on pairs', 'case': mt[1], 'model': str(m), 'impl': str(mt[2])})
        ctx.extra['traces_validated_against_impl'] = len(exprs) - mism
        ctx.log('model/implementation disagreements: %d' % mism)
    if ctx.broken and not ctx.violations:
        ctx.unproved('C29 model/proof', {'broken': ctx.broken[:5]})
