"""C13 — any t Shamir shares reveal nothing about the secret.

Proof: coq/props/C13.v (bijection coefficients <-> any t shares, for every secret, abstract field).
Tie: (i) the Coq-computed explicit preimage `psi` is fed as randbelow tape into the REAL
thresha.random_split, which must then hand the coalition exactly the prescribed shares;
(ii) exhaustive enumeration of all dealer tapes through the real random_split for small fields:
every coalition's view histogram must be flat and identical for all secrets.
"""
import itertools
from lib.core import zlist, natlit, zlit
from props.c12 import Tape

MANIFEST = {
    'text': 'Theorem (Coq, abstract field, all t and all coalitions): for every secret the map from the t random '
            'coefficients to any t parties\' shares is a bijection (explicit inverse by interpolation; injectivity via a '
            'coefficient-level root bound), and for fewer than t parties every view has the same number of preimages; so '
            'the view of <= t parties is uniform and independent of the secret when coefficients are uniform. The '
            'explicit inverse is replayed through the real random_split every run; small fields are enumerated exhaustively, for thresha.random_split and (under NumPy) thresha.np_random_split.',
    'note': 'Trusted: Coq kernel; the random_split model (tied to thresha by C12\'s exact correspondence and by replaying psi '
            'here); uniformity of secrets.randbelow is an oracle assumption; "uniform distribution" is stated as the counting '
            'fact (exactly one coefficient vector per view), not in a probability library.',
    'technique': 'Coq proof of bijection (interpolation + coefficient root bound) + replay of the inverse on the implementation + exhaustive tape enumeration',
}


def run(ctx):
    from mpyc import thresha, finfields
    import secrets as _secrets
    ok = ctx.build(['MPyC.Exec']) and ctx.check_props()
    rng = ctx.rng
    ctx.rule = ('(a) exhaustive: every (field, t>=1, m, batch of 1-2 secrets, every answer sequence of the randomness oracle with exact '
                'probabilities) for small fields, every coalition of size <= t; '
                '(b) replay: random (prime field, t, m, coalition, secret, target shares) -> Coq psi -> real random_split; '
                'non-trivial when t >= 1 (all are)')
    ctx.explanation = 'bijection theorem over an abstract field; inverse replayed on thresha.random_split'
    # ---- (a) exhaustive enumeration on the implementation: every sequence of answers of the randomness
    #      oracle (whatever `secrets` function the code calls, with whatever argument), with exact probabilities
    from fractions import Fraction

    class NeedMore(Exception):
        pass

    class Oracle:
        def __init__(self, prefix):
            self.prefix, self.pos, self.prob = prefix, 0, Fraction(1)

        def _next(self, n_outcomes):
            if self.pos >= len(self.prefix):
                e = NeedMore()
                e.n = n_outcomes
                raise e
            v = self.prefix[self.pos]
            self.pos += 1
            self.prob /= n_outcomes
            return v

        def randbelow(self, n):
            return self._next(n)

        def randbits(self, k):
            return self._next(1 << k)

        def choice(self, seq):
            return seq[self._next(len(seq))]

        def token_bytes(self, n=32):
            return self._next(256 ** n).to_bytes(n, 'little')

    def all_runs(fn, limit):
        """Depth-first enumeration of all oracle answer sequences; yields (result, probability)."""
        stack = [()]
        count = 0
        while stack:
            prefix = stack.pop()
            orc = Oracle(prefix)
            thresha.secrets = orc
            try:
                r = fn()
            except NeedMore as e:
                if e.n > limit:
                    raise RuntimeError('oracle outcome space too large: %d' % e.n)
                stack.extend(prefix + (v,) for v in range(e.n))
                continue
            count += 1
            yield r, orc.prob

    small = [('GF(3)', finfields.GF(3), 3), ('GF(5)', finfields.GF(5), 5), ('GF(7)', finfields.GF(7), 7),
             ('GF(2^2)', finfields.GF(finfields.find_irreducible(2, 2)), 4),
             ('GF(2^3)', finfields.GF(finfields.find_irreducible(2, 3)), 8),
             ('GF(3^2)', finfields.GF(finfields.find_irreducible(3, 2)), 9)]
    maxm = ctx.n(4, 5)
    n_enum = 0
    try:
        import numpy as np
    except ImportError:
        np = None
    variants = [('list', lambda F, ss, t, m: thresha.random_split(F, [F(s) for s in ss], t, m))]
    if np is not None and hasattr(thresha, 'np_random_split'):
        def np_split(F, ss, t, m):
            sh = thresha.np_random_split(F, F.array([F(s).value for s in ss], check=False), t, m)
            return [list(row) for row in sh]
        variants.append(('np', np_split))
    else:
        ctx.notes.append('NumPy not importable: np_random_split not enumerated in this run')
    for variant, split in variants:
      for name, F, q in small:
        for m in range(2, min(maxm, q - 1) + 1):
            for t in range(1, m):
                for batch in (1, 2):
                    if q ** (t * batch) * q ** batch > ctx.n(20000, 200000) // (2 if variant == 'np' else 1):
                        continue
                    coalitions = [C for r in range(1, t + 1) for C in itertools.combinations(range(m), r)]
                    ref = None
                    for ss in itertools.product(range(q), repeat=batch):
                        hist = {C: {} for C in coalitions}
                        total = Fraction(0)
                        for sh, prob in all_runs(lambda: split(F, ss, t, m), 4096):
                            vals = [tuple(str(F(v) if not isinstance(v, F) else v) for v in sh[i]) for i in range(m)]
                            for C in coalitions:
                                v = tuple(vals[i] for i in C)
                                hist[C][v] = hist[C].get(v, 0) + prob
                            total += prob
                            n_enum += 1
                        for C in coalitions:
                            want = Fraction(1, q ** (len(C) * batch))
                            if total != 1 or len(hist[C]) != q ** (len(C) * batch) or set(hist[C].values()) != {want}:
                                worst = sorted(hist[C].items(), key=lambda kv: kv[1])
                                ctx.violation('view-not-uniform %s t=%d m=%d batch=%d%s' % (name, t, m, batch, '' if variant == 'list' else ' np_random_split'),
                                              {'field': name, 't': t, 'm': m, 'secrets': list(ss), 'coalition': list(C), 'variant': variant,
                                               'distinct_views': len(hist[C]), 'expected_views': q ** (len(C) * batch),
                                               'least_likely': [str(worst[0][0]), str(worst[0][1])],
                                               'most_likely': [str(worst[-1][0]), str(worst[-1][1])]})
                        if ref is None:
                            ref = hist
                        elif hist != ref:
                            ctx.violation('view-depends-on-secret %s t=%d m=%d batch=%d%s' % (name, t, m, batch, '' if variant == 'list' else ' np_random_split'),
                                          {'field': name, 't': t, 'm': m, 'secrets': list(ss), 'variant': variant})
                        ctx.case({'field': name, 't': t, 'm': m, 'secrets': list(ss), 'variant': variant}, kind='exhaustive %s %s' % (variant, name))
    thresha.secrets = _secrets
    ctx.extra['exhaustive'] = True
    ctx.extra['dealer_tapes_enumerated'] = n_enum
    ctx.log('exhaustive enumeration: %d complete oracle-answer sequences through random_split%s' % (n_enum, ' and np_random_split' if len(variants) > 1 else ''))
    # ---- (b) replay of the explicit inverse
    primes = [5, 7, 11, 101, 257, 2**61 - 1, 18446744073709551557]
    cases, exprs = [], []
    for p in primes:
        for rep in range(ctx.n(6, 20)):
            m = rng.randint(2, min(7, p - 1))
            t = rng.randint(1, m - 1)
            C = sorted(rng.sample(range(m), t))
            s = rng.choice([0, 1, p - 1, rng.randrange(p)])
            ys = [rng.choice([0, p - 1, rng.randrange(p)]) for _ in C]
            cases.append((p, m, t, C, s, ys))
            exprs.append('zp_psi %s %s [%s] %s' % (zlit(p), zlit(s), '; '.join(natlit(i + 1) for i in C), zlist(ys)))
    if ok:
        res = ctx.coq_eval(['MPyC.Exec'], exprs, chunk=40)
        bad = 0
        for (p, m, t, C, s, ys), tape in zip(cases, res):
            key = {'p': p, 'm': m, 't': t, 'coalition': C, 'secret': s, 'targets': ys}
            ctx.case(key, kind='replay psi')
            if not isinstance(tape, list) or len(tape) != t:
                bad += 1
                ctx.broken.append({'kind': 'correspondence', 'what': 'psi evaluation', 'case': key, 'got': str(tape)[:200]})
                continue
            F = finfields.GF(p)
            tp = Tape(tape)
            thresha.secrets = tp
            sh = thresha.random_split(F, [s], t, m)
            thresha.secrets = _secrets
            got = [int(sh[i][0]) % p for i in C]
            if got != ys:
                bad += 1
                ctx.broken.append({'kind': 'correspondence', 'what': 'random_split(psi) != targets', 'case': key,
                                   'tape': tape, 'got': got})
        ctx.extra['traces_validated_against_impl'] = len(cases) - bad
        ctx.log('replayed %d Coq-computed preimages through random_split, %d disagreements' % (len(cases), bad))
    if ctx.broken and not ctx.violations:
        ctx.unproved('C13 bijection theorem / psi replay', {'broken': ctx.broken[:5]})
