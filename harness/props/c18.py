"""C18 — values opened inside protocols are statistically masked (distance about 2^-k).

Proof: coq/props/C18.v over coq/theories/Stat.v (counting definition of statistical distance over Z
intervals; sd_shift, mask_bits_suffice, uniform_mod_perfect, mult_blind, row obligations).
Tie: coq/gen/MaskTable.v is REGENERATED on every run by harness/gen_mask_table.py from the source of
runtime.py / random.py / statistics.py (every internal `output(` call is a row; an unknown or changed
site is an error); each row's obligation is compiled by coqc; the mask-bound arithmetic of each row is
compared with the bounds the real protocols pass to _randoms / prfs / secrets.randbelow in the m-party
simulator.  Search: for a row whose obligation fails the protocol is run on two secrets with equal
outputs and the opened values are compared (threshold distinguisher).
"""
import collections
import os, sys, json, subprocess, time, math
from concurrent.futures import ThreadPoolExecutor

MANIFEST = {
    'text': 'Coq theorems (Stat.v, unbounded in all integer parameters): statistical distance between a+U[0,R) and a\'+U[0,R) as a '
            'counting equation = min(|a-a\'|,R)/R (sd_shift/sd_abs); mask exceeding the secret range by k bits up to s bits of slack '
            'gives SD*2^k <= 2^s (mask_range_suffices, mask_bits_suffice); (a+r) mod N and a*r mod p are bijections in r '
            '(uniform_mod_perfect, mult_blind); a uniform summand unknown to the coalition suffices whatever the other summands are '
            '(sum_of_uniforms_contains_uniform); row obligation row_ok_at implies the SD bound (row_ok_additive_sound); power-of-two '
            'bounds through _randoms lose at most ceil(log2 d) bits for all e, d (eff_bound_pow2, pow2_row_ok). Every internal output() call of runtime.py, '
            'random.py, statistics.py is translated on each run into a row (mask bound and scale parsed from the source with Python '
            'precedence; secret range and lemma kind from a checked annotation table); per row the obligation mask_range*2^slack >= '
            'secret_range*2^k (and, where a range cap is stated, secret + all summands <= cap) is compiled as a Coq theorem over the stated grid (L in 1..64, l in {L,(L+1)/2,1}, k in {8,16,30,40}, '
            'all 2t<m<=9, PRSS on/off) and the row\'s bound arithmetic is compared with the bounds logged from the real protocols in the '
            'multi-party simulator. Second generated table: every output(V, threshold=..) whose V is a local product of sharings must be '
            'rerandomised (zero sharing / reshare) on every path by a FRESH zero sharing (one generation masks one opening; '
            'zero_sharing_reuse_leaks_refuted, GF(7)); exhaustive GF(11) counting theorems unrerandomised_product_leaks_refuted '
            '(views of two nonzero secrets overlap in 110 of 1210 tapes) and rerandomised_product_uniform justify the obligation; '
            'failing sites are replayed (m=3, t=1: party 0 reconstructs and factors the product polynomial). Threshold changed by the '
            'program before start() (m=5, 1->2 and 2->1): every PRSS share / zero sharing logged at all parties must have exactly the degree of '
            'the threshold in force, and the coalition {0,1} must not recover the is_zero_public secret from its own shares of r. Shares '
            'received: thresha.random_split / np_random_split (the dealing behind input() and _reshare(), call sites read from the source) '
            'on GF(5,7,11,13) m=3 t=1 and GF(7) m=5 t=2 with the randomness oracle enumerated exhaustively: the exact view distribution of '
            'every coalition of <= t parties must be uniform and identical for all secrets. The uniform low part of _mod\'s mask (r_modb = '
            'random._randbelow): the restart statement after a public rejection is translated from the source and must equal the model\'s '
            '(keep x[:i], draw k-i bits; uniformity of that model is C33), and the exact output distribution of the real _randbelow for '
            'b = 3,5,6,7 over all bit tapes up to 12 bits must be uniform. Joint view of the n openings of ONE list/array truncation: '
            'theorems C18_low_masks_range/injective/surjective (theories/MaskBits.v, all f and n): the as-coded map from the f*n shared '
            'random bits to the n low masks (disjoint slices r_bits[f*j:f*(j+1)]) is a bijection onto [0,2^f)^n, so the masks are uniform '
            'and mutually independent; tie: the linear response of the real openings of trunc/np_trunc (int and fixed-point, random f, n) and np_to_bits (secint arrays, l bits per element, mask subtracted) to '
            'every unit bit vector and to random bit vectors must equal low_masks evaluated by vm_compute.',
    'note': 'Per-opening bounds are proved; composition across a whole adaptive program is the union bound over openings, stated not '
            'mechanised. PRF (SHAKE-128) outputs and `secrets` draws being uniform and independent are oracle assumptions; that a '
            'coalition of <= t parties misses one PRSS key / one of the t+1 dealers is taken from C16, not re-proved. Row obligations '
            'are vm_compute theorems over the grid stated in the theorem (not for all l,k); the general power-of-two shape is proved '
            'symbolically (eff_bound_pow2). Secret ranges, the choice of mask variable and the lemma kind per site are annotations in '
            'gen_mask_table.py (trusted, but each local-name meaning and data-flow statement is checked against the source). '
            'Multiplicative / full-field / by-design openings carry no numeric obligation beyond bound=None; np_det is recorded only. '
            'The np-pow row takes the scale of r from `b + r` (1); for fixed-point exponents the array constructor scales r by 2^f, which the '
            'row ignores (conservative: it fails with and without that factor). F-C18-1 (np pow precedence) is fixed in /repo; open findings: _mod and sincos masks (F-C18-2/3) and six functions that '
            'open an un-rerandomised product with threshold 2t for medium/large fields (F-C18-5..10). to_bits on binary fields: rows '
            'assume the precondition a < 2^l (nothing above bit l is secret). The product-opening theorems are toy-size exhaustive '
            'counts (p=11, m=3, t=1), not a general proof; the per-site rerandomisation obligation is a syntactic data-flow rule. Shares received by the coalition are checked exactly only for the dealing function on small prime fields (see C13/C15 for the general statements). NumPy sites are run only when .venv-np exists. The bit-layout stream runs single-party (shares are values) with random_bits/_randoms replaced by chosen values; only trunc/np_trunc/np_to_bits (secint) are covered by it (np_sgn/np_is_zero bit layouts are not).',
    'technique': 'Coq counting proof of statistical distance + bijection proof for the bit layout of list truncation masks + source-regenerated mask table with per-row compiled obligations + simulator correspondence of mask bounds and bit layout (vm_compute)',
}

HERE = os.path.dirname(os.path.abspath(__file__))
HARNESS = os.path.dirname(HERE)
VARS = ['VL', 'Vl', 'Vk', 'Vf', 'Vt', 'Vm', 'Vb', 'Vn']

# ------------------------------------------------------------------------------------------------
# scenarios: one protocol call on a genuinely shared secret; `env` gives the row's canonical variables
#   typ: ('int', L) | ('fxp', L) | ('fld', order) ; call: name handled in _call()
#   pair: two secrets with equal program outputs (used by the search when the row's obligation fails)

SCEN = [
    dict(name='sgn', site='runtime.sgn#0', func='sgn', typ=('int', 32), env=dict(VL=32, Vl=32), secret=-5, pair=(5, 2**30 + 5)),
    dict(name='sgn_l7', site='runtime.sgn#0', func='sgn', typ=('int', 32), args=dict(l=7), env=dict(VL=32, Vl=7), secret=-37),
    dict(name='trunc_int', site='runtime.trunc#0', func='trunc', typ=('int', 32), args=dict(f=5), env=dict(VL=32, Vl=32, Vf=5),
         secret=12345, pair=(3, 2**30 + 3), discard=True),
    dict(name='trunc_fxp', site='runtime.trunc#0', func='trunc', typ=('fxp', 32), env=dict(VL=32, Vl=48, Vf=16), secret=3.25),
    dict(name='lsb', site='runtime.lsb#0', func='lsb', typ=('int', 32), env=dict(VL=32, Vl=32), secret=77, pair=(1, 2**30 + 1)),
    dict(name='mod3', site='runtime._mod#0', func='_mod', typ=('int', 32), args=dict(b=3), env=dict(VL=32, Vb=3), secret=100,
         pair=(1, 1 + 3 * 2**29)),
    dict(name='mod1000', site='runtime._mod#0', func='_mod', typ=('int', 32), args=dict(b=1000), env=dict(VL=32, Vb=1000), secret=-98765),
    dict(name='tz', site='runtime.trailing_zeros#0', func='trailing_zeros', typ=('int', 32), env=dict(VL=32, Vl=32), secret=48,
         pair=(16, 2**30 + 16)),
    dict(name='tz_l5', site='runtime.trailing_zeros#0', func='trailing_zeros', typ=('int', 32), args=dict(l=5), env=dict(VL=32, Vl=5), secret=48),
    dict(name='tobits', site='runtime.to_bits#1', func='to_bits', typ=('int', 32), env=dict(VL=32, Vl=32), secret=-3,
         pair=(5, 2**30 + 5), discard=True),
    dict(name='tobits_l5', site='runtime.to_bits#1', func='to_bits', typ=('int', 32), args=dict(l=5), env=dict(VL=32, Vl=5), secret=1000,
         pair=(5, 2**30 + 5)),
    dict(name='tobits_fld', site='runtime.to_bits#0', func='to_bits', typ=('fld', 2**8), env=dict(VL=8, Vl=8), secret=0xA5),
    dict(name='tobits_fld_l2', site='runtime.to_bits#0', func='to_bits', typ=('fld', 2**8), args=dict(l=2), env=dict(VL=8, Vl=2), secret=0x03),
    dict(name='convert', site='runtime._convert#0/%(prss)s', func='_convert', typ=('int', 16), args=dict(to=('int', 32)),
         env=dict(VL=16, Vl=16), secret=-1234, pair=(7, 2**14 + 7)),
    dict(name='convert_fld', site='runtime._convert#0/field', func='_convert', typ=('fld', 101), args=dict(to=('int', 32)),
         env=dict(VL=7, Vl=7), secret=55),
    dict(name='izp_large', site='runtime.is_zero_public#1', func='is_zero_public', typ=('int', 32), env=dict(VL=32), secret=9),
    dict(name='izp_med', site='runtime.is_zero_public#1', func='is_zero_public', typ=('fld', 2**31 - 1), env=dict(VL=31), secret=9),
    dict(name='izp_small', site='runtime.is_zero_public#1', func='is_zero_public', typ=('fld', 101), env=dict(VL=7), secret=0),
    dict(name='recip', site='runtime.reciprocal#0', func='reciprocal', typ=('fld', 2**61 - 1), env=dict(VL=61), secret=12345),
    dict(name='recip_small', site='runtime.reciprocal#0', func='reciprocal', typ=('fld', 101), env=dict(VL=7), secret=7),
    dict(name='iszero', site='runtime._is_zero#0', func='_is_zero', typ=('int', 32), env=dict(VL=32), secret=0),
    dict(name='sincos', site='runtime.sincos#0', func='sincos', typ=('fxp', 32), env=dict(VL=32, Vf=16), secret=0.5,
         pair=(0.5, 0.5 + 2 * math.pi * 2000)),
    dict(name='np_trunc', np=True, site='runtime.np_trunc#0', func='np_trunc', typ=('int', 32), args=dict(f=5), env=dict(VL=32, Vl=32, Vf=5), secret=[12345, -7]),
    dict(name='np_sgn', np=True, site='runtime.np_sgn#0', func='np_sgn', typ=('int', 32), env=dict(VL=32, Vl=32), secret=[-5, 9]),
    dict(name='np_lsb', np=True, prss_only=True, site='runtime.np_lsb#0', func='np_lsb', typ=('int', 32), env=dict(VL=32, Vl=32), secret=[77, 4]),
    dict(name='np_to_bits', np=True, site='runtime.np_to_bits#1', func='np_to_bits', typ=('int', 32), env=dict(VL=32, Vl=32), secret=[-3, 6]),
    dict(name='np_izp', np=True, site='runtime.np_is_zero_public#1', func='np_is_zero_public', typ=('int', 32), env=dict(VL=32), secret=[0, 6]),
    dict(name='np_recip', np=True, site='runtime.np_reciprocal#0', func='np_reciprocal', typ=('fld', 2**61 - 1), env=dict(VL=61), secret=[3, 6]),
    dict(name='np_iszero', np=True, site='runtime._np_is_zero#0', func='_np_is_zero', typ=('int', 32), env=dict(VL=32), secret=[0, 6]),
    # NB secfxp (integral) exponents: with secint arrays non-senders crash in this protocol for m > 1 (type(b)(..., integral=True))
    dict(name='np_pow', np=True, site='runtime._np_pow_public_int_base_secret_integral_exponent#0',
         func='_np_pow_public_int_base_secret_integral_exponent', typ=('fxp', 32), args=dict(base=-1), env=dict(VL=32, Vl=32, Vf=16), secret=[4, 7],
         pair=([2], [2 + 2**14]), search_mt=(5, 2)),
    dict(name='np_unit_vector', np=True, site='runtime.np_unit_vector#0', func='np_unit_vector', typ=('int', 32), args=dict(n=5),
         env=dict(VL=32, Vn=5), secret=3),
]
SCEN_BY_NAME = {s['name']: s for s in SCEN}
SITE_FUNCS = {s['func'] for s in SCEN}


# ------------------------------------------------------------------------------------------------
# worker: runs inside a (possibly NumPy-enabled) interpreter; JSON in on stdin, `RESULT json` out

def _site_frame(depth=2):
    f = sys._getframe(depth)
    while f is not None:
        nm = f.f_code.co_name
        if nm in SITE_FUNCS and 'mpyc' in f.f_code.co_filename:
            return nm
        f = f.f_back
    return None


def _caller_name(depth=2):
    f = sys._getframe(depth)
    while f is not None and f.f_code.co_name.startswith('<'):
        f = f.f_back
    return f.f_code.co_name if f else None


def _toint(v):
    if hasattr(v, 'value'):
        v = v.value
    if hasattr(v, 'flat'):
        return [int(x) for x in v.flat]
    if isinstance(v, (list, tuple)):
        return [_toint(x) for x in v]
    try:
        return int(v)
    except Exception:
        return str(v)


class _SecretsProxy:
    def __init__(self, sec, log):
        self._sec, self._log = sec, log

    def randbelow(self, n):
        who = _caller_name()
        self._log.append(('eff', _site_frame(), n, 'randoms' if who in ('_randoms', '_np_randoms') else 'direct'))
        return self._sec.randbelow(n)

    def __getattr__(self, a):
        return getattr(self._sec, a)


def _install(sim, i, log):
    mpc, mods = sim.mpcs[i], sim.mods[i]
    cls = type(mpc)
    mods['mpyc.runtime'].secrets = _SecretsProxy(sim.secrets[i], log)
    for nm, idx in (('_randoms', 2), ('_np_randoms', 2)):
        orig = getattr(cls, nm)

        def wrapped(self, sftype, n, bound=None, _o=orig):
            log.append(('passed', _site_frame(), bound))
            return _o(self, sftype, n, bound)
        wrapped.__name__ = nm + '_logged'
        setattr(cls, nm, wrapped)
    oprfs = cls.prfs

    def prfs(self, bound, _o=oprfs):
        who = _caller_name()
        if who in ('_randoms_logged', '_np_randoms_logged'):
            who = _caller_name(3)
        log.append(('eff', _site_frame(), bound, 'randoms' if who in ('_randoms', '_np_randoms') else 'direct'))
        return _o(self, bound)
    cls.prfs = prfs
    oout = cls.output

    def output(self, x, receivers=None, threshold=None, raw=False, _o=oout):
        who = _caller_name()
        fut = _o(self, x, receivers, threshold, raw)
        if who in SITE_FUNCS:
            async def w():
                v = await fut
                log.append(('open', who, _toint(v)))
                return v
            return w()
        return fut
    cls.output = output


def _mk_type(mpc, typ):
    if typ[0] == 'int':
        return mpc.SecInt(typ[1])
    if typ[0] == 'fxp':
        return mpc.SecFxp(typ[1])
    return mpc.SecFld(typ[1])


async def _call(mpc, mods, sc, secret):
    """Run one protocol call on a shared secret; returns canonical output (or None when discarded)."""
    st = _mk_type(mpc, sc['typ'])
    args = sc.get('args', {})
    fn = sc['func']
    if sc.get('np'):
        np = mods['mpyc.numpy'].np
        if fn == 'np_unit_vector':
            a = mpc.input(st(secret), senders=0)
            return _toint(await mpc.output(mpc.np_unit_vector(a, args['n'])))
        arr = st.array(np.array(secret))
        a = mpc.input(arr, senders=0)
        if fn == 'np_trunc':
            r = mpc.np_trunc(a, f=args['f'])
        elif fn == '_np_pow_public_int_base_secret_integral_exponent':
            r = mpc.np_pow(args['base'], a)
        elif fn == 'np_is_zero_public':
            return _toint(await mpc.np_is_zero_public(a))
        else:
            r = getattr(mpc, fn)(a)
        return _toint(await mpc.output(r))
    a = mpc.input(st(secret), senders=0)
    if fn == 'sgn':
        r = mpc.sgn(a, **args)
    elif fn == 'trunc':
        r = mpc.trunc(a, **args)
    elif fn == '_mod':
        r = mpc._mod(a, args['b'])
    elif fn in ('trailing_zeros', 'to_bits'):
        r = getattr(mpc, fn)(a, **args)
    elif fn == '_convert':
        r = mpc.convert(a, _mk_type(mpc, args['to']))
    elif fn == 'is_zero_public':
        return bool(await mpc.is_zero_public(a))
    elif fn == 'sincos':
        s, c = mpc.sincos(a)
        v = await mpc.output([s, c])
        return [round(float(x), 2) for x in v]
    else:
        r = getattr(mpc, fn)(a)
    if sc.get('discard'):
        await mpc.gather(r)
        return None
    v = await mpc.output(r)
    if sc['typ'][0] == 'fxp' and fn != 'to_bits':
        return [float(x) for x in v] if isinstance(v, list) else float(v)
    return _toint(v)


def worker(cfg):
    sys.path.insert(0, HARNESS)
    from lib.sim import Sim
    m, t, no_prss, K, seed = cfg['m'], cfg['t'], cfg['no_prss'], cfg.get('K'), cfg.get('seed', 0)
    steps = cfg['steps']          # [(scenario name, secret, reps)]
    sim = Sim(m=m, t=t, no_prss=no_prss, seed=seed, extra=(['-K', str(K)] if K else []), log_messages=False, track_tasks=False)
    logs = [[] for _ in range(m)]
    marks = [[] for _ in range(m)]
    out = {'steps': [], 'k': None}
    try:
        for i in range(m):
            _install(sim, i, logs[i])
        try:
            have_np = bool(sim.mods[0]['mpyc.numpy'].np)
        except Exception:
            have_np = False
        sim.start()
        out['k'] = sim.mpcs[0].options.sec_param

        partial = [[] for _ in range(m)]

        async def prog(mpc, mods, pid):
            res = partial[pid]
            for (name, secret, reps) in steps:
                sc = SCEN_BY_NAME[name]
                if sc.get('np') and not have_np:
                    marks[pid].append((len(logs[pid]), len(logs[pid])))
                    res.append('NO-NUMPY')
                    continue
                lo = len(logs[pid])
                r = []
                try:
                    for _ in range(reps):
                        r.append(await _call(mpc, mods, sc, secret))
                except Exception as exc:  # noqa
                    r = ('EXC', repr(exc))
                marks[pid].append((lo, len(logs[pid])))
                res.append(r)
            return res
        final = sim.run(prog)
        res = []
        for pid in range(m):
            r = list(partial[pid])
            while len(r) < len(steps):
                r.append('NOT-RUN' if len(r) > len(partial[pid]) else ('EXC', 'stuck: %r' % (final[pid],)))
                marks[pid].append((len(logs[pid]), len(logs[pid])))
            res.append(r)
        try:
            if all(f != 'PENDING' for f in final):
                sim.shutdown()
        except Exception:
            pass
    finally:
        sim.close()
    for si, (name, secret, reps) in enumerate(steps):
        sc = SCEN_BY_NAME[name]
        ev = {'passed': [], 'eff': [], 'open': []}
        results = []
        for pid in range(m):
            results.append(res[pid][si])
            lo, hi = marks[pid][si]
            for e in logs[pid][lo:hi]:
                if e[1] != sc['func']:
                    continue
                if e[0] == 'passed':
                    ev['passed'].append(e[2])
                elif e[0] == 'eff':
                    ev['eff'].append([e[2], e[3]])
                elif e[0] == 'open' and pid == m - 1:
                    ev['open'].append(e[2])
        out['steps'].append({'name': name, 'results': results, 'events': ev})
    return out


# ------------------------------------------------------------------------------------------------
# product openings: what ONE party (pid 0, m = 3, t = 1) receives when a local product of two degree-t
# sharings is opened with threshold 2t

PROD_SCEN = {
    'is_zero_public': dict(func='is_zero_public', typ=('fld', 2**61 - 1), secrets=(5, 11)),
    'is_zero_public/secint': dict(func='is_zero_public', typ=('int', 32), secrets=(5, 11)),
    'reciprocal': dict(func='reciprocal', typ=('fld', 2**61 - 1), secrets=(5, 11)),
    '_is_zero': dict(func='_is_zero', typ=('int', 32), secrets=(5, 11)),
    'np_is_zero_public': dict(func='np_is_zero_public', typ=('fld', 2**61 - 1), secrets=(5, 11), np=True),
    'np_reciprocal': dict(func='np_reciprocal', typ=('fld', 2**61 - 1), secrets=(5, 11), np=True),
    '_np_is_zero': dict(func='_np_is_zero', typ=('int', 32), secrets=(5, 11), np=True),
    # small fields with PRSS: both openings (r*s and a*r) get a pseudorandom zero sharing; used when a row is 'RReused'
    'is_zero_public/small': dict(func='is_zero_public', typ=('fld', 1009), secrets=(5, 11), prss_only=True),
    'np_is_zero_public/small': dict(func='np_is_zero_public', typ=('fld', 1009), secrets=(5, 11), np=True, prss_only=True),
}


def worker_product(cfg):
    """Runs func on each secret `reps` times; returns what party 0 sees at the opening of the product:
    the 2t+1 points handed to recombine (2t received shares + its own), its own shares of the operands."""
    sys.path.insert(0, HARNESS)
    from lib.sim import Sim
    sc = PROD_SCEN[cfg['scen']]
    m, t = 3, 1
    sim = Sim(m=m, t=t, no_prss=cfg['no_prss'], seed=cfg.get('seed', 0), extra=(['-K', str(cfg['K'])] if cfg.get('K') else []),
              log_messages=False, track_tasks=False)
    recs, opens = [], []
    out = {'runs': [], 'p': None, 'k': None}
    try:
        mpc0, mods0 = sim.mpcs[0], sim.mods[0]
        try:
            have_np = bool(mods0['mpyc.numpy'].np)
        except Exception:
            have_np = False
        if sc.get('np') and not have_np:
            return {'skipped': 'no numpy'}
        th = mods0['mpyc.thresha']
        for nm in ('recombine', 'np_recombine'):
            orig = getattr(th, nm)

            def rec(field, points, x_rs=0, _o=orig):
                recs.append([(int(x), _toint(v)) for x, v in points])
                return _o(field, points, x_rs)
            setattr(th, nm, rec)
        cls = type(mpc0)
        oout = cls.output

        def output(self, x, receivers=None, threshold=None, raw=False, _o=oout):
            f = sys._getframe(1)
            while f is not None and f.f_code.co_name.startswith('<'):
                f = f.f_back
            who = f.f_code.co_name if f else None
            fut = _o(self, x, receivers, threshold, raw)
            if who == sc['func'] and threshold is not None:
                loc = {}
                for nm in ('a', 'r', 'z', 'u2'):
                    if nm in f.f_locals:
                        try:
                            loc[nm] = _toint(f.f_locals[nm])
                        except Exception:
                            pass

                async def w():
                    v = await fut
                    if 'r' not in loc and snap:
                        loc.update(snap)
                    opens.append({'opened': _toint(v), 'points': recs[-1] if recs else None, 'locals': loc,
                                  'threshold': threshold})
                    return v
                return w()
            return fut
        cls.output = output
        snap = {}
        if sc['func'] == '_np_is_zero':
            # the operands are deleted before the opening: take party 0's local values from a line tracer on that frame
            code0 = cls._np_is_zero.__wrapped__.__code__ if hasattr(cls._np_is_zero, '__wrapped__') else None

            def local_tracer(frame, event, arg):
                loc = frame.f_locals
                if all(nm in loc for nm in ('a', 'r', 'z', 'u2')) and hasattr(loc['u2'], 'shape') and hasattr(loc['r'], 'shape') \
                        and getattr(loc['r'], 'ndim', 0) == 2 and getattr(loc['u2'], 'ndim', 0) == 2:
                    snap.update({nm: _toint(loc[nm]) for nm in ('a', 'r', 'z', 'u2')})
                return local_tracer

            def tracer(frame, event, arg):
                if frame.f_code.co_name == '_np_is_zero' and 'mpyc' in frame.f_code.co_filename and frame.f_locals.get('self') is mpc0:
                    return local_tracer
                return None
            sys.settrace(tracer)
        sim.start()
        out['k'] = mpc0.options.sec_param

        async def prog(mpc, mods, pid):
            st = _mk_type(mpc, sc['typ'])
            res = []
            for secret in cfg['secrets']:
                for _ in range(cfg['reps']):
                    lo = len(opens)
                    if sc.get('np'):
                        np = mods['mpyc.numpy'].np
                        a = mpc.input(st.array(np.array([secret])), senders=0)
                    else:
                        a = mpc.input(st(secret), senders=0)
                    own = await mpc.gather(a)
                    if sc['func'] in ('is_zero_public', 'np_is_zero_public'):
                        r = _toint(await getattr(mpc, sc['func'])(a))
                    else:
                        r = await mpc.gather(getattr(mpc, sc['func'])(a))      # result stays secret: equal (empty) outputs
                        r = None
                    if pid == 0:
                        out['p'] = int(st.field.modulus)
                        res.append({'secret': secret, 'own_share_a': _toint(own), 'output': r, 'opens': opens[lo:]})
            return res
        res = sim.run(prog)
        sys.settrace(None)
        out['runs'] = res[0] if isinstance(res[0], list) else []
        if not isinstance(res[0], list):
            out['error'] = str(res)[:500]
        try:
            sim.shutdown()
        except Exception:
            pass
    finally:
        sim.close()
    return out


def _sqrt_mod(n, p):
    """Tonelli-Shanks; None when n is a non-residue."""
    n %= p
    if n == 0:
        return 0
    if pow(n, (p - 1) // 2, p) != 1:
        return None
    if p % 4 == 3:
        return pow(n, (p + 1) // 4, p)
    q, s = p - 1, 0
    while q % 2 == 0:
        q //= 2
        s += 1
    z = 2
    while pow(z, (p - 1) // 2, p) != p - 1:
        z += 1
    mm, c, tt, r = s, pow(z, q, p), pow(n, q, p), pow(n, (q + 1) // 2, p)
    while tt != 1:
        i, t2 = 0, tt
        while t2 != 1:
            t2 = t2 * t2 % p
            i += 1
        b = pow(c, 1 << (mm - i - 1), p)
        mm, c, tt, r = i, b * b % p, tt * b * b % p, r * b % p
    return r


def _interp3(points, p):
    """Coefficients (c0, c1, c2) of the polynomial of degree <= 2 through three points, mod p."""
    c = [0, 0, 0]
    for i, (xi, yi) in enumerate(points):
        others = [x for j, (x, _) in enumerate(points) if j != i]
        den = 1
        for xj in others:
            den = den * (xi - xj) % p
        w = yi * pow(den, -1, p) % p
        x1, x2 = others
        c[0] = (c[0] + w * x1 * x2) % p
        c[1] = (c[1] - w * (x1 + x2)) % p
        c[2] = (c[2] + w) % p
    return c


def product_candidates(points, own_share, p):
    """Candidates for the secret a from the full product polynomial h = f_a * f_r (degree 2) seen by party 0
    (evaluation point 1) and its own share f_a(1): for each root x of h, f_a = c (X - x), c = own/(1 - x),
    a = f_a(0) = own * x / (x - 1)."""
    c0, c1, c2 = _interp3(points, p)
    if c2 == 0:
        return None
    disc = (c1 * c1 - 4 * c2 * c0) % p
    sq = _sqrt_mod(disc, p)
    if sq is None:
        return []
    inv = pow(2 * c2, -1, p)
    cands = set()
    for sgn in (1, -1):
        x = (-c1 + sgn * sq) * inv % p
        if x != 1:
            cands.add(own_share * x % p * pow(x - 1, -1, p) % p)
    return sorted(cands)


def is_zero_consistent(A, own_a, loc, polys, p):
    """[NO07] opening c_i = a r_i + (1 - 2 z_i) u_i with u_i a square: is the candidate A for a consistent with
    party 0's view (its shares of a, r_i, z_i, u_i and the whole polynomial C_i)?  For each i and z in {0,1} the
    two coefficients c0, c2 of C_i determine (r_i, u_i) linearly; the candidate survives iff some z gives a
    square u_i, for every i."""
    for i, pts in enumerate(polys):
        c0, c1, c2 = _interp3(pts, p)
        sr, sz, su = loc['r'][i], loc['z'][i], loc['u2'][i]
        al = (own_a - A) % p
        ok = False
        for z in (0, 1):
            # A r + (1-2z) u = c0 ;  -al r + 2 (sz - z) u = c2 - al sr + 2 (sz - z) su
            m11, m12 = A % p, (1 - 2 * z) % p
            m21, m22 = (-al) % p, 2 * (sz - z) % p
            rhs2 = (c2 - al * sr + 2 * (sz - z) * su) % p
            det = (m11 * m22 - m12 * m21) % p
            if det == 0:
                ok = True
                break
            u = (m11 * rhs2 - m21 * c0) * pow(det, -1, p) % p
            if u == 0 or pow(u, (p - 1) // 2, p) == 1:
                ok = True
                break
        if not ok:
            return False
    return True


def analyse_product(scen, out):
    """Does party 0's view pin down the secret?  Returns counts over the runs."""
    p = out['p']
    sc = PROD_SCEN[scen]
    a0, a1 = sc['secrets']
    res = {'scenario': scen, 'p': p, 'k': out['k'], 'runs': 0, 'true_secret_among_candidates': 0,
           'other_secret_excluded': 0, 'max_candidates': 0, 'outputs': sorted({str(r['output']) for r in out['runs']}), 'sample': None}
    for run in out['runs']:
        ops = [o for o in run['opens'] if o['points'] and len(o['points']) == 3]
        if not ops:
            continue
        secret, other = run['secret'], (a1 if run['secret'] == a0 else a0)
        own = run['own_share_a']
        own = own[0] if isinstance(own, list) else own
        res['runs'] += 1
        if sc['func'] in ('_is_zero', '_np_is_zero'):
            o = ops[-1]
            loc = {k: (v if isinstance(v, list) else [v]) for k, v in o['locals'].items()}
            if not all(nm in loc for nm in ('r', 'z', 'u2')):
                res['error'] = 'operand shares of party 0 not captured'
                continue
            n = len(o['points'][0][1])
            polys = [[(x, v[i]) for x, v in o['points']] for i in range(n)]
            t_ok = is_zero_consistent(secret % p, own, loc, polys, p)
            o_ok = is_zero_consistent(other % p, own, loc, polys, p)
            res['true_secret_among_candidates'] += t_ok
            res['other_secret_excluded'] += (not o_ok)
            res['max_candidates'] = None
            if res['sample'] is None:
                res['sample'] = {'secret': secret, 'instances': n, 'true_consistent': t_ok, 'other': other, 'other_consistent': o_ok}
            continue
        o = ops[-1]                    # the opening of a*r (the last one; earlier ones are r*s retries)
        pts = [(x, v[0] if isinstance(v, list) else v) for x, v in o['points']]
        cands = product_candidates(pts, own, p)
        if cands is None:
            res['runs'] -= 1
            continue
        res['true_secret_among_candidates'] += (secret % p) in cands
        res['other_secret_excluded'] += (other % p) not in cands
        res['max_candidates'] = max(res['max_candidates'], len(cands))
        if res['sample'] is None:
            res['sample'] = {'secret': secret, 'own_share_of_a': own, 'points_seen_by_party0': pts, 'candidates_for_a': cands}
    res['leaks'] = res['runs'] > 0 and res['true_secret_among_candidates'] == res['runs'] and \
        res['other_secret_excluded'] >= 0.9 * res['runs']
    return res


def analyse_reuse(scen, out):
    """Two openings masked by the same zero sharing: party 0 (X = 1) subtracts the shares of the two opened
    polynomials, D = f_r (f_s - f_a); a root rho of D that is the root of f_r gives r = f_r(0) from its own share
    of r, hence a = (a r) / r.  <= 2 candidates per run."""
    p = out['p']
    res = {'scenario': scen, 'p': p, 'runs': 0, 'true_secret_among_candidates': 0, 'max_candidates': 0, 'sample': None,
           'outputs': sorted({str(r['output']) for r in out['runs']})}
    for run in out['runs']:
        ops = [o for o in run['opens'] if o['points'] and len(o['points']) == 3]
        if len(ops) < 2 or 'r' not in ops[-1]['locals']:
            continue
        first = lambda v: v[0] if isinstance(v, list) else v   # noqa
        rs_pts = {x: first(v) for x, v in ops[-2]['points']}
        b_pts = [(x, first(v)) for x, v in ops[-1]['points']]
        r_share = first(ops[-1]['locals']['r'])
        c = _interp3(b_pts, p)[0]
        d = _interp3([(x, (rs_pts[x] - y) % p) for x, y in b_pts], p)
        cands = set()
        if any(d):
            for rho in range(p):
                if (d[0] + d[1] * rho + d[2] * rho * rho) % p == 0 and rho != 1:
                    r = r_share * (-rho) * pow(1 - rho, -1, p) % p
                    if r:
                        cands.add(c * pow(r, -1, p) % p)
        res['runs'] += 1
        res['true_secret_among_candidates'] += (run['secret'] % p) in cands
        res['max_candidates'] = max(res['max_candidates'], len(cands))
        if res['sample'] is None:
            res['sample'] = {'secret': run['secret'], 'own_share_of_r': r_share, 'opened_a_times_r': c, 'difference_polynomial': d,
                             'candidates_for_a': sorted(cands)}
    res['leaks'] = res['runs'] > 0 and 2 * res['true_secret_among_candidates'] >= res['runs']
    return res


# ------------------------------------------------------------------------------------------------
# threshold changed by the program before start(): every PRSS-generated mask must have the degree of the threshold
# IN FORCE, and a coalition of t parties must not be able to compute the blinding factor

def worker_tchange(cfg):
    """Sim(m, t0): session 1 with threshold t0 (keys exchanged, prfs(bound) obtained for the bounds used later), shutdown,
    every party sets mpc.threshold = t, session 2.
    Logs, per party, every pseudorandom_share / pseudorandom_share_zero (and np variants) with its uci."""
    sys.path.insert(0, HARNESS)
    from lib.sim import Sim
    m, t0, t, reps = cfg['m'], cfg['t0'], cfg['t'], cfg['reps']
    sim = Sim(m=m, t=t0, no_prss=False, seed=cfg.get('seed', 0), log_messages=False, track_tasks=False)
    logs = [[] for _ in range(m)]
    opened = []
    out = {}
    try:
        have_np = False
        try:
            have_np = bool(sim.mods[0]['mpyc.numpy'].np)
        except Exception:
            pass
        # session 1 with threshold t0: the keys of t0 are exchanged and PRFs for the bounds used later are obtained
        sim.start()

        async def session1(mpc, mods, pid):
            secint, secfld = mpc.SecInt(32), mpc.SecFld(2**61 - 1)
            for st in (secint, secfld):
                mpc.prfs(st.field.order)
            for j in range(0, 130):
                mpc.prfs(1 << j)
            a = mpc.input(secint(pid + 1), senders=0)
            return [bool(await mpc.is_zero_public(a)), int(await mpc.output(mpc.sgn(a)))]
        out['session1'] = sim.run(session1)
        sim.shutdown()
        # the program changes the threshold between the sessions
        for i in range(m):
            mpc_i, th = sim.mpcs[i], sim.mods[i]['mpyc.thresha']
            mpc_i.threshold = t
            for nm, kind in (('pseudorandom_share', 'share'), ('np_pseudorandom_share', 'share'),
                             ('pseudorandom_share_zero', 'zero'), ('np_pseudorandom_share_0', 'zero')):
                orig = getattr(th, nm)

                def wrapped(field, mm, pid, prfs, uci, n, _o=orig, _l=logs[i], _k=kind):
                    r = _o(field, mm, pid, prfs, uci, n)
                    bound = next(iter(prfs.values())).max if prfs else None
                    _l.append((_site_frame(), _k, uci.hex(), int(field.modulus) if hasattr(field, 'modulus') and
                               isinstance(field.modulus, int) else None, bound, _toint(r)))
                    return r
                setattr(th, nm, wrapped)
        cls0 = type(sim.mpcs[0])
        oout = cls0.output

        def output(self, x, receivers=None, threshold=None, raw=False, _o=oout):
            who = _caller_name()
            fut = _o(self, x, receivers, threshold, raw)
            if who in ('is_zero_public', 'np_is_zero_public', 'reciprocal'):
                async def w():
                    v = await fut
                    opened.append((who, _toint(v)))
                    return v
                return w()
            return fut
        cls0.output = output
        sim.start()
        out['threshold_in_force'] = [int(mp.threshold) for mp in sim.mpcs]
        secrets_used = []

        async def prog(mpc, mods, pid):
            secint, secfld = mpc.SecInt(32), mpc.SecFld(2**61 - 1)
            res = []
            for rep in range(reps):
                sec = 5 + 7 * rep
                if pid == 0:
                    secrets_used.append(sec)
                a = mpc.input(secint(sec), senders=m - 1)
                res.append(bool(await mpc.is_zero_public(a)))
                b = mpc.input(secfld(sec), senders=m - 1)
                res.append(int(await mpc.output(mpc.reciprocal(b) * b)))
                res.append(int(await mpc.output(mpc.sgn(a))))
                res.append([int(x) for x in await mpc.output(mpc.random_bits(secint, 2))])
                if have_np:
                    np = mods['mpyc.numpy'].np
                    arr = mpc.input(secint.array(np.array([sec, 0])), senders=m - 1)
                    res.append(_toint(await mpc.np_is_zero_public(arr)))
            return res
        res = sim.run(prog)
        out['results'] = [r if isinstance(r, list) else str(r) for r in res]
        try:
            sim.shutdown()
        except Exception:
            pass
    finally:
        sim.close()
    out['logs'] = logs
    out['opened'] = opened
    out['secrets'] = secrets_used
    return out


def _poly_degree(ys, p):
    """Degree of the polynomial through (1, ys[0]), ..., (m, ys[m-1]) mod p (-1 for the zero polynomial)."""
    m = len(ys)
    coef = [0] * m
    for i in range(m):
        num = [1]                       # prod_{j != i} (X - x_j)
        den = 1
        for j in range(m):
            if j != i:
                xj = j + 1
                num = [(a - xj * b) % p for a, b in zip([0] + num, num + [0])]
                den = den * (i + 1 - xj) % p
        w = ys[i] * pow(den, -1, p) % p
        for d in range(len(num)):
            coef[d] = (coef[d] + w * num[d]) % p
    deg = m - 1
    while deg >= 0 and coef[deg] == 0:
        deg -= 1
    return deg, coef[0]


def analyse_tchange(out, m, t):
    """Per PRSS mask (aligned over the parties by its uci): degree of the sharing polynomial; and the coalition
    attack on is_zero_public: parties 0..t-1 interpolate r from their t shares as if its degree were < t."""
    res = {'masks': 0, 'low_degree': [], 'bad_degree': [], 'coalition_hits': 0, 'coalition_runs': 0, 'sample': None}
    per = [{(e[2], e[1]): e for e in lg} for lg in out['logs']]
    keys = [k for k in per[0] if all(k in q for q in per)]
    izp = []
    for k in keys:
        es = [q[k] for q in per]
        func, kind, uci, p, bound, _ = es[0]
        if p is None:
            continue
        n = len(es[0][5]) if isinstance(es[0][5], list) else 1
        want = t if kind == 'share' else 2 * t
        if kind == 'share' and bound is not None and bound < 2**8:
            continue                    # tiny codomain (bits): the leading coefficient may vanish by chance
        for h in range(n):
            ys = [(e[5][h] if isinstance(e[5], list) else e[5]) % p for e in es]
            deg, c0 = _poly_degree(ys, p)
            res['masks'] += 1
            rec = {'site': func, 'kind': kind, 'uci': uci, 'index': h, 'degree': deg, 'threshold_in_force': t, 'expected_degree': want}
            if kind == 'zero' and c0 != 0:
                res['bad_degree'].append({**rec, 'constant_term': c0})
            elif deg > want:
                res['bad_degree'].append(rec)
            elif deg < want and not (kind == 'zero' and deg == -1 and t == 0):
                res['low_degree'].append(rec)
            if func == 'is_zero_public' and kind == 'share' and bound == p and h == 0:
                izp.append((ys, c0, p))
    # coalition attack: c = a * r is public; the coalition {0..t-1} guesses r from its own t shares
    cs = [v for who, v in out['opened'] if who == 'is_zero_public']
    # (sgn calls is_zero_public internally too: every call is attacked; the value it tests is c / r)
    for (ys, r_true, p), c in zip(izp, cs):
        a = c * pow(r_true, -1, p) % p if r_true else None
        pts = [(i + 1, ys[i]) for i in range(t)]
        guess = 0
        for i, (xi, yi) in enumerate(pts):
            w = yi
            for j, (xj, _) in enumerate(pts):
                if j != i:
                    w = w * (-xj) % p * pow(xi - xj, -1, p) % p
            guess = (guess + w) % p
        a_guess = (c * pow(guess, -1, p)) % p if guess else None
        res['coalition_runs'] += 1
        res['coalition_hits'] += (guess == r_true)
        if res['sample'] is None:
            res['sample'] = {'secret_value_tested': a, 'opened_c': c, 'coalition': list(range(t)), 'coalition_shares_of_r': [y for _, y in pts],
                             'r_guess': guess, 'r_true': r_true, 'a_guess': a_guess}
    return res


# ------------------------------------------------------------------------------------------------
# shares received by the coalition: exact view distributions of the dealing function used by input() and _reshare()

def worker_exact(cfg):
    """thresha.random_split / np_random_split on small prime fields with `thresha.secrets` replaced by an oracle that
    enumerates EVERY answer sequence (whatever secrets function is called) with exact probabilities (technique of
    props/c13.py): for all secrets the exact distribution of the shares of every coalition of <= t parties must be
    uniform and identical."""
    import itertools
    from fractions import Fraction
    argv, sys.argv = sys.argv, ['c18-exact', '--no-log']      # importing mpyc parses the command line
    try:
        from mpyc import thresha, finfields
    finally:
        sys.argv = argv
    import secrets as _secrets

    class NeedMore(Exception):
        pass

    class Oracle:
        def __init__(self, prefix):
            self.prefix, self.pos, self.prob = prefix, 0, Fraction(1)

        def _next(self, n_outcomes):
            if self.pos >= len(self.prefix):
                e = NeedMore()
                e.n = n_outcomes
                raise e
            v = self.prefix[self.pos]
            self.pos += 1
            self.prob /= n_outcomes
            return v

        def randbelow(self, n):
            return self._next(n)

        def randbits(self, k):
            return self._next(1 << k)

        def choice(self, seq):
            return seq[self._next(len(seq))]

        def token_bytes(self, n=32):
            return self._next(256 ** n).to_bytes(n, 'little')

    def all_runs(fn):
        stack = [()]
        while stack:
            prefix = stack.pop()
            orc = Oracle(prefix)
            thresha.secrets = orc
            try:
                r = fn()
            except NeedMore as e:
                if e.n > 4096:
                    raise RuntimeError('oracle outcome space too large: %d' % e.n)
                stack.extend(prefix + (v,) for v in range(e.n))
                continue
            yield r, orc.prob

    try:
        import numpy as np
    except ImportError:
        np = None
    variants = [('random_split', lambda F, s, t, m: thresha.random_split(F, [F(s)], t, m))]
    if np is not None:
        variants.append(('np_random_split', lambda F, s, t, m: [list(r) for r in thresha.np_random_split(F, F.array([s], check=False), t, m)]))
    out = {'cases': [], 'violations': [], 'enumerated': 0, 'numpy': np is not None}
    try:
        for variant, split in variants:
            for q, m, t in cfg['configs']:
                F = finfields.GF(q)
                coalitions = [C for r in range(1, t + 1) for C in itertools.combinations(range(m), r)]
                ref, ref_s = None, None
                for s in range(q):
                    hist = {C: {} for C in coalitions}
                    total = Fraction(0)
                    for sh, prob in all_runs(lambda: split(F, s, t, m)):
                        vals = [int(F(v[0]).value if not hasattr(v[0], 'value') else v[0].value) % q for v in sh]
                        for C in coalitions:
                            key = tuple(vals[i] for i in C)
                            hist[C][key] = hist[C].get(key, 0) + prob
                        total += prob
                        out['enumerated'] += 1
                    for C in coalitions:
                        want = Fraction(1, q ** len(C))
                        if total != 1 or len(hist[C]) != q ** len(C) or set(hist[C].values()) != {want}:
                            worst = sorted(hist[C].items(), key=lambda kv: kv[1])
                            out['violations'].append({'what': 'not-uniform', 'fn': variant, 'q': q, 'm': m, 't': t, 'secret': s, 'coalition': list(C),
                                                      'distinct_views': len(hist[C]), 'expected_views': q ** len(C),
                                                      'least_likely': [list(worst[0][0]), str(worst[0][1])],
                                                      'most_likely': [list(worst[-1][0]), str(worst[-1][1])]})
                    if ref is None:
                        ref, ref_s = hist, s
                    elif hist != ref:
                        C = next(C for C in coalitions if hist[C] != ref[C])
                        v = next(k for k in set(hist[C]) | set(ref[C]) if hist[C].get(k, 0) != ref[C].get(k, 0))
                        out['violations'].append({'what': 'depends-on-secret', 'fn': variant, 'q': q, 'm': m, 't': t, 'secrets': [ref_s, s],
                                                  'coalition': list(C), 'view': list(v),
                                                  'probabilities': [str(ref[C].get(v, 0)), str(hist[C].get(v, 0))]})
                    out['cases'].append({'fn': variant, 'q': q, 'm': m, 't': t, 'secret': s})
    finally:
        thresha.secrets = _secrets
    return out


def dealing_call_sites(repo):
    """Functions of runtime.py that deal shares, and the dealing function they use (from the source)."""
    import ast
    tree = ast.parse(open(os.path.join(repo, 'mpyc', 'runtime.py')).read())
    res = {}
    for fn in ast.walk(tree):
        if isinstance(fn, (ast.FunctionDef, ast.AsyncFunctionDef)):
            for n in ast.walk(fn):
                if isinstance(n, ast.Attribute) and n.attr in ('random_split', 'np_random_split') and \
                        isinstance(n.value, ast.Name) and n.value.id == 'thresha':
                    res.setdefault(fn.name, set()).add(n.attr)
    return {k: sorted(v) for k, v in res.items()}


# ------------------------------------------------------------------------------------------------
# the low part of _mod's mask, r_modb = _randbelow(stype, b), must be uniform on [0, b): exact output distribution of
# the real mpyc.random._randbelow at m = 1 with the bit source replaced by an enumerating oracle (all tapes)

def worker_randbelow(cfg):
    import itertools
    from fractions import Fraction
    argv, sys.argv = sys.argv, ['c18-randbelow', '--no-log']
    try:
        from mpyc.runtime import mpc
        import mpyc.random as R
    finally:
        sys.argv = argv

    class NeedBits(Exception):
        def __init__(self, total):
            self.total = total

    class Proxy:
        def __init__(self, rt, tape):
            self.__dict__.update(_rt=rt, tape=list(tape), pos=0)

        def __getattr__(self, name):
            return getattr(self._rt, name)

        def random_bits(self, sectype, n, signed=False):
            if self.pos + n > len(self.tape):
                raise NeedBits(self.pos + n)
            bits = self.tape[self.pos:self.pos + n]
            self.__dict__['pos'] += n
            return [sectype(b) for b in bits]

    secint = mpc.SecInt(16)
    real = R.runtime
    out = {'results': []}
    try:
        for b in cfg['moduli']:
            L = cfg['max_bits']
            mass = {}
            cut = Fraction(0)
            leaves = 0
            stack = [()]
            while stack:
                tp = stack.pop()
                R.runtime = Proxy(mpc, tp)
                try:
                    bits = mpc.run(mpc.output(R._randbelow(secint, b, bits=True)))
                    v = sum(int(x) << i for i, x in enumerate(bits))
                    used = R.runtime.pos
                    mass[v] = mass.get(v, 0) + Fraction(1, 2 ** used)
                    leaves += 1
                    if used != len(tp):
                        raise RuntimeError('tape not consumed exactly')
                except NeedBits as e:
                    if e.total > L:
                        cut += Fraction(1, 2 ** len(tp))
                        continue
                    for ext in itertools.product((0, 1), repeat=e.total - len(tp)):
                        stack.append(tp + ext)
            vals = [mass.get(v, Fraction(0)) for v in range(b)]
            out['results'].append({'b': b, 'max_bits': L, 'leaves': leaves, 'out_of_range': sorted(v for v in mass if not 0 <= v < b),
                                   'mass': [str(x) for x in vals], 'cut_mass': str(cut), 'total_is_one': sum(mass.values()) + cut == 1,
                                   'spread': str(max(vals) - min(vals)), 'uniform_up_to_cut': max(vals) - min(vals) <= cut,
                                   'exactly_equal': len(set(vals)) == 1})
    finally:
        R.runtime = real
    return out


def worker_maskbits(cfg):
    """Linear response of the values opened by list/array truncation to each shared random bit (single party, so shares are
    values): random_bits / np_random_bits return a chosen bit vector and _randoms / _np_randoms return zeros; for every unit
    bit vector e_b the difference opened(e_b) - opened(0) is reported per element.  The model (Masked.low_masks) says:
    bit b moves exactly element b div f, by 2^(b mod f) — disjoint slices, so that the n low masks are independent."""
    sys.argv = [sys.argv[0]]
    from mpyc.runtime import mpc, Runtime
    out = {'cases': []}

    class AwList(list):
        def __await__(self):
            return self
            yield

    def fld_of(sftype):
        return getattr(sftype, 'field', sftype)

    for case in cfg['cases']:
        kind, l, f, n = case['kind'], case['l'], case['f'], case['n']
        st = mpc.SecInt(l) if kind in ('int', 'np_int', 'np_to_bits') else mpc.SecFxp(l, f)
        isnp = kind.startswith('np')
        if isnp:
            np = mpc.np if hasattr(mpc, 'np') else None
            import numpy as np
        xs = case['xs']
        state = {'bits': None, 'opened': None}
        o_rb, o_nrb, o_r, o_nr, o_out = Runtime.random_bits, Runtime.np_random_bits, Runtime._randoms, Runtime._np_randoms, Runtime.output

        def rb(self, sftype, cnt, signed=False):
            assert cnt == len(state['bits']), (cnt, len(state['bits']))
            F = fld_of(sftype)
            return AwList([F(b) for b in state['bits']])

        def nrb(self, sftype, cnt, signed=False):
            assert cnt == len(state['bits']), (cnt, len(state['bits']))
            F = fld_of(sftype)
            return _AwArr(F.array(np.array([int(b) for b in state['bits']], dtype=object)))

        class _AwArr:
            def __init__(self, a):
                self.a = a

            def __await__(self):
                return self.a
                yield

        def rnd(self, sftype, cnt, bound=None):
            F = fld_of(sftype)
            return AwList([F(0)] * cnt)

        def nrnd(self, sftype, cnt, bound=None):
            F = fld_of(sftype)
            z = F.array(np.array([0] * cnt, dtype=object))
            return _AwArr(z) if self.options.no_prss else z

        def outp(self, x, receivers=None, threshold=None, raw=False):
            fut = o_out(self, x, receivers, threshold, raw)
            import sys as _s
            who = _s._getframe(1).f_code.co_name
            if who in ('trunc', 'np_trunc', 'np_to_bits'):
                async def w():
                    v = await fut
                    vv = v.value if hasattr(v, 'value') and not isinstance(v, list) else v
                    state['opened'] = [int(z) for z in (vv.flatten().tolist() if hasattr(vv, 'flatten') else [q.value for q in vv])]
                    return v
                return w()
            return fut

        async def one(bits):
            state['bits'], state['opened'] = bits, None
            if isnp:
                a = st.array(np.array(xs))
                if kind == 'np_to_bits':
                    r = mpc.np_to_bits(a, l=f)      # opened: a + 2^L + (r_divl << l) - r_modl, r_modl from l bits per element
                else:
                    r = mpc.np_trunc(a, f=f) if kind == 'np_int' else mpc.np_trunc(a)
            else:
                a = [st(x) for x in xs]
                r = mpc.trunc(a, f=f) if kind == 'int' else mpc.trunc(a)
            await mpc.gather(r)
            return state['opened']

        Runtime.random_bits, Runtime.np_random_bits, Runtime._randoms, Runtime._np_randoms, Runtime.output = rb, nrb, rnd, nrnd, outp
        res = {'case': case, 'resp': [], 'error': None}
        try:
            p_ = fld_of(st).modulus
            base = mpc.run(one([0] * (f * n)))
            for b in range(f * n):
                e = [0] * (f * n)
                e[b] = 1
                o = mpc.run(one(e))
                d = [((u - v + p_ // 2) % p_) - p_ // 2 for u, v in zip(o, base)]
                res['resp'].append(d)
            res['extra'] = []
            for e in case.get('extra', []):
                o = mpc.run(one(list(e)))
                res['extra'].append([((u - v + p_ // 2) % p_) - p_ // 2 for u, v in zip(o, base)])
        except Exception as ex:      # noqa
            import traceback
            res['error'] = traceback.format_exc()[-1200:]
        finally:
            Runtime.random_bits, Runtime.np_random_bits, Runtime._randoms, Runtime._np_randoms, Runtime.output = o_rb, o_nrb, o_r, o_nr, o_out
        out['cases'].append(res)
    return out


def spawn(cfg, python, timeout=600):
    env = dict(os.environ)
    repo = os.environ.get('MPYC_REPO', '/repo')
    env['PYTHONPATH'] = repo + os.pathsep + HARNESS
    env['MPYC_REPO'] = repo
    env['PYTHONHASHSEED'] = '0'
    p = subprocess.run([python, os.path.abspath(__file__), '--worker'], input=json.dumps(cfg), text=True, env=env,
                       stdout=subprocess.PIPE, stderr=subprocess.PIPE, timeout=timeout)
    line = [l for l in p.stdout.split('\n') if l.startswith('RESULT ')]
    if p.returncode or not line:
        return {'error': 'worker failed rc=%s: %s' % (p.returncode, (p.stderr or p.stdout)[-1500:])}
    return json.loads(line[-1][7:])


# ------------------------------------------------------------------------------------------------

def coq_env(env):
    return '(mk_env %s)' % ' '.join('(%d)' % env[v] for v in ('VL', 'Vl', 'Vk', 'Vf', 'Vt', 'Vm', 'Vb', 'Vn'))


def full_env(sc, k, t, m):
    e = dict(VL=1, Vl=1, Vk=k, Vf=0, Vt=t, Vm=m, Vb=2, Vn=2)
    e.update(sc['env'])
    return e


def run(ctx):
    from lib import core
    from lib.core import COQ, COQFLAGS, sh, PYNP, PY, REPO
    sys.path.insert(0, HARNESS)
    import gen_mask_table as G

    ctx.rule = ('case = (site row, m, t, PRSS on/off, sec_param k, scenario parameters); the protocol is run on a shared secret in the '
                'm-party simulator and every bound passed to _randoms/_np_randoms and drawn from prfs()/secrets.randbelow inside that '
                'protocol is compared with the row evaluated in Coq at (L,l,k,f,t,m,b,n); non-trivial when the row has a numeric bound '
                'and t >= 1; distinct by (row, config, parameters)')
    ctx.explanation = ('statistical-distance theorems in Coq; mask table regenerated from the source every run; one compiled obligation '
                       'per row over a stated grid; bound arithmetic of every row compared with the running protocols')

    # 1. regenerate the table from the CURRENT source
    rows, errors = G.generate(REPO)
    prows, perrors = G.product_rows(REPO)
    errors = errors + perrors
    table = os.path.join(COQ, 'gen', 'MaskTable.v')
    try:
        restart = G.randbelow_restart(REPO)
    except G.Unclassified as exc:
        restart = None
        errors.append({'site': 'random._randbelow', 'line': None, 'error': str(exc)})
    G.emit(rows, errors, table, prows, restart)
    ctx.extra['randbelow_restart'] = {'offsets': list(restart[0]), 'statement': restart[1]} if restart else None
    ctx.extra['product_table'] = [{k: r[k] for k in ('site', 'opened', 'threshold', 'rerand', 'conditions')} for r in prows]
    ctx.log('product openings (threshold kwarg): %s' % {r['site']: r['rerand'] for r in prows})
    kinds = {}
    for r in rows:
        kinds[r['kind']] = kinds.get(r['kind'], 0) + 1
    ctx.log('mask table: %d rows %s, %d translator errors' % (len(rows), kinds, len(errors)))
    ctx.extra['mask_table'] = [{'site': r['site'], 'kind': r['kind'], 'mode': r['mode'], 'bound': r['bound_src'],
                                'scale': G.coq_of(r['scale']), 'opened': r['opened'][:120], 'note': r['leak'][:160]} for r in rows]
    for e in errors:
        ctx.log('TRANSLATOR ERROR %s' % e)
        ctx.broken.append({'kind': 'translator', **e})

    # 2. build theories, the table and the statements
    ok = ctx.build(['MPyC.Stat']) and ctx.check_props(extra_files=['gen/MaskTable.v'])

    # 3. one compiled obligation per row: numeric rows one file each (in parallel), the others in one file
    failing = {}
    failing_prod = []
    failing_restart = []
    if ok:
        os.makedirs(os.path.join(COQ, 'cases'), exist_ok=True)
        HEAD = ('From Coq Require Import ZArith List Bool String.\nRequire Import MPyC.Stat MPyCGen.MaskTable.\n'
                'Import ListNotations.\n')

        def thm(r):
            if 'restart' in r:
                return ('Theorem randbelow_restart_matches_model : randbelow_restart_ok randbelow_restart_src = true.\n'
                        'Proof. vm_cast_no_check (eq_refl true). Qed.\nPrint Assumptions randbelow_restart_matches_model.\n')
            if 'rerand' in r:
                pid_ = G.coq_pident(r['site'])
                return ('Theorem prod_ok_%s : prow_ok %s = true.\nProof. vm_cast_no_check (eq_refl true). Qed.\n'
                        'Print Assumptions prod_ok_%s.\n' % (pid_, pid_, pid_))
            ident = G.coq_ident(r['site'])
            return ('Theorem mask_ok_%s : forall e, In e (grid_envs %s) -> pre_holds %s e = true ->\n'
                    '  forall prss, In prss (row_modes %s) -> row_ok_at %s prss e = true.\n'
                    'Proof. apply row_ok_grid_sound. vm_cast_no_check (eq_refl true). Qed.\n'
                    'Print Assumptions mask_ok_%s.\n' % ((ident,) * 6))

        def compile_rows(rs, tag):
            base = 'C18obl_%d_%s' % (os.getpid(), tag)
            fn = os.path.join(COQ, 'cases', base + '.v')
            with open(fn, 'w') as f:
                f.write(HEAD + ''.join(thm(r) for r in rs))
            rc, out = sh(['coqc', *COQFLAGS, 'cases/' + base + '.v'], cwd=COQ, timeout=900)
            for ext in ('.v', '.vo', '.vok', '.vos', '.glob'):
                p = fn[:-2] + ext
                if os.path.exists(p):
                    os.remove(p)
            aux = os.path.join(COQ, 'cases', '.' + base + '.aux')
            if os.path.exists(aux):
                os.remove(aux)
            return rs, rc, out

        numeric = [r for r in rows if r['kind'] in ('KAdditive', 'KXorLow')]
        others = [r for r in rows if r['kind'] not in ('KAdditive', 'KXorLow')]
        ngroups = 6
        groups = [numeric[i::ngroups] for i in range(ngroups)]
        groups = [g for g in groups if g] + ([others] if others else []) + ([list(prows)] if prows else [])
        if restart:
            groups.append([{'restart': True, 'site': 'random._randbelow/restart', 'offsets': restart[0], 'statement': restart[1]}])

        def compile_group(gi_rs):
            """Theorems are compiled in order; the one after the last `Closed under` output is the failing one:
            it is recorded and the rest of the group is compiled again without it."""
            gi, rs = gi_rs
            good, bad = [], []
            part = 0
            while rs:
                part += 1
                _, rc, out = compile_rows(rs, 'g%d_%d' % (gi, part))
                n = out.count('Closed under the global context')
                if rc == 0 and n == len(rs):
                    good += rs
                    break
                n = min(n, len(rs) - 1)
                good += rs[:n]
                bad.append((rs[n], out[-600:]))
                rs = rs[n + 1:]
            return good, bad

        with ThreadPoolExecutor(max_workers=8) as ex:
            done = list(ex.map(compile_group, list(enumerate(groups))))
        bad_rows = []
        for good, bad in done:
            ctx.obligations += len(good) + len(bad)
            ctx.discharged += len(good)
            for r in good:
                ctx.theorems.append(('mask_ok[%s]' % r['site'], 'Closed under the global context'))
            bad_rows += bad
        failing_prod = [r for r, _ in bad_rows if 'rerand' in r]
        failing_restart = [r for r, _ in bad_rows if 'restart' in r]
        bad_rows = [(r, tl) for r, tl in bad_rows if 'rerand' not in r and 'restart' not in r]
        if bad_rows:
            wits = ctx.coq_eval(['MPyC.Stat', 'MPyCGen.MaskTable'],
                                ['first_fail %s' % G.coq_ident(r['site']) for r, _ in bad_rows], chunk=1)
            for (r, tail), w in zip(bad_rows, wits):
                failing[r['site']] = {'row': r, 'witness': w, 'coqc': tail if not (isinstance(w, tuple) and w and w[0] == 'Some') else ''}
        ctx.log('row obligations: %d of %d compiled (Qed, closed); failing: %s' % (
            len(rows) - len(failing), len(rows), sorted(failing)))
        ctx.log('product-opening obligations: %d of %d compiled; failing: %s' % (
            len(prows) - len(failing_prod), len(prows), sorted(r['site'] for r in failing_prod)))

    # 4. correspondence of the mask arithmetic in the simulator
    have_np = os.path.exists(PYNP)
    python = PYNP if have_np else PY
    ctx.notes.append('simulator runs under %s (NumPy sites %s)' % (python, 'included' if have_np else 'SKIPPED: no .venv-np'))
    configs = []
    for (m, t) in [(1, 0), (3, 1), (5, 2)]:
        for no_prss in (False, True):
            for K in ((None, 8) if (m, t) != (5, 2) or ctx.tier == 'thorough' else (None,)):
                configs.append(dict(m=m, t=t, no_prss=no_prss, K=K, seed=ctx.seed))
    if ctx.tier == 'thorough':
        configs += [dict(m=m, t=t, no_prss=np_, K=16, seed=ctx.seed) for (m, t) in [(2, 0), (4, 1), (5, 1)] for np_ in (False, True)]
    by_site = {}
    for r in rows:
        by_site[r['site']] = r
    for cfg in configs:
        cfg['steps'] = [(s['name'], s['secret'], 1) for s in SCEN
                        if not (s.get('prss_only') and cfg['no_prss'])]
    t0 = time.time()
    tcfgs = [dict(mode='tchange', m=5, t0=1, t=2, reps=ctx.n(6, 15), seed=ctx.seed),
             dict(mode='tchange', m=5, t0=2, t=1, reps=ctx.n(3, 8), seed=ctx.seed + 1)]
    xcfg = dict(mode='exact', configs=[(5, 3, 1), (7, 3, 1), (11, 3, 1), (13, 3, 1), (7, 5, 2)] +
                ([(11, 5, 2), (13, 4, 1), (17, 3, 1)] if ctx.tier == 'thorough' else []))
    with ThreadPoolExecutor(max_workers=8) as ex:
        fut_t = [ex.submit(spawn, c, python) for c in tcfgs]
        fut_x = ex.submit(spawn, xcfg, python)
        fut_rb = ex.submit(spawn, dict(mode='randbelow', moduli=[3, 5, 6, 7] + ([9, 10, 11, 12] if ctx.tier == 'thorough' else []),
                                       max_bits=ctx.n(12, 14)), python)
        mb_cases = []
        for kind in ('int', 'fxp') + (('np_int', 'np_fxp') if have_np else ()):
            for _ in range(ctx.n(2, 5)):
                f_ = ctx.rng.choice([3, 4, 5, 6]) if kind.endswith('int') else ctx.rng.choice([4, 8, 16])
                n_ = ctx.rng.choice([2, 3, 4])
                xs = [ctx.rng.randrange(-2000, 2000) for _ in range(n_)]
                if kind.endswith('fxp'):
                    xs = [x + 0.5 for x in xs]
                mb_cases.append(dict(kind=kind, l=32, f=f_, n=n_, xs=xs,
                                     extra=[[ctx.rng.randrange(2) for _ in range(f_ * n_)] for _ in range(3)]))
        if have_np:
            for _ in range(ctx.n(2, 4)):
                f_, n_ = ctx.rng.choice([3, 5, 8]), ctx.rng.choice([2, 3])
                mb_cases.append(dict(kind='np_to_bits', l=32, f=f_, n=n_, sign=-1, xs=[ctx.rng.randrange(-2000, 2000) for _ in range(n_)],
                                     extra=[[ctx.rng.randrange(2) for _ in range(f_ * n_)] for _ in range(3)]))
        fut_mb = ex.submit(spawn, dict(mode='maskbits', cases=mb_cases), python)
        outs = list(ex.map(lambda c: spawn(c, python), configs))
        mbout = fut_mb.result()
        touts = [f.result() for f in fut_t]
        xout = fut_x.result()
        rbout = fut_rb.result()
    # layout of the shared random bits in list/array truncation: measured linear response of the opened values to every
    # bit (and to random bit vectors) against MaskBits.low_masks evaluated by vm_compute (theorems C18_low_masks_*)
    if 'error' in mbout:
        ctx.broken.append({'kind': 'maskbits', 'detail': mbout['error']})
    else:
        exprs, idx = [], []
        for ci, c in enumerate(mbout['cases']):
            cs = c['case']
            if c.get('error'):
                ctx.broken.append({'kind': 'maskbits', 'detail': {'case': cs, 'error': c['error']}})
                continue
            vecs = [[1 if i == b else 0 for i in range(cs['f'] * cs['n'])] for b in range(cs['f'] * cs['n'])] + [list(e) for e in cs['extra']]
            for vi, v in enumerate(vecs):
                exprs.append('low_masks %d %d [%s]%%Z' % (cs['f'], cs['n'], '; '.join(str(b) for b in v)))
                idx.append((ci, vi, v))
        vals = ctx.coq_eval(['MPyC.Masked', 'MPyC.MaskBits'], exprs, chunk=200) if exprs else []
        nbad = 0
        for (ci, vi, v), mv in zip(idx, vals):
            c = mbout['cases'][ci]
            cs = c['case']
            nb = cs['f'] * cs['n']
            obs = c['resp'][vi] if vi < nb else c['extra'][vi - nb]
            obs = [cs.get('sign', 1) * int(x) for x in obs]       # np_to_bits subtracts its low mask
            ctx.case({'maskbits': {k: cs[k] for k in ('kind', 'l', 'f', 'n', 'xs')}, 'bits': v}, nontrivial=True,
                     kind='mask-bit layout %s' % cs['kind'])
            if isinstance(mv, tuple) and mv and mv[0] == 'ERROR':
                ctx.broken.append({'kind': 'maskbits-coq', 'detail': str(mv)[:300]})
                continue
            if [int(x) for x in mv] != [int(x) for x in obs]:
                nbad += 1
                # does the OBSERVED layout still give independent uniform masks?  (every bit moves exactly one element by a
                # power of two, every element gets each weight 2^0..2^(f-1) exactly once, responses add up linearly)
                sg = cs.get('sign', 1)
                unit = [[sg * int(x) for x in r_] for r_ in c['resp']]
                per = collections.defaultdict(list)
                bij = True
                for col in unit:
                    nz = [(j, w) for j, w in enumerate(col) if w]
                    if len(nz) != 1:
                        bij = False
                        break
                    per[nz[0][0]].append(nz[0][1])
                bij = bij and all(sorted(per.get(j, [])) == [1 << i for i in range(cs['f'])] for j in range(cs['n']))
                for e_, o_ in zip(cs['extra'], c['extra']):
                    want_ = [sum(unit[b][j] for b in range(nb) if e_[b]) for j in range(cs['n'])]
                    bij = bij and want_ == [sg * int(x) for x in o_]
                if bij:
                    if nbad <= 3:
                        ctx.broken.append({'kind': 'maskbits-layout-differs', 'case': cs, 'bit_vector': v, 'observed': obs,
                                           'model_low_masks': [int(x) for x in mv],
                                           'note': 'observed bit layout differs from MaskBits.low_masks but is still one bit -> one '
                                                   'element with all weights 2^0..2^(f-1) once per element (a bijection): the model '
                                                   'no longer matches the code, no failing input for C18 found'})
                    continue
                if nbad <= 3:
                    fn = 'np_to_bits' if cs['kind'] == 'np_to_bits' else 'np_trunc' if cs['kind'].startswith('np') else 'trunc'
                    ctx.violation('mask-bits-layout site=%s' % fn,
                                  {'what': 'the low masks of the openings of one %s call are not the disjoint-slice function of the shared random bits '
                                           '(masks of different elements share bits: joint view depends on the secret low bits)' % fn,
                                   'case': cs, 'bit_vector': v, 'opened_delta_observed': obs, 'model_low_masks': [int(x) for x in mv],
                                   'replay': 'single party; random_bits returns bit_vector, _randoms returns zeros; opened(bit_vector) - opened(0) per element'},
                                  found_input=True)
        ctx.extra['maskbits'] = {'cases': len(mbout['cases']), 'vectors': len(idx), 'mismatches': nbad}
        ctx.log('mask-bit layout: %d bit vectors over %d list/array truncation calls against MaskBits.low_masks: %d mismatches' % (
            len(idx), len(mbout['cases']), nbad))
    # r_modb = _randbelow(stype, b) inside _mod must be uniform on [0, b): exact output distribution over all bit tapes
    rb_bad = []
    if 'error' in rbout:
        ctx.broken.append({'kind': 'randbelow-exact', 'detail': rbout['error']})
    else:
        for r in rbout['results']:
            ctx.case({'randbelow_exact': {'b': r['b'], 'max_bits': r['max_bits']}}, nontrivial=True, kind='exact _randbelow distribution')
            if r['out_of_range'] or not r['total_is_one'] or not r['uniform_up_to_cut']:
                rb_bad.append(r)
        ctx.extra['randbelow_exact'] = [{k: r[k] for k in ('b', 'max_bits', 'leaves', 'mass', 'cut_mass', 'exactly_equal')} for r in rbout['results']]
        ctx.log('exact distribution of _randbelow(stype, b) over all bit tapes up to %d bits: %s' % (
            rbout['results'][0]['max_bits'] if rbout['results'] else 0,
            ', '.join('b=%d %s' % (r['b'], 'uniform' if r['exactly_equal'] else 'NOT uniform ' + str(r['mass'])) for r in rbout['results'])))
    # shares received: exact view distributions of the dealing function behind input() and _reshare()
    dealers_src = dealing_call_sites(REPO)
    ctx.extra['dealing_call_sites'] = dealers_src
    if set(dealers_src) != {'_distribute', '_reshare'} and set(dealers_src) != {'input', '_reshare'}:
        ctx.notes.append('functions dealing shares through thresha.(np_)random_split: %s' % dealers_src)
    if not dealers_src or any(set(v) - {'random_split', 'np_random_split'} for v in dealers_src.values()):
        ctx.broken.append({'kind': 'dealing', 'detail': 'no call of thresha.random_split found in runtime.py: %s' % dealers_src})
    if 'error' in xout:
        ctx.broken.append({'kind': 'exact-view', 'detail': xout['error']})
    else:
        for c in xout['cases']:
            ctx.case({'exact_view': c}, nontrivial=True, kind='exact view %s' % c['fn'])
        ctx.extra['exact_view'] = {'cases': len(xout['cases']), 'oracle_sequences_enumerated': xout['enumerated'], 'numpy': xout['numpy'],
                                   'violations': len(xout['violations'])}
        ctx.log('exact view of dealt shares (%s, used by %s): %d (function, field, m, t, secret) cases, %d oracle answer sequences, %d deviations' % (
            'random_split' + ('/np_random_split' if xout['numpy'] else ''), sorted(dealers_src), len(xout['cases']), xout['enumerated'],
            len(xout['violations'])))
        seen_sig = set()
        for v in xout['violations']:
            sig = 'dealt-share-view-%s fn=%s GF(%d) m=%d t=%d' % (v['what'], v['fn'], v['q'], v['m'], v['t'])
            if sig not in seen_sig:
                seen_sig.add(sig)
                ctx.violation(sig, {**v, 'used_by': dealers_src,
                                    'why': 'the shares a coalition of <= t parties receives must be uniform and independent of the secret '
                                           '(exact probabilities over all answers of the randomness oracle)'}, found_input=True)
    # threshold changed before start(): masks must follow the threshold in force
    for tc, to in zip(tcfgs, touts):
        tag = {'m': tc['m'], 'threshold_at_startup': tc['t0'], 'threshold_in_force': tc['t'], 'prss': True}
        if 'error' in to or any(not isinstance(r, list) for r in to.get('results', ['x'])) or \
                any(r != to['results'][0] for r in to['results']):
            ctx.broken.append({'kind': 'simulator', 'config': tag, 'detail': str(to.get('error') or to.get('results'))[:600]})
            continue
        an = analyse_tchange(to, tc['m'], tc['t'])
        ctx.case({**tag, 'masks': an['masks']}, nontrivial=True, kind='threshold-change')
        ctx.extra.setdefault('threshold_change', []).append({**tag, 'masks_checked': an['masks'], 'low_degree': len(an['low_degree']),
                                                              'coalition_attack': '%d/%d' % (an['coalition_hits'], an['coalition_runs'])})
        ctx.log('threshold change %d -> %d (m=%d): %d PRSS masks, %d of too low degree, %d inconsistent; coalition of %d recovers the secret in %d/%d '
                'is_zero_public runs' % (tc['t0'], tc['t'], tc['m'], an['masks'], len(an['low_degree']), len(an['bad_degree']), tc['t'],
                                         an['coalition_hits'], an['coalition_runs']))
        sites = sorted({r['site'] or 'random_bits/other' for r in an['low_degree']})
        if an['low_degree'] or an['bad_degree'] or (an['coalition_runs'] and 2 * an['coalition_hits'] >= an['coalition_runs']):
            ctx.violation('mask-degree-below-threshold after-threshold-change sites=%s' % ','.join(sites),
                          {**tag, 'low_degree_masks': an['low_degree'][:8], 'inconsistent_masks': an['bad_degree'][:4],
                           'coalition_attack_on_is_zero_public': {'hits': an['coalition_hits'], 'runs': an['coalition_runs'], 'sample': an['sample']},
                           'why': 'a PRSS mask of degree d < t is determined by d+1 <= t parties: the coalition computes the blinding '
                                  'factor r and the secret a = c / r'},
                          found_input=True)
    ctx.log('simulator: %d configurations x %d scenarios in %.1fs' % (len(configs), len(SCEN), time.time() - t0))
    exprs, meta = [], []
    covered_sites = set()
    for cfg, out in zip(configs, outs):
        tag = {'m': cfg['m'], 't': cfg['t'], 'prss': not cfg['no_prss'], 'K': cfg['K']}
        if 'error' in out:
            ctx.broken.append({'kind': 'simulator', 'config': tag, 'detail': out['error']})
            continue
        k = out['k']
        for st in out['steps']:
            sc = SCEN_BY_NAME[st['name']]
            site = sc['site'] % {'prss': 'noprss' if cfg['no_prss'] else 'prss'}
            res = st['results']
            if res and res[0] == 'NO-NUMPY':
                continue
            bad = [x for x in res if isinstance(x, (list, tuple)) and len(x) == 2 and x[0] == 'EXC' or x == 'PENDING']
            if bad or any(x != res[0] for x in res):
                ctx.broken.append({'kind': 'scenario', 'scenario': st['name'], 'config': tag, 'results': str(res)[:400]})
                continue
            if site not in by_site:
                ctx.broken.append({'kind': 'correspondence', 'what': 'scenario for a site that has no row', 'site': site})
                continue
            row = by_site[site]
            env = full_env(sc, k, cfg['t'], cfg['m'])
            exprs.append('row_bounds %s %s %s' % (G.coq_ident(site), 'false' if cfg['no_prss'] else 'true', coq_env(env)))
            meta.append((site, tag, env, st, row))
    mism = 0
    if ok and exprs:
        res = ctx.coq_eval(['MPyC.Stat', 'MPyCGen.MaskTable'], exprs, chunk=120)
        for r, (site, tag, env, st, row) in zip(res, meta):
            ev = st['events']
            passed = sorted(set(-1 if b is None else b for b in ev['passed']))
            via = 'randoms' if row['via'] == 'ViaRandoms' else 'direct'
            eff = sorted(set(b for b, v in ev['eff'] if v == via))
            key = {'site': site, 'scenario': st['name'], **tag, 'env': {v: env[v] for v in VARS}}
            numeric = row['bound'] is not None
            if isinstance(r, tuple) and r and r[0] == 'ERROR':
                mism += 1
                ctx.broken.append({'kind': 'correspondence', 'what': 'coq evaluation failed', 'case': key, 'detail': r[1]})
            elif numeric:
                want = r[1] if isinstance(r, tuple) and r[0] == 'Some' else None
                wb, we = (want if want else (None, None))
                got_b = passed if via == 'randoms' else eff
                if got_b != [wb] or eff != [we]:
                    mism += 1
                    ctx.broken.append({'kind': 'correspondence', 'what': 'mask bound differs from the table row', 'case': key,
                                       'model': {'bound': wb, 'per_summand': we}, 'impl': {'bound': got_b[:4], 'per_summand': eff[:4]}})
            else:
                # full-field / xor / by-design rows: no numeric bound may be passed by the protocol
                if r is not None or any(b != -1 for b in passed):
                    if row['kind'] in ('KMultBlind', 'KFieldUniform') and not (row['kind'] == 'KFieldUniform' and via == 'direct'):
                        mism += 1
                        ctx.broken.append({'kind': 'correspondence', 'what': 'bounded mask where the row says whole field', 'case': key,
                                           'impl': passed[:4]})
            covered_sites.add(site)
            ctx.case(key, nontrivial=numeric and tag['t'] >= 1, kind=row['kind'])
        ctx.extra['traces_validated_against_impl'] = len(exprs) - mism
        ctx.log('bound correspondence: %d cases, %d disagreements; sites exercised: %d of %d rows' % (
            len(exprs), mism, len(covered_sites), len(rows)))
    ctx.extra['sites_exercised'] = sorted(covered_sites)
    not_run = sorted(r['site'] for r in rows if r['site'] not in covered_sites and r['bound'] is not None)
    if not_run:
        ctx.notes.append('rows with a numeric bound not exercised in the simulator this run: %s' % not_run)

    # 5. failing rows: empirical search for a failing input, then report
    for site, info in sorted(failing.items()):
        row, wit = info['row'], info['witness']
        detail = {'site': site, 'line': row['line'], 'opened': row['opened'], 'mask_bound': row['bound_src'],
                  'scale': G.coq_of(row['scale']), 'secret_range': G.coq_of(row['secret']),
                  'first_failing_grid_point': None, 'coqc': info['coqc']}
        if isinstance(wit, tuple) and wit and wit[0] == 'Some':
            vals, prss, reason = wit[1]
            env = dict(zip(VARS, vals))
            detail['first_failing_grid_point'] = {**env, 'prss': prss,
                                                  'reason': 'mask too small' if reason == 1 else 'mask overflows the intended range'}
            overflow = reason == 2
            detail['at_l32_k30'] = table_witness(row, G)
        else:
            overflow = False
        emp = None
        scs = [s for s in SCEN if s['site'] % {'prss': 'prss'} == site or s['site'] % {'prss': 'noprss'} == site]
        scs = [s for s in scs if 'pair' in s and (have_np or not s.get('np'))]
        if scs:
            emp = search(scs[0], python, ctx)
            detail['empirical'] = emp
        found = bool(emp and emp.get('distinguishes'))
        sig = '%s site=%s' % ('mask-overflows-range' if overflow else 'mask-too-small', site.split('.', 1)[1].split('#')[0])
        if row['kind'] == 'KXorLow':
            sig = 'unmasked-high-bits site=%s' % site.split('.', 1)[1]
        if not found and detail['first_failing_grid_point'] is None:
            sig = 'unproved:row-obligation site=%s' % site
        ctx.log('FAILING ROW %s: bound %s; witness %s; empirical %s' % (
            site, row['bound_src'], detail['first_failing_grid_point'], json.dumps(emp)[:300] if emp else None))
        ctx.violation(sig, detail, found_input=found or detail['first_failing_grid_point'] is not None)

    # 6. product openings without (fresh) rerandomisation: replay what ONE party (m = 3, t = 1) learns
    by_func = {}
    for r in failing_prod:
        by_func.setdefault((r['func'], r['rerand'] == 'RReused'), []).append(r)

    def prod_search(key):
        func, reused = key
        scen = (func + '/small') if reused else func
        if scen not in PROD_SCEN or (PROD_SCEN[scen].get('np') and not have_np):
            return key, None
        res = {}
        for no_prss in (False, True):
            if no_prss and PROD_SCEN[scen].get('prss_only'):
                continue
            out = spawn(dict(mode='product', scen=scen, no_prss=no_prss, K=None, seed=ctx.seed + 2,
                             secrets=list(PROD_SCEN[scen]['secrets']), reps=ctx.n(10, 20) if reused else ctx.n(4, 12)), python)
            if 'error' in out or not out.get('runs'):
                res['noprss' if no_prss else 'prss'] = {'error': str(out)[:400]}
                continue
            res['noprss' if no_prss else 'prss'] = analyse_reuse(scen, out) if reused else analyse_product(scen, out)
        return key, res
    if by_func:
        with ThreadPoolExecutor(max_workers=6) as ex:
            searched = dict(ex.map(prod_search, sorted(by_func)))
        for (func, reused), rs in sorted(by_func.items()):
            emp = searched.get((func, reused))
            found = bool(emp) and any(isinstance(v, dict) and v.get('leaks') for v in emp.values())
            detail = {'function': func, 'sites': [{k: r[k] for k in ('site', 'line', 'opened', 'threshold', 'rerand', 'conditions')} for r in rs],
                      'obligation': 'a local product of two degree-t sharings opened with threshold 2t must get a FRESH zero sharing / '
                                    'reshare on every path; one generated zero sharing may mask one opening only '
                                    '(Stat.unrerandomised_product_leaks_refuted / zero_sharing_reuse_leaks_refuted / rerandomised_product_uniform)',
                      'replay': ('m=3, t=1, small field, PRSS: party 0 subtracts the shares of the two openings masked by the same zero '
                                 'sharing, takes the roots of the difference f_r (f_s - f_a) and derives <= 2 candidates for the secret')
                      if reused else
                                ('m=3, t=1: party 0 interpolates the whole product polynomial from the 2 received shares + its own, '
                                 'factors it and derives <= 2 candidates for the secret from its own share of a'), 'empirical': emp}
            what = 'zero-sharing-reused' if reused else 'product-opened-without-rerandomisation'
            ctx.log('FAILING PRODUCT OPENING %s (%s): %s; empirical %s' % (func, what, [(r['site'], r['rerand']) for r in rs], json.dumps(emp)[:700]))
            ctx.case({'product_opening': func, 'what': what, 'sites': [r['site'] for r in rs]}, nontrivial=True, kind='product-opening')
            ctx.violation('%s site=%s' % (what, func), detail, found_input=found)

    # 7. the uniform low part of _mod's mask
    if failing_restart or rb_bad:
        from fractions import Fraction
        detail = {'site': 'runtime._mod#0', 'mask_low_part': 'r_modb = self.random._randbelow(stype, b, bits=True)',
                  'restart_statement': restart[1] if restart else None, 'restart_offsets_source_vs_model': [list(restart[0]) if restart else None, [0, 0]],
                  'exact_distribution_of_randbelow': [{k: r[k] for k in ('b', 'mass', 'cut_mass', 'spread')} for r in rb_bad]}
        if rb_bad:
            r = rb_bad[0]
            ms = [Fraction(x) for x in r['mass']]
            tot = sum(ms)
            b = r['b']
            detail['failing_input'] = {
                'b': b, 'secrets': [0, 1], 'why': 'c mod b = (a - r_modb) mod b is opened inside _mod',
                'P(c mod b = j | a = 0)': [str(ms[(-j) % b] / tot) for j in range(b)],
                'P(c mod b = j | a = 1)': [str(ms[(1 - j) % b] / tot) for j in range(b)]}
        ctx.log('FAILING: _mod mask low part not uniform: restart %s; %s' % (restart, json.dumps(detail.get('failing_input'))[:400]))
        ctx.violation('mask-low-part-not-uniform site=_mod via=_randbelow', detail, found_input=bool(rb_bad))

    if ctx.broken and not ctx.violations:
        ctx.unproved('C18 table/correspondence', {'broken': ctx.broken[:6]})
    elif ctx.broken:
        ctx.log('broken items: %s' % json.dumps(ctx.broken[:4], default=str)[:1500])
        if not any(v[0].startswith('unproved') for v in ctx.violations):
            ctx.unproved('C18 table/correspondence', {'broken': ctx.broken[:6]})


def table_witness(row, G):
    """Mask bits vs needed bits at the default parameters l = L = 32, k = 30, f = 16, t = 1, m = 3 (dealers)."""
    env = dict(VL=32, Vl=32, Vk=30, Vf=16, Vt=1, Vm=3, Vb=3, Vn=5)
    try:
        if row['bound'] is None:
            return {'mask_range': G.py_eval(row['scale'], env), 'secret_range': G.py_eval(row['secret'], env)}
        B = G.py_eval(row['bound'], env)
        d = env['Vt'] + 1
        eff = B if row['via'] == 'ViaDirect' else 1 << max(0, (B // d).bit_length() - 1)
        rng = G.py_eval(row['scale'], env) * eff
        sec = G.py_eval(row['secret'], env)
        return {'params': 'L=l=32 k=30 f=16 t=1 m=3 b=3 n=5, no PRSS', 'per_summand_bound_bits': eff.bit_length() - 1,
                'mask_range_bits': round(math.log2(rng), 2), 'secret_range_bits': round(math.log2(sec), 2),
                'needed_bits': round(math.log2(sec), 2) + 30 - 1,
                'sd_lower_bound_for_extreme_secrets': min(1.0, round(sec / 2 / (rng * d), 6))}
    except Exception as exc:  # noqa
        return {'error': repr(exc)}


def search(sc, python, ctx, reps=30):
    """Two secrets with equal outputs, reps runs each (fresh randomness per run), opened values compared with a
    threshold distinguisher (threshold chosen on the first half of the samples, advantage measured on the second)."""
    res = {}
    for no_prss in (False, True):
        if sc.get('prss_only') and no_prss:
            continue
        mt = sc.get('search_mt', (3, 1))
        cfg = dict(m=mt[0], t=mt[1], no_prss=no_prss, K=8, seed=ctx.seed + 1,
                   steps=[(sc['name'], sc['pair'][0], reps), (sc['name'], sc['pair'][1], reps)])
        out = spawn(cfg, python)
        if 'error' in out:
            res['error'] = out['error'][-400:]
            continue
        a, b = out['steps']
        outs_a, outs_b = a['results'][0], b['results'][0]

        def flat(x):
            while isinstance(x, list) and x:
                x = x[0]
            return x
        va = [flat(v) for v in a['events']['open']]
        vb = [flat(v) for v in b['events']['open']]
        if not va or not vb or not isinstance(va[0], int):
            res['error'] = 'no opened values logged'
            continue
        h = len(va) // 2
        pool = sorted(va[:h] + vb[:h])
        thr = pool[len(pool) // 2]
        pa = sum(1 for v in va[h:] if v > thr) / max(1, len(va) - h)
        pb = sum(1 for v in vb[h:] if v > thr) / max(1, len(vb) - h)
        adv = abs(pa - pb)
        n2 = min(len(va), len(vb)) - h
        bound = 2.0 ** (-8 + 2) + 3 * math.sqrt(0.5 / max(1, n2))
        res['prss' if not no_prss else 'noprss'] = {
            'secrets': [sc['pair'][0], sc['pair'][1]], 'k': out['k'], 'm': mt[0], 't': mt[1],
            'outputs_equal': outs_a == outs_b or (isinstance(outs_a, list) and isinstance(outs_b, list) and outs_a[0] == outs_b[0]),
            'outputs': [str(outs_a[0])[:60], str(outs_b[0])[:60]] if isinstance(outs_a, list) and outs_a else None,
            'opened_range_secret0': [min(va), max(va)], 'opened_range_secret1': [min(vb), max(vb)],
            'threshold': thr, 'advantage': round(adv, 3), 'allowed_2^(-k+slack)+3sigma': round(bound, 3),
            'samples_per_secret': len(va), 'distinguishes': adv > bound}
    res['distinguishes'] = any(isinstance(v, dict) and v.get('distinguishes') for v in res.values())
    return res


if __name__ == '__main__':
    if '--worker' in sys.argv:
        cfg = json.loads(sys.stdin.read())
        r = {'product': worker_product, 'tchange': worker_tchange, 'exact': worker_exact, 'randbelow': worker_randbelow, 'maskbits': worker_maskbits}.get(cfg.get('mode'), worker)(cfg)
        print('RESULT ' + json.dumps(r, default=str))
