(** Irred.v — executable model of _is_irreducible / _next_irreducible of both polynomial classes
    of mpyc/gfpx.py and of finfields.find_irreducible / the xGF acceptance test, as coded;
    brute-force reference definitions; bounded-exhaustive and general theorems. *)
Require Import MPyC.Base MPyC.Zp MPyC.Gfpx MPyC.Gf2x.
From Coq Require Import ZArith Znumtheory Lia ZifyBool Bool.
Local Open Scope Z_scope.

Definition list_eqb (a b : list Z) : bool :=
  (length a =? length b)%nat && forallb (fun xy => fst xy =? snd xy) (combine a b).

Section Generic.
Variable p : Z.

(** for _ in range(deg(a)//2): b = b^p mod a; if gcd(b - X, a) != 1: return False *)
Fixpoint irred_loop (cnt : nat) (a b : list Z) : res bool :=
  match cnt with
  | O => Ok true
  | S c => bind (powmod p b p (Some a)) (fun b' =>
           bind (gcd p (sub p b' [0; 1]) a) (fun g =>
           if list_eqb g [1] then irred_loop c a b' else Ok false))
  end.
Definition is_irreducible (a : list Z) : res bool :=
  if (length a <=? 1)%nat then Ok false
  else irred_loop (Nat.div (length a - 1) 2) a [0; 1].

(** while True: a += 1; if a % p == 0 and a != p: a += 1; _a = from_int(a);
      if _a[-1] != 1: a = p**len(_a) - 1; continue;  if is_irreducible(_a): break *)
Fixpoint next_loop (fuel : nat) (a : Z) : res (list Z) :=
  match fuel with
  | O => NoFuel
  | S f => let a := a + 1 in
           let a := if (a mod p =? 0) && negb (a =? p) then a + 1 else a in
           let _a := from_int p a in
           if negb (last _a 0 =? 1) then next_loop f (p ^ Z.of_nat (length _a) - 1)
           else bind (is_irreducible _a) (fun ir => if ir then Ok _a else next_loop f a)
  end.
Definition next_irreducible (fuel : nat) (a : list Z) : res (list Z) := next_loop fuel (to_int p a).
(** finfields.find_irreducible(p, d) = GFpX(p).next_irreducible(p**d - 1) *)
Definition find_irreducible (fuel : nat) (d : Z) : res (list Z) :=
  next_irreducible fuel (from_int p (p ^ d - 1)).
(** finfields.xGF(modulus): raises ValueError unless is_irreducible(modulus) *)
Definition gf_accepts (a : list Z) : res bool := is_irreducible a.
End Generic.

(** binary class *)
Fixpoint irred2_loop (cnt : nat) (a b : Z) : res bool :=
  match cnt with
  | O => Ok true
  | S c => let b := mul2 b b in
           bind (mod2 b a) (fun b' =>
           bind (gcd2 (Z.lxor b' 2) a) (fun g =>
           if g =? 1 then irred2_loop c a b' else Ok false))
  end.
Definition is_irreducible2 (a : Z) : res bool :=
  if a <=? 1 then Ok false else irred2_loop (Z.to_nat ((blen a - 1) / 2)) a 2.
(** a += 2 while not irreducible *)
Fixpoint next2_loop (fuel : nat) (a : Z) : res Z :=
  match fuel with
  | O => NoFuel
  | S f => bind (is_irreducible2 a) (fun ir => if ir then Ok a else next2_loop f (a + 2))
  end.
Definition next_irreducible2 (fuel : nat) (a : Z) : res Z :=
  if a <=? 1 then Ok 2 else next2_loop fuel (a + 1 + a mod 2).
Definition find_irreducible2 (fuel : nat) (d : Z) : res Z := next_irreducible2 fuel (2 ^ d - 1).

(** ---- brute-force reference: a (degree >= 1) is irreducible iff no polynomial d with
    1 <= deg d <= deg a / 2 ... divides it; candidates enumerated as integers ---- *)
Section Brute.
Variable p : Z.
Definition divides_b (d a : list Z) : bool :=
  match d with [] => false | _ => match mod_nz p a d with [] => true | _ => false end end.
(** all integers in [lo, lo+n) *)
Fixpoint zrange (lo : Z) (n : nat) : list Z :=
  match n with O => [] | S n' => lo :: zrange (lo + 1) n' end.
(** candidates: every polynomial d with p <= int(d) < p^(deg a) (degree 1 .. deg a - 1) *)
Definition brute_irreducible (a : list Z) : bool :=
  (1 <? Z.of_nat (length a)) &&
  forallb (fun k => negb (divides_b (from_int p k) a))
          (zrange p (Z.to_nat (p ^ (Z.of_nat (length a) - 1) - p))).
End Brute.

(** ------------------------------------------------------------------------------------------
    Part 2: theorems.  Bounded-exhaustive statements carry their bound and are proved by
    vm_compute of a boolean check over the whole domain + forallb_forall. *)
Lemma zrange_In lo n a : lo <= a < lo + Z.of_nat n <-> In a (zrange lo n).
Proof.
  revert lo; induction n as [|n IH]; intros lo; cbn [zrange In].
  - split; [lia|tauto].
  - rewrite <- IH. lia.
Qed.
Lemma forallb_zrange f lo n : forallb f (zrange lo n) = true -> forall a, lo <= a < lo + Z.of_nat n -> f a = true.
Proof. intros H a Ha. apply (proj1 (forallb_forall f _) H). apply zrange_In, Ha. Qed.

(** the reference test says what it should: degree >= 1 and no polynomial d with
    p <= int(d) < p^(deg a), i.e. 1 <= deg d < deg a, leaves remainder zero *)
Theorem brute_irreducible_iff p a : 0 <= p ->
  brute_irreducible p a = true <->
  (1 < length a)%nat /\
  forall k, p <= k < p ^ (Z.of_nat (length a) - 1) -> from_int p k = [] \/ mod_nz p a (from_int p k) <> [].
Proof.
  intros Hp. unfold brute_irreducible. rewrite andb_true_iff, Z.ltb_lt, forallb_forall.
  split; intros [H1 H2]; (split; [lia|]).
  - intros k Hk. specialize (H2 k). rewrite <- zrange_In in H2.
    assert (Hr : p <= k < p + Z.of_nat (Z.to_nat (p ^ (Z.of_nat (length a) - 1) - p))) by lia.
    specialize (H2 Hr). unfold divides_b in H2.
    destruct (from_int p k) as [|y d]; [left; reflexivity|right].
    destruct (mod_nz p a (y :: d)); [discriminate|discriminate].
  - intros k Hk. apply zrange_In in Hk.
    assert (Hr : p <= k < p ^ (Z.of_nat (length a) - 1)) by lia.
    specialize (H2 k Hr). unfold divides_b.
    destruct (from_int p k) as [|y d]; [reflexivity|].
    destruct H2 as [H2|H2]; [discriminate|]. destruct (mod_nz p a (y :: d)); [congruence|reflexivity].
Qed.

Definition irr_ok (p a : Z) : bool :=
  match is_irreducible p (from_int p a) with
  | Ok r => Bool.eqb r (brute_irreducible p (from_int p a))
  | _ => false
  end.
Definition irr2_ok (a : Z) : bool :=
  match is_irreducible2 a with
  | Ok r => Bool.eqb r (brute_irreducible 2 (bits a))
  | _ => false
  end.
Lemma irr_ok_spec p a : irr_ok p a = true -> is_irreducible p (from_int p a) = Ok (brute_irreducible p (from_int p a)).
Proof. unfold irr_ok. destruct (is_irreducible p (from_int p a)); try discriminate. intros H. apply eqb_prop in H. congruence. Qed.
Lemma irr2_ok_spec a : irr2_ok a = true -> is_irreducible2 a = Ok (brute_irreducible 2 (bits a)).
Proof. unfold irr2_ok. destruct (is_irreducible2 a); try discriminate. intros H. apply eqb_prop in H. congruence. Qed.

(** Ben-Or test = brute force, generic class, all polynomials with integer encoding below the bound *)
Theorem is_irreducible_bounded : forall p N, In (p, N) [(2, 1024); (3, 729); (5, 625); (7, 343)] ->
  forall a, 0 <= a < N -> is_irreducible p (from_int p a) = Ok (brute_irreducible p (from_int p a)).
Proof.
  intros p N H a Ha. apply irr_ok_spec. revert a Ha.
  cbn [In] in H. destruct H as [H|[H|[H|[H|[]]]]]; inversion H; subst p N; clear H.
  - apply (forallb_zrange (irr_ok 2) 0 1024). vm_cast_no_check (eq_refl true).
  - apply (forallb_zrange (irr_ok 3) 0 729). vm_cast_no_check (eq_refl true).
  - apply (forallb_zrange (irr_ok 5) 0 625). vm_cast_no_check (eq_refl true).
  - apply (forallb_zrange (irr_ok 7) 0 343). vm_cast_no_check (eq_refl true).
Qed.
(** ... binary class *)
Theorem is_irreducible2_bounded : forall a, 0 <= a < 1024 ->
  is_irreducible2 a = Ok (brute_irreducible 2 (bits a)).
Proof.
  intros a Ha. apply irr2_ok_spec. revert a Ha.
  apply (forallb_zrange irr2_ok 0 1024). vm_cast_no_check (eq_refl true).
Qed.
(** finfields.xGF accepts a modulus iff is_irreducible says so *)
Theorem gf_accepts_bounded : forall p N, In (p, N) [(2, 1024); (3, 729); (5, 625); (7, 343)] ->
  forall a, 0 <= a < N -> gf_accepts p (from_int p a) = Ok (brute_irreducible p (from_int p a)).
Proof. exact is_irreducible_bounded. Qed.

(** next_irreducible relative to is_irreducible: result b > a, monic irreducible, nothing in between *)
Definition monic_irr (p c : Z) : bool :=
  (last (from_int p c) 0 =? 1) && match is_irreducible p (from_int p c) with Ok true => true | _ => false end.
Definition next_ok (p a : Z) : bool :=
  match next_irreducible p 600 (from_int p a) with
  | Ok b => let ib := to_int p b in
            (a <? ib) && monic_irr p ib && forallb (fun c => negb (monic_irr p c)) (zrange (a + 1) (Z.to_nat (ib - a - 1)))
  | _ => false
  end.
Definition irr2b (c : Z) : bool := match is_irreducible2 c with Ok true => true | _ => false end.
Definition next2_ok (a : Z) : bool :=
  match next_irreducible2 600 a with
  | Ok b => (a <? b) && irr2b b && forallb (fun c => negb (irr2b c)) (zrange (a + 1) (Z.to_nat (b - a - 1)))
  | _ => false
  end.
Lemma next_ok_spec p a : next_ok p a = true ->
  exists b, next_irreducible p 600 (from_int p a) = Ok b /\ a < to_int p b /\ monic_irr p (to_int p b) = true /\
            forall c, a < c < to_int p b -> monic_irr p c = false.
Proof.
  unfold next_ok. destruct (next_irreducible p 600 (from_int p a)) as [b| | |]; try discriminate.
  intros H. apply andb_true_iff in H. destruct H as [H H3]. apply andb_true_iff in H. destruct H as [H1 H2].
  exists b. split; [reflexivity|]. split; [apply Z.ltb_lt, H1|]. split; [exact H2|].
  intros c Hc. apply negb_true_iff. apply (forallb_zrange _ _ _ H3). lia.
Qed.
Lemma next2_ok_spec a : next2_ok a = true ->
  exists b, next_irreducible2 600 a = Ok b /\ a < b /\ is_irreducible2 b = Ok true /\
            forall c, a < c < b -> is_irreducible2 c <> Ok true.
Proof.
  unfold next2_ok. destruct (next_irreducible2 600 a) as [b| | |]; try discriminate.
  intros H. apply andb_true_iff in H. destruct H as [H H3]. apply andb_true_iff in H. destruct H as [H1 H2].
  exists b. split; [reflexivity|]. split; [apply Z.ltb_lt, H1|]. split.
  - unfold irr2b in H2. destruct (is_irreducible2 b) as [[|]| | |]; try discriminate. reflexivity.
  - intros c Hc E. assert (Hn : negb (irr2b c) = true) by (apply (forallb_zrange _ _ _ H3); lia).
    unfold irr2b in Hn. rewrite E in Hn. discriminate.
Qed.

(** binary class: next_irreducible is the least irreducible above its argument (a < 1024) *)
Theorem next_irreducible2_bounded : forall a, 0 <= a < 1024 ->
  exists b, next_irreducible2 600 a = Ok b /\ a < b /\ is_irreducible2 b = Ok true /\
            forall c, a < c < b -> is_irreducible2 c <> Ok true.
Proof.
  intros a Ha. apply next2_ok_spec. revert a Ha.
  apply (forallb_zrange next2_ok 0 1024). vm_cast_no_check (eq_refl true).
Qed.

(** generic class: the least monic irreducible above a, for every a in the bounded domains (X included: the
    search no longer skips the candidate X, cf. the repaired finding F-C24-1) *)
Theorem next_irreducible_bounded : forall p N, In (p, N) [(2, 512); (3, 243); (5, 625); (7, 343)] ->
  forall a, 0 <= a < N ->
  exists b, next_irreducible p 600 (from_int p a) = Ok b /\ a < to_int p b /\ monic_irr p (to_int p b) = true /\
            forall c, a < c < to_int p b -> monic_irr p c = false.
Proof.
  intros p N H a Ha. apply next_ok_spec. revert a Ha.
  cbn [In] in H. destruct H as [H|[H|[H|[H|[]]]]]; inversion H; subst p N; clear H.
  - intros a Ha. apply (forallb_zrange (next_ok 2) 0 512); [vm_cast_no_check (eq_refl true)|lia].
  - intros a Ha. apply (forallb_zrange (next_ok 3) 0 243); [vm_cast_no_check (eq_refl true)|lia].
  - intros a Ha. apply (forallb_zrange (next_ok 5) 0 625); [vm_cast_no_check (eq_refl true)|lia].
  - intros a Ha. apply (forallb_zrange (next_ok 7) 0 343); [vm_cast_no_check (eq_refl true)|lia].
Qed.
(** in particular X itself is found from every a < p, for the odd primes of the bounded family *)
Lemma list_eqb_true a b : list_eqb a b = true -> a = b.
Proof.
  unfold list_eqb. revert b; induction a as [|x a IH]; intros [|y b]; cbn; try discriminate; [reflexivity|].
  intros H. apply andb_true_iff in H. destruct H as [H1 H2]. apply andb_true_iff in H2. destruct H2 as [H2 H3].
  apply Z.eqb_eq in H2. subst y. f_equal. apply IH. rewrite H1, H3. reflexivity.
Qed.
Definition findsX_ok (q : Z) : bool :=
  forallb (fun a => match next_irreducible q 600 (from_int q a) with Ok b => list_eqb b [0; 1] | _ => false end)
          (zrange 0 (Z.to_nat q)).
Theorem next_irreducible_finds_X_bounded : forall p, In p [3; 5; 7; 11; 13] ->
  forall a, 0 <= a < p -> next_irreducible p 600 (from_int p a) = Ok [0; 1].
Proof.
  intros p H a Ha.
  assert (K : findsX_ok p = true).
  { cbn [In] in H. destruct H as [H|[H|[H|[H|[H|[]]]]]]; subst p; vm_cast_no_check (eq_refl true). }
  unfold findsX_ok in K.
  pose proof (forallb_zrange _ _ _ K a ltac:(lia)) as E. cbv beta in E.
  destruct (next_irreducible p 600 (from_int p a)) as [b| | |]; try discriminate.
  apply list_eqb_true in E. congruence.
Qed.

(** find_irreducible(p, d): smallest monic irreducible of degree d (bounded d); for the generic class and d = 1 this
    is X+1 instead of X (same finding) *)
Definition find2_ok (d : Z) : bool :=
  match find_irreducible2 600 d with
  | Ok b => (2 ^ d <=? b) && (b <? 2 ^ (d + 1)) && irr2b b && forallb (fun c => negb (irr2b c)) (zrange (2 ^ d) (Z.to_nat (b - 2 ^ d)))
  | _ => false
  end.
Theorem find_irreducible2_smallest_bounded : forall d, 1 <= d <= 12 ->
  exists b, find_irreducible2 600 d = Ok b /\ 2 ^ d <= b < 2 ^ (d + 1) /\ is_irreducible2 b = Ok true /\
            forall c, 2 ^ d <= c < b -> is_irreducible2 c <> Ok true.
Proof.
  intros d Hd.
  assert (F : forallb find2_ok (zrange 1 12) = true) by (vm_cast_no_check (eq_refl true)).
  assert (Hr : 1 <= d < 1 + Z.of_nat 12) by lia.
  pose proof (forallb_zrange find2_ok 1 12 F d Hr) as H. clear F Hr Hd. unfold find2_ok in H.
  destruct (find_irreducible2 600 d) as [b| | |]; try discriminate.
  set (T := 2 ^ d) in *. set (T2 := 2 ^ (d + 1)) in *. clearbody T T2.
  apply andb_true_iff in H. destruct H as [H H4]. apply andb_true_iff in H. destruct H as [H H3].
  apply andb_true_iff in H. destruct H as [H1 H2]. apply Z.leb_le in H1. apply Z.ltb_lt in H2.
  exists b. split; [reflexivity|]. split; [split; assumption|]. split.
  - unfold irr2b in H3. destruct (is_irreducible2 b) as [[|]| | |]; try discriminate. reflexivity.
  - intros c Hc E.
    assert (Hn : negb (irr2b c) = true).
    { apply (forallb_zrange (fun c => negb (irr2b c)) T (Z.to_nat (b - T)) H4). lia. }
    unfold irr2b in Hn. rewrite E in Hn. discriminate.
Qed.
(** generic class: find_irreducible(p, d) = next_irreducible(p^d - 1) is the least monic irreducible of integer
    encoding >= p^d (so of degree d), on the bounded domains, d = 1 included *)
Theorem find_irreducible_bounded : forall p N, In (p, N) [(2, 512); (3, 243); (5, 625); (7, 343)] ->
  forall d, 0 <= p ^ d - 1 < N ->
  exists b, find_irreducible p 600 d = Ok b /\ p ^ d - 1 < to_int p b /\ monic_irr p (to_int p b) = true /\
            forall c, p ^ d - 1 < c < to_int p b -> monic_irr p c = false.
Proof. intros p N H d Hd. exact (next_irreducible_bounded p N H (p ^ d - 1) Hd). Qed.
