(** Routing model of runtime.transfer / runtime.input (_distribute) / runtime.output:
    who sends to whom, who expects a message from whom (in the order the code iterates), and
    what each party returns.  Party indices and m are [nat]; the index arithmetic of [output]
    ((peer_pid - pid) % m, (pid - t + j) % m) is done in [Z] with Coq's [mod], which agrees with
    Python's % for a positive modulus.  Pickle is not modelled: a payload is an opaque token
    [obj i] (the object supplied by party i). *)
Require Import MPyC.Base MPyC.Field MPyC.Poly MPyC.Lagrange MPyC.Shamir MPyC.Zp.
From Coq Require Import ZArith Bool Lia.
Local Open Scope nat_scope.

(** [x in l] for Python lists/ranges of party indices *)
Definition mem (x : nat) (l : list nat) : bool := existsb (Nat.eqb x) l.

Lemma mem_In x l : mem x l = true <-> In x l.
Proof.
  unfold mem. rewrite existsb_exists. split.
  - intros [y [Hy E]]. apply Nat.eqb_eq in E. subst. exact Hy.
  - intros H. exists x. split; [exact H|apply Nat.eqb_refl].
Qed.

Lemma mem_false x l : mem x l = false <-> ~ In x l.
Proof. rewrite <- mem_In. destruct (mem x l); split; congruence. Qed.

(* ------------------------------------------------------------------------------------------ *)
(** * transfer (code after the repairs 5a43ef0 / cb049a3: no error case remains) *)

(** The three argument forms after the code's normalisation:
    - [Bip Sd R] : senders/receivers (None -> range(m), int -> [int], else list(...)) — done by
                   the caller of the model ([norm_arg] below), lists kept in the given order;
    - [Dict d]   : sender_receivers as a dict, as its items() in insertion order (keys distinct);
    - [Pairs g]  : sender_receivers as a list of (sender, receiver) pairs. *)
Inductive Graph :=
| Bip (Sd Rc : list nat)
| Dict (d : list (nat * list nat))
| Pairs (g : list (nat * nat)).

(** senders=None / receivers=None -> range(m) *)
Definition norm_arg (m : nat) (a : option (list nat)) : list nat :=
  match a with None => seq 0 m | Some l => l end.

(**   my_senders = senders if self.pid in receivers else []
      my_senders = [a for a, b in sender_receivers.items() if self.pid in b]
      my_senders = [a for a, b in sender_receivers if b == self.pid]                          *)
Definition my_senders (G : Graph) (pid : nat) : list nat :=
  match G with
  | Bip Sd R => if mem pid R then Sd else []
  | Dict d => map fst (filter (fun ab => mem pid (snd ab)) d)
  | Pairs g => map fst (filter (fun ab => snd ab =? pid) g)
  end.

(** sender_receivers.get(self.pid, ()) *)
Definition dict_get (d : list (nat * list nat)) (pid : nat) : list nat :=
  match find (fun ab => fst ab =? pid) d with Some ab => snd ab | None => [] end.

(**   my_receivers = receivers if self.pid in senders else []
      my_receivers = list(sender_receivers.get(self.pid, ()))
      my_receivers = [b for a, b in sender_receivers if a == self.pid]                        *)
Definition my_receivers (G : Graph) (pid : nat) : list nat :=
  match G with
  | Bip Sd R => if mem pid Sd then R else []
  | Dict d => dict_get d pid
  | Pairs g => map snd (filter (fun ab => fst ab =? pid) g)
  end.

(** messages actually put on / expected from the network (peer_pid != self.pid), in loop order *)
Definition not_self (pid : nat) (l : list nat) : list nat := filter (fun q => negb (q =? pid)) l.
Definition transfer_sends (G : Graph) (pid : nat) : list nat := not_self pid (my_receivers G pid).
Definition transfer_recvs (G : Graph) (pid : nat) : list nat := not_self pid (my_senders G pid).

(** the designated arcs of the communication graph *)
Definition arc (G : Graph) (i j : nat) : Prop :=
  match G with
  | Bip Sd R => In i Sd /\ In j R
  | Dict d => exists l, In (i, l) d /\ In j l
  | Pairs g => In (i, j) g
  end.

Definition wf (G : Graph) : Prop :=
  match G with Dict d => NoDup (map fst d) | _ => True end.

(** what a party returns: the objects of its designated senders in my_senders order;
    with [senders] an int:  outdata[0] if outdata else None *)
Section TransferResult.
Context {A : Type}.
Variable obj : nat -> A.

Definition transfer_result (G : Graph) (pid : nat) : list A := map obj (my_senders G pid).

Definition transfer_result_int (s : nat) (R : list nat) (pid : nat) : option A :=
  match transfer_result (Bip [s] R) pid with
  | x :: _ => Some x
  | [] => None
  end.
End TransferResult.

Lemma find_key_some (d : list (nat * list nat)) i l :
  NoDup (map fst d) -> (find (fun ab => fst ab =? i) d = Some (i, l) <-> In (i, l) d).
Proof.
  induction d as [|[a b] d IH]; simpl; intros Hnd.
  - split; [discriminate|contradiction].
  - inversion Hnd as [|? ? Hnotin Hnd']; subst.
    destruct (a =? i) eqn:E.
    + apply Nat.eqb_eq in E. subst a. split.
      * intros H. inversion H; subst. left. reflexivity.
      * intros [H|H]; [inversion H; subst; reflexivity|].
        exfalso. apply Hnotin. apply in_map_iff. exists (i, l). split; auto.
    + apply Nat.eqb_neq in E. rewrite IH by exact Hnd'. split.
      * intros H. right. exact H.
      * intros [H|H]; [inversion H; subst; congruence|exact H].
Qed.

Lemma find_key_fst (d : list (nat * list nat)) i ab :
  find (fun ab => fst ab =? i) d = Some ab -> fst ab = i.
Proof. intros H. apply find_some in H. destruct H as [_ H]. apply Nat.eqb_eq in H. exact H. Qed.

(** the dict lookup with default: j is in d.get(i, ()) iff some item (i, l) of d has j in l *)
Lemma in_dict_get (d : list (nat * list nat)) i j :
  NoDup (map fst d) -> (In j (dict_get d i) <-> exists l, In (i, l) d /\ In j l).
Proof.
  intros Hnd. unfold dict_get.
  destruct (find (fun ab => fst ab =? i) d) as [[a b]|] eqn:F; simpl.
  - pose proof (find_key_fst _ _ _ F) as Ea. simpl in Ea. subst a.
    apply (find_key_some d i b Hnd) in F. split.
    + intros Hj. exists b. auto.
    + intros [l [H1 H2]]. assert (l = b) as ->; [|exact H2].
      apply (find_key_some d i l Hnd) in H1. apply (find_key_some d i b Hnd) in F. congruence.
  - split; [contradiction|]. intros [l [H1 _]].
    apply (find_none _ _ F) in H1. simpl in H1. rewrite Nat.eqb_refl in H1. discriminate.
Qed.

(** a party that is not a key of the dict has no receivers (and sends nothing) *)
Lemma dict_get_missing (d : list (nat * list nat)) i : ~ In i (map fst d) -> dict_get d i = [].
Proof.
  intros H. unfold dict_get. destruct (find (fun ab => fst ab =? i) d) as [ab|] eqn:F; [|reflexivity].
  exfalso. apply H. pose proof (find_key_fst _ _ _ F) as E. apply find_some in F.
  apply in_map_iff. exists ab. tauto.
Qed.

(** exactly the designated senders are expected *)
Theorem my_senders_arc (G : Graph) i j : In i (my_senders G j) <-> arc G i j.
Proof.
  destruct G as [Sd R|d|g]; simpl.
  - destruct (mem j R) eqn:E.
    + apply mem_In in E. tauto.
    + apply mem_false in E. simpl. tauto.
  - rewrite in_map_iff. split.
    + intros [[a b] [E H]]. simpl in E. subst a. apply filter_In in H. destruct H as [H1 H2].
      simpl in H2. apply mem_In in H2. exists b. auto.
    + intros [l [H1 H2]]. exists (i, l). split; [reflexivity|]. apply filter_In. split; [exact H1|].
      simpl. apply mem_In. exact H2.
  - rewrite in_map_iff. split.
    + intros [[a b] [E H]]. simpl in E. subst a. apply filter_In in H. destruct H as [H1 H2].
      simpl in H2. apply Nat.eqb_eq in H2. subst b. exact H1.
    + intros H. exists (i, j). split; [reflexivity|]. apply filter_In. split; [exact H|].
      simpl. apply Nat.eqb_refl.
Qed.

(** exactly the designated receivers are sent to — for EVERY party, key of the dict or not *)
Theorem my_receivers_arc (G : Graph) i j : wf G -> (In j (my_receivers G i) <-> arc G i j).
Proof.
  destruct G as [Sd R|d|g]; simpl; intros Hwf.
  - destruct (mem i Sd) eqn:E.
    + apply mem_In in E. tauto.
    + apply mem_false in E. simpl. tauto.
  - apply in_dict_get. exact Hwf.
  - rewrite in_map_iff. split.
    + intros [[a b] [E H]]. simpl in E. subst b. apply filter_In in H. destruct H as [H1 H2].
      simpl in H2. apply Nat.eqb_eq in H2. subst a. exact H1.
    + intros H. exists (i, j). split; [reflexivity|]. apply filter_In. split; [exact H|].
      simpl. apply Nat.eqb_refl.
Qed.

(** C07: receiver j expects a message from i iff i sends to j (all three forms, all parties) *)
Theorem transfer_matched (G : Graph) i j :
  wf G -> (In j (my_receivers G i) <-> In i (my_senders G j)).
Proof. intros Hwf. rewrite my_senders_arc. apply my_receivers_arc; assumption. Qed.

Lemma in_not_self pid q l : In q (not_self pid l) <-> In q l /\ q <> pid.
Proof.
  unfold not_self. rewrite filter_In. rewrite negb_true_iff, Nat.eqb_neq. tauto.
Qed.

(** ... and on the wire: a frame i -> j is written iff j calls receive for i *)
Theorem transfer_wire_matched (G : Graph) i j :
  wf G -> (In j (transfer_sends G i) <-> In i (transfer_recvs G j)).
Proof.
  unfold transfer_sends, transfer_recvs. intros Hwf. rewrite !in_not_self.
  rewrite (transfer_matched G i j Hwf). split; intros [H1 H2]; split; auto.
Qed.

(** C19: nothing is sent to a party that is not a designated receiver of the sender *)
Theorem transfer_sends_within_receivers (G : Graph) i j :
  wf G -> In j (transfer_sends G i) -> arc G i j.
Proof.
  unfold transfer_sends. intros Hwf Hj. apply in_not_self in Hj. destruct Hj as [Hj _].
  apply (my_receivers_arc G i j Hwf). exact Hj.
Qed.

(** a party with no designated sender expects nothing and returns the empty list *)
Theorem transfer_nonreceiver (G : Graph) j :
  (forall i, ~ arc G i j) -> my_senders G j = [] /\ transfer_recvs G j = [].
Proof.
  intros H. assert (E : my_senders G j = []).
  { destruct (my_senders G j) as [|a l] eqn:E; [reflexivity|].
    exfalso. apply (H a). apply my_senders_arc. rewrite E. left. reflexivity. }
  split; [exact E|]. unfold transfer_recvs. rewrite E. reflexivity.
Qed.

(** a party that is not a key of a dict graph sends nothing *)
Theorem transfer_dict_missing_key_silent (d : list (nat * list nat)) i :
  ~ In i (map fst d) -> my_receivers (Dict d) i = [] /\ transfer_sends (Dict d) i = [].
Proof.
  intros H. simpl. unfold transfer_sends. simpl. rewrite (dict_get_missing d i H). split; reflexivity.
Qed.

Section TransferDelivers.
Context {A : Type}.
Variable obj : nat -> A.

(** each party returns exactly its designated senders' objects, in my_senders order *)
Theorem transfer_delivers (G : Graph) (j : nat) :
  transfer_result obj G j = map obj (my_senders G j).
Proof. reflexivity. Qed.

(** bipartite form: a receiver gets the senders' objects in the order of [senders], anyone
    else gets the empty list (the list-valued "None") *)
Theorem transfer_delivers_bip (Sd R : list nat) j :
  (In j R -> transfer_result obj (Bip Sd R) j = map obj Sd) /\
  (~ In j R -> transfer_result obj (Bip Sd R) j = []).
Proof.
  unfold transfer_result. simpl. split; intros H.
  - apply mem_In in H. rewrite H. reflexivity.
  - apply mem_false in H. rewrite H. reflexivity.
Qed.

(** pair-list form: the result lists the arcs into j in list order *)
Theorem transfer_delivers_pairs (g : list (nat * nat)) j :
  transfer_result obj (Pairs g) j = map obj (map fst (filter (fun ab => snd ab =? j) g)).
Proof. reflexivity. Qed.

(** dict form, EVERY party (key of the dict or not): the keys whose value contains j, in key order *)
Theorem transfer_delivers_dict (d : list (nat * list nat)) j :
  transfer_result obj (Dict d) j = map obj (map fst (filter (fun ab => mem j (snd ab)) d)).
Proof. reflexivity. Qed.

(** int sender: a receiver gets the object itself ... *)
Theorem transfer_int_receiver (s : nat) (R : list nat) j :
  In j R -> transfer_result_int obj s R j = Some (obj s).
Proof.
  intros H. unfold transfer_result_int, transfer_result. simpl.
  apply mem_In in H. rewrite H. reflexivity.
Qed.

(** ... and a non-receiver gets None (repair cb049a3) *)
Theorem transfer_int_nonreceiver_none (s : nat) (R : list nat) j :
  ~ In j R -> transfer_result_int obj s R j = None.
Proof.
  intros H. unfold transfer_result_int, transfer_result. simpl.
  apply mem_false in H. rewrite H. reflexivity.
Qed.
End TransferDelivers.

(* ------------------------------------------------------------------------------------------ *)
(** * input (_distribute): each sender deals to every other party; everybody expects one
      message from every sender other than itself, in the order of [senders] *)

Definition input_sends (m : nat) (Sd : list nat) (p : nat) : list nat :=
  if mem p Sd then not_self p (seq 0 m) else [].
Definition input_recvs (Sd : list nat) (r : nat) : list nat := not_self r Sd.

Theorem input_matched (m : nat) (Sd : list nat) p r :
  r < m -> (In r (input_sends m Sd p) <-> In p (input_recvs Sd r)).
Proof.
  intros Hr. unfold input_sends, input_recvs. rewrite in_not_self.
  destruct (mem p Sd) eqn:E.
  - apply mem_In in E. rewrite in_not_self, in_seq. split; intros H; repeat split; try tauto; try lia.
  - apply mem_false in E. simpl. tauto.
Qed.

(* ------------------------------------------------------------------------------------------ *)
(** * output *)

Definition zmodn (a : Z) (m : nat) : nat := Z.to_nat (a mod Z.of_nat m).

(**   for peer_pid in receivers:
          if 0 < (peer_pid - self.pid) % m <= t: send                                         *)
Definition out_send_test (m t p r : nat) : bool :=
  let d := ((Z.of_nat r - Z.of_nat p) mod Z.of_nat m)%Z in ((0 <? d)%Z && (d <=? Z.of_nat t)%Z).
Definition out_sends (m t : nat) (R : list nat) (p : nat) : list nat := filter (out_send_test m t p) R.

(**   if self.pid in receivers:
          shares = [receive((self.pid - t + j) % m) for j in range(t)]                        *)
Definition out_recv_from (m t r j : nat) : nat := zmodn (Z.of_nat r - Z.of_nat t + Z.of_nat j) m.
Definition out_recvs (m t : nat) (R : list nat) (r : nat) : list nat :=
  if mem r R then map (out_recv_from m t r) (seq 0 t) else [].

(**   points = [((pid - t + j) % m + 1, shares[j]) for j in range(t)] + [(pid + 1, x)]        *)
Definition out_point_ids (m t : nat) (R : list nat) (r : nat) : list nat := out_recvs m t R r ++ [r].

Lemma zmod_cases (a m : Z) : (0 < m)%Z -> (- m <= a < 2 * m)%Z ->
  ((a < 0 /\ a mod m = a + m) \/ (0 <= a < m /\ a mod m = a) \/ (m <= a /\ a mod m = a - m))%Z.
Proof.
  intros Hm Ha.
  destruct (Z_lt_le_dec a 0) as [H1|H1]; [left|right; destruct (Z_lt_le_dec a m) as [H2|H2]; [left|right]].
  - split; [exact H1|]. replace a with ((a + m) + (-1) * m)%Z at 1 by ring.
    rewrite Z_mod_plus_full. apply Z.mod_small. lia.
  - split; [lia|]. apply Z.mod_small. lia.
  - split; [exact H2|]. replace a with ((a - m) + 1 * m)%Z at 1 by ring.
    rewrite Z_mod_plus_full. apply Z.mod_small. lia.
Qed.

Lemma out_recv_from_spec m t r j : r < m -> t < m -> j < t ->
  out_recv_from m t r j < m /\
  (out_recv_from m t r j + t = r + j \/ out_recv_from m t r j + t = r + j + m).
Proof.
  intros Hr Ht Hj. unfold out_recv_from, zmodn.
  destruct (zmod_cases (Z.of_nat r - Z.of_nat t + Z.of_nat j) (Z.of_nat m)) as [[H1 H2]|[[H1 H2]|[H1 H2]]];
    try lia; rewrite H2; lia.
Qed.

Lemma out_send_test_spec m t p r : r < m -> p < m ->
  (out_send_test m t p r = true <-> (p < r /\ r - p <= t) \/ (r < p /\ r + m - p <= t)).
Proof.
  intros Hr Hp. unfold out_send_test. cbv zeta.
  rewrite andb_true_iff, Z.ltb_lt, Z.leb_le.
  destruct (zmod_cases (Z.of_nat r - Z.of_nat p) (Z.of_nat m)) as [[H1 H2]|[[H1 H2]|[H1 H2]]];
    try lia; rewrite H2; lia.
Qed.

Lemma in_out_recvs m t R r s : In r R ->
  (In s (out_recvs m t R r) <-> exists j, j < t /\ out_recv_from m t r j = s).
Proof.
  intros HR. unfold out_recvs. apply mem_In in HR. rewrite HR. rewrite in_map_iff. split.
  - intros [j [E H]]. apply in_seq in H. exists j. split; [lia|exact E].
  - intros [j [H E]]. exists j. split; [exact E|]. apply in_seq. lia.
Qed.

(** C07: every receive of [output] has its send and vice versa *)
Theorem output_matched (m t : nat) (R : list nat) r s :
  t < m -> r < m -> s < m -> In r R ->
  (In s (out_recvs m t R r) <-> In r (out_sends m t R s)).
Proof.
  intros Ht Hr Hs HR. rewrite in_out_recvs by exact HR.
  unfold out_sends. rewrite filter_In, out_send_test_spec by assumption. split.
  - intros [j [Hj E]]. split; [exact HR|].
    destruct (out_recv_from_spec m t r j Hr Ht Hj) as [_ H]. rewrite E in H. lia.
  - intros [_ H].
    assert (Hj : exists j, j < t /\ (s + t = r + j \/ s + t = r + j + m)).
    { destruct H as [[H1 H2]|[H1 H2]].
      - exists (s + t - r). lia.
      - exists (s + t - r - m). lia. }
    destruct Hj as [j [Hj H']]. exists j. split; [exact Hj|].
    destruct (out_recv_from_spec m t r j Hr Ht Hj) as [Hlt H'']. lia.
Qed.

Lemma NoDup_map_inj_in {A B} (f : A -> B) (l : list A) :
  (forall x y, In x l -> In y l -> f x = f y -> x = y) -> NoDup l -> NoDup (map f l).
Proof.
  induction l as [|a l IH]; simpl; intros Hinj Hnd; [constructor|].
  inversion Hnd as [|? ? Hnotin Hnd']; subst. constructor.
  - intros H. apply in_map_iff in H. destruct H as [b [E Hb]].
    apply Hinj in E; auto. subst. contradiction.
  - apply IH; auto.
Qed.

(** C07: a receiver expects t shares, from t distinct parties other than itself (so together
    with its own share it holds t+1 distinct points) *)
Theorem recvs_distinct (m t : nat) (R : list nat) r :
  t < m -> r < m -> In r R ->
  length (out_recvs m t R r) = t /\ NoDup (out_recvs m t R r) /\ ~ In r (out_recvs m t R r) /\
  (forall s, In s (out_recvs m t R r) -> s < m).
Proof.
  intros Ht Hr HR. split; [|split; [|split]].
  - unfold out_recvs. apply mem_In in HR. rewrite HR. apply map_seq_length.
  - unfold out_recvs. apply mem_In in HR. rewrite HR.
    apply NoDup_map_inj_in; [|apply seq_NoDup].
    intros x y Hx Hy E. apply in_seq in Hx, Hy.
    destruct (out_recv_from_spec m t r x Hr Ht) as [_ H1]; [lia|].
    destruct (out_recv_from_spec m t r y Hr Ht) as [_ H2]; [lia|]. lia.
  - intros H. apply in_out_recvs in H; [|exact HR]. destruct H as [j [Hj E]].
    destruct (out_recv_from_spec m t r j Hr Ht Hj) as [_ H]. lia.
  - intros s H. apply in_out_recvs in H; [|exact HR]. destruct H as [j [Hj E]].
    destruct (out_recv_from_spec m t r j Hr Ht Hj) as [H _]. lia.
Qed.

(** C19: a share is only ever sent to a member of [receivers] ... *)
Theorem output_sends_within_receivers (m t : nat) (R : list nat) p r :
  In r (out_sends m t R p) -> In r R.
Proof. unfold out_sends. intros H. apply filter_In in H. tauto. Qed.

(** ... never to the party itself ... *)
Theorem output_sends_not_self (m t : nat) (R : list nat) p : p < m -> ~ In p (out_sends m t R p).
Proof.
  intros Hp H. unfold out_sends in H. apply filter_In in H. destruct H as [_ H].
  apply out_send_test_spec in H; lia.
Qed.

(** ... and a non-receiver neither is sent anything by anybody nor waits for anything *)
Theorem output_nonreceiver_silent (m t : nat) (R : list nat) q :
  ~ In q R -> (forall p, ~ In q (out_sends m t R p)) /\ out_recvs m t R q = [].
Proof.
  intros H. split.
  - intros p Hq. apply H. eapply output_sends_within_receivers. exact Hq.
  - unfold out_recvs. apply mem_false in H. rewrite H. reflexivity.
Qed.

Lemma out_point_ids_facts (m t : nat) (R : list nat) r :
  t < m -> r < m -> In r R ->
  length (out_point_ids m t R r) = S t /\ NoDup (out_point_ids m t R r) /\
  (forall s, In s (out_point_ids m t R r) -> s < m).
Proof.
  intros Ht Hr HR. destruct (recvs_distinct m t R r Ht Hr HR) as [Hl [Hnd [Hni Hlt]]].
  unfold out_point_ids. split; [|split].
  - rewrite app_length, Hl. simpl. lia.
  - apply NoDup_rev in Hnd. rewrite <- (rev_involutive (_ ++ _)). apply NoDup_rev.
    rewrite rev_app_distr. simpl. constructor; [|exact Hnd]. rewrite <- in_rev. exact Hni.
  - intros s H. apply in_app_or in H. destruct H as [H|[H|[]]]; [apply Hlt, H|lia].
Qed.

(** the code's recombination at one receiver, from the parties' share rows *)
Section OutputDefs.
Variable K : Ops.
Variable inj : nat -> K.

Definition out_points (m t : nat) (R : list nat) (r : nat) (rows : nat -> list K) : list (nat * list K) :=
  map (fun s => (S s, rows s)) (out_point_ids m t R r).

(** what party r returns from output(x, receivers=R, threshold=t): Some values / None *)
Definition output_at (m t : nat) (R : list nat) (r : nat) (rows : nat -> list K) : option (list K) :=
  if mem r R then Some (recombine inj (out_points m t R r rows) (inj O)) else None.
End OutputDefs.
Arguments out_points {K}. Arguments output_at {K}.

(** executable instance over Z_p for the correspondence run: rows = list of the parties' share lists *)
Definition zp_output (p : Z) (m t : nat) (R : list nat) (r : nat) (rows : list (list Z)) : option (list Z) :=
  if mem r R
  then Some (map zval (@recombine (ZpOps p) (zp_of_nat p)
                         (map (fun s => (S s, map (mkZp p) (nth s rows []))) (out_point_ids m t R r)) (mkZp p 0)))
  else None.

Section OutputValue.
Variable K : FieldT.
Variable inj : nat -> K.
Variable m : nat.
Hypothesis inj_inj : forall i j, i <= m -> j <= m -> inj i = inj j -> i = j.
Hypothesis inj_0 : inj O = f0 K.

(** C07: if the parties' shares form a sharing of a of degree <= t' (the output threshold),
    every receiver recombines exactly a from its own share and its t' predecessors' shares —
    so all receivers of the same output obtain identical values. *)
Theorem output_value (sigma : list K) (a : K) (d t : nat) (R : list nat) (r : nat) :
  Sharing inj m d sigma a -> d <= t -> t < m -> r < m -> In r R ->
  recombine_at (map (fun s => inj (S s)) (out_point_ids m t R r))
               (map (fun s => nth s sigma (f0 K)) (out_point_ids m t R r)) (inj O) = a.
Proof.
  intros [Hlen [f [Hf [H0 Hv]]]] Hd Ht Hr HR.
  destruct (out_point_ids_facts m t R r Ht Hr HR) as [Hl [Hnd Hlt]].
  rewrite (map_ext_in (fun s => nth s sigma (f0 K)) (fun s => eval f (inj (S s)))).
  2:{ intros s Hs. apply Hv. apply Hlt. exact Hs. }
  rewrite <- (map_map (fun s => inj (S s)) (eval f)).
  rewrite lagrange_eval.
  - rewrite inj_0. exact H0.
  - rewrite <- (map_map S inj). apply (NoDup_map_inj K inj m inj_inj).
    + apply NoDup_map_inj_in; [|exact Hnd]. intros x y _ _ E. lia.
    + intros i Hi. apply in_map_iff in Hi. destruct Hi as [s [E Hs]]. apply Hlt in Hs. lia.
  - rewrite map_length, Hl. lia.
Qed.

(** the same for the code's list-valued recombination: column h of the result *)
Theorem output_at_value (rows : nat -> list K) (n : nat) (secrets : list K) (d t : nat) (R : list nat) (r h : nat) :
  (forall s, s < m -> length (rows s) = n) -> h < n ->
  Sharing inj m d (map (fun s => nth h (rows s) (f0 K)) (seq 0 m)) (nth h secrets (f0 K)) ->
  d <= t -> t < m -> r < m -> In r R ->
  exists y, output_at inj m t R r rows = Some y /\ nth h y (f0 K) = nth h secrets (f0 K).
Proof.
  intros Hrows Hh HS Hd Ht Hr HR.
  unfold output_at. pose proof HR as HR'. apply mem_In in HR'. rewrite HR'.
  eexists. split; [reflexivity|].
  destruct (out_point_ids_facts m t R r Ht Hr HR) as [Hl [Hnd Hlt]].
  unfold recombine, out_points.
  assert (Hn : length (snd (hd (O, []) (map (fun s => (S s, rows s)) (out_point_ids m t R r)))) = n).
  { unfold out_point_ids in *. destruct (out_recvs m t R r) as [|s0 l] eqn:E; simpl.
    - apply Hrows. exact Hr.
    - apply Hrows. apply Hlt. left. reflexivity. }
  rewrite Hn. rewrite nth_map_seq by exact Hh. simpl.
  rewrite !map_map. simpl.
  rewrite <- (output_value _ _ d t R r HS Hd Ht Hr HR).
  f_equal. apply map_ext_in. intros s Hs. apply Hlt in Hs.
  rewrite nth_map_seq by exact Hs. reflexivity.
Qed.

(** C07 "secret input by a sender opens to that sender's value": the dealing of random_split
    (any tape) followed by output with any threshold t <= t' < m at any receiver gives the input *)
Theorem input_opens (tape ss : list K) (t t' : nat) (R : list nat) (r h : nat) :
  h < length ss -> t <= t' -> t' < m -> r < m -> In r R ->
  let sigma := map (fun row => nth h row (f0 K)) (random_split inj tape ss t m) in
  recombine_at (map (fun s => inj (S s)) (out_point_ids m t' R r))
               (map (fun s => nth s sigma (f0 K)) (out_point_ids m t' R r)) (inj O) = nth h ss (f0 K).
Proof.
  intros Hh Ht Ht' Hr HR sigma. apply (output_value sigma _ t t' R r); auto.
  apply random_split_sharing; assumption.
Qed.

End OutputValue.
