(** C13: any t Shamir shares are, for every fixed secret, in bijection with the t random
    coefficients.  Explicit inverse by interpolation through (0, s) and the t targets. *)
Require Import MPyC.Base MPyC.Field MPyC.Poly MPyC.Lagrange MPyC.Shamir.

Section SecrecyDefs.
Variable K : Ops.
Notation "0" := (f0 K).
Infix "+" := (fadd K).

(** share at field point x (x = image of the party's x-coordinate) *)
Definition share_pt (c : list K) (s x : K) : K := horner_code c x + s.

(** the coefficients (in drawing order) that produce targets ys at points xs for secret s *)
Definition psi (s : K) (xs ys : list K) : list K :=
  rev (tl (interpolant (0 :: xs) (s :: ys))).
End SecrecyDefs.
Arguments share_pt {K}. Arguments psi {K}.

Section Secrecy.
Variable K : FieldT.
Add Field KF : (fth K).
Notation "0" := (f0 K). Notation "1" := (f1 K).
Infix "+" := (fadd K). Infix "*" := (fmul K). Infix "-" := (fsub K). Infix "/" := (fdiv K).

Lemma share_pt_eval (c : list K) (s x : K) : share_pt c s x = eval (s :: rev c) x.
Proof. apply horner_code_eval. Qed.

(** coefficient-level root bound: not only the function but the coefficient list vanishes *)
Lemma sdiv_zero_coeffs (p : list K) (a : K) :
  eval p a = 0 -> Forall (fun c => c = 0) (sdiv p a) -> Forall (fun c => c = 0) p.
Proof.
  induction p as [|c q IH]; intros He Hz; [constructor|].
  destruct q as [|d r].
  - simpl in He. constructor; [|constructor]. rewrite <- He. ring.
  - change (sdiv (c :: d :: r) a) with (eval (d :: r) a :: sdiv (d :: r) a) in Hz.
    inversion Hz as [|? ? Hq Hz']; subst.
    constructor.
    + simpl in He. simpl in Hq. rewrite Hq in He. rewrite <- He. ring.
    + apply IH; assumption.
Qed.

Theorem root_bound_coeffs : forall (rs p : list K),
  NoDup rs -> length p <= length rs -> (forall r, In r rs -> eval p r = 0) ->
  Forall (fun c => c = 0) p.
Proof.
  induction rs as [|a rs IH]; intros p Hnd Hlen Hroot.
  - destruct p; simpl in *; [constructor|lia].
  - inversion Hnd as [|? ? Hnotin Hnd']; subst.
    apply (sdiv_zero_coeffs p a); [apply Hroot; left; reflexivity|].
    apply IH; auto.
    + rewrite sdiv_len. simpl in Hlen. lia.
    + intros r Hr. assert (Hpr := Hroot r (or_intror Hr)).
      rewrite (sdiv_spec K p a r), (Hroot a (or_introl eq_refl)) in Hpr.
      assert (Hne : r - a <> 0) by (apply fsub_neq0; intros ->; contradiction).
      apply (fmul_eq0 K (r - a)); [|exact Hne].
      transitivity ((r - a) * eval (sdiv p a) r + 0); [ring|exact Hpr].
Qed.

Lemma padd_opp_zero (p q : list K) : length p = length q ->
  Forall (fun c => c = 0) (padd p (pscale (fopp K 1) q)) -> p = q.
Proof.
  revert q; induction p as [|a p IH]; intros [|b q] Hl Hz; simpl in *; try lia; [reflexivity|].
  inversion Hz as [|? ? Hab Hz']; subst. f_equal.
  - transitivity ((a + fopp K 1 * b) + b); [ring|rewrite Hab; ring].
  - apply IH; auto.
Qed.

(** two coefficient lists of equal length <= n agreeing at n distinct points are EQUAL *)
Theorem poly_agree_coeffs (rs p q : list K) :
  NoDup rs -> length p = length q -> length p <= length rs ->
  (forall r, In r rs -> eval p r = eval q r) -> p = q.
Proof.
  intros Hnd Hl Hlen H. apply padd_opp_zero; [exact Hl|].
  apply (root_bound_coeffs rs); auto.
  - rewrite len_padd, len_pscale. lia.
  - intros r Hr. rewrite eval_padd, eval_pscale, (H r Hr). ring.
Qed.

(** length of the interpolant is exactly the number of nodes (when there is at least one) *)
Lemma len_psum_exact (ps : list (list K)) n : ps <> [] -> (forall p, In p ps -> length p = n) ->
  length (psum ps) = n.
Proof.
  induction ps as [|p ps IH]; intros Hne H; [congruence|]. simpl. rewrite len_padd.
  rewrite (H p) by (left; reflexivity).
  destruct ps as [|p' ps']; [simpl; lia|].
  rewrite IH; [lia|congruence|]. intros q Hq. apply H. right; exact Hq.
Qed.

Lemma len_interpolant_exact (xs ys : list K) : xs <> [] -> length (interpolant xs ys) = length xs.
Proof.
  intros Hne. unfold interpolant. apply len_psum_exact.
  - destruct xs; [congruence|]. simpl. congruence.
  - intros p Hp. apply in_map_iff in Hp. destruct Hp as [i [<- Hi]]. apply in_seq in Hi.
    rewrite len_pscale, len_basis; lia.
Qed.

(** SURJECTIVE with explicit preimage: for every secret s and every t targets ys at t distinct
    nonzero points xs, the coefficient vector [psi s xs ys] has length t and yields exactly ys. *)
Theorem psi_right_inverse (s : K) (xs ys : list K) :
  NoDup (0 :: xs) -> length ys = length xs ->
  length (psi s xs ys) = length xs /\ map (share_pt (psi s xs ys) s) xs = ys.
Proof.
  intros Hnd Hl.
  set (f := interpolant (0 :: xs) (s :: ys)).
  assert (Hlen : length f = S (length xs)) by (apply len_interpolant_exact; congruence).
  destruct f as [|a0 rest] eqn:Ef; [simpl in Hlen; lia|].
  assert (Hpsi : psi s xs ys = rev rest) by (unfold psi; fold f; rewrite Ef; reflexivity).
  assert (Ha0 : a0 = s).
  { pose proof (interpolant_values K (0 :: xs) (s :: ys) O Hnd ltac:(simpl; lia)) as H0.
    fold f in H0. rewrite Ef in H0. simpl in H0. rewrite <- H0. ring. }
  split.
  - rewrite Hpsi, rev_length. simpl in Hlen. lia.
  - apply nth_ext with (d := 0) (d' := 0); [rewrite map_length; auto|].
    intros k Hk. rewrite map_length in Hk.
    rewrite (nth_map_in _ _ _ _ 0) by exact Hk.
    rewrite share_pt_eval, Hpsi, rev_involutive, <- Ha0, <- Ef.
    pose proof (interpolant_values K (0 :: xs) (s :: ys) (S k) Hnd ltac:(simpl; lia)) as Hv.
    exact Hv.
Qed.

(** INJECTIVE: equal shares at t distinct nonzero points (same secret) force equal coefficients. *)
Theorem share_map_injective (s : K) (xs c c' : list K) :
  NoDup (0 :: xs) -> length c = length xs -> length c' = length xs ->
  map (share_pt c s) xs = map (share_pt c' s) xs -> c = c'.
Proof.
  intros Hnd Hc Hc' Heq.
  assert (E : s :: rev c = s :: rev c').
  { apply (poly_agree_coeffs (0 :: xs)); auto.
    - simpl. rewrite !rev_length. lia.
    - simpl. rewrite rev_length. lia.
    - intros r [<-|Hr].
      + simpl. ring.
      + rewrite <- !share_pt_eval.
        destruct (In_nth xs r 0 Hr) as [k [Hk <-]].
        assert (Hn := f_equal (fun l => nth k l 0) Heq). simpl in Hn.
        rewrite !(nth_map_in _ _ _ _ 0) in Hn by exact Hk. exact Hn. }
  inversion E as [Hrev]. rewrite <- (rev_involutive c), <- (rev_involutive c'), Hrev. reflexivity.
Qed.

(** C13 as one statement: for every secret, exactly one coefficient vector per share tuple. *)
Theorem shares_bijective (s : K) (xs ys : list K) :
  NoDup (0 :: xs) -> length ys = length xs ->
  exists c, (length c = length xs /\ map (share_pt c s) xs = ys) /\
            forall c', length c' = length xs -> map (share_pt c' s) xs = ys -> c' = c.
Proof.
  intros Hnd Hl. destruct (psi_right_inverse s xs ys Hnd Hl) as [H1 H2].
  exists (psi s xs ys). split; [auto|].
  intros c' Hc' He. apply (share_map_injective s xs); auto. congruence.
Qed.

(** Fewer than t parties: a coalition I extended by any further distinct points I' to size t;
    for every view ys of I, every completion zs of I' is hit by exactly one coefficient vector —
    so the number of coefficient vectors consistent with a view is the same for every view and
    every secret (namely the number of completions zs). *)
Corollary fewer_shares_fibre (s : K) (xs xs' ys zs : list K) :
  NoDup (0 :: xs ++ xs') -> length ys = length xs -> length zs = length xs' ->
  exists c, (length c = length (xs ++ xs') /\ map (share_pt c s) xs = ys /\ map (share_pt c s) xs' = zs) /\
            forall c', length c' = length (xs ++ xs') ->
                       map (share_pt c' s) xs = ys -> map (share_pt c' s) xs' = zs -> c' = c.
Proof.
  intros Hnd Hy Hz.
  destruct (shares_bijective s (xs ++ xs') (ys ++ zs) Hnd) as [c [[Hc He] Hu]].
  { rewrite !app_length. lia. }
  rewrite map_app in He. apply app_eq_app_length in He; [|rewrite map_length; auto].
  destruct He as [He1 He2].
  exists c. split; [auto|].
  intros c' Hc' H1 H2. apply Hu; auto. rewrite map_app, H1, H2. reflexivity.
Qed.

(** connection with the party-indexed shares of Shamir.v *)
Lemma share_at_share_pt (inj : nat -> K) (c : list K) (s : K) i1 : share_at inj c s i1 = share_pt c s (inj i1).
Proof. reflexivity. Qed.

End Secrecy.
