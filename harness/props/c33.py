"""C33 — secure random functions stay in range and are uniform.

Proof: coq/props/C33.v over the bit-tape model coq/theories/RandomFns.v.  Tie: the bit source seen by
mpyc/random.py (its module global `runtime`) is replaced FROM OUTSIDE by a proxy whose random_bits reads a
tape; the tree of all tapes up to a bound is enumerated (a run that asks for more bits than the tape holds
is extended by every continuation), each leaf is compared with the Coq model (value and consumed bits),
checked against range/shape oracles, and outcome histograms are tallied with exact weights 2^(L-consumed).
"""
import itertools, math
from fractions import Fraction
from lib.core import zlit, zlist, natlit

MANIFEST = {
    'text': 'Coq theorems over a bit-tape model of every function of mpyc/random.py, for ALL tapes and all n (tape/fuel exhaustion '
            'excluded): randbelow_range (0 <= _randbelow < n, fast path and rejection loop; bits variant too), '
            'unit_vector_shape/onehot (length n, exactly one 1), shuffle_perm (= random_permutation: a Permutation of the input), '
            'derangement_no_fixed_point (Permutation and y[i] <> x[i] everywhere), sample_pop_subselection, choice_member, '
            'choices_cum_member/choices_weights_member (weighted choices return members, nonnegative integer weights), '
            'randrange_lattice/within, getrandbits_range (= random as scaled integer), uniform_within (a <= N <= b for a <= b incl. '
            'a = b, N < b when a < b) and uniform_within_rev. Uniformity by counting tapes, for EVERY n >= 1 (k = (n-1).bit_length()): '
            'randbelow_one_pass (a k-bit one-pass tape is accepted iff its value < n, output = value), bits_value_bijection, '
            'randbelow_uniform_one_pass (exists! accepting one-pass tape per v < n), randbelow_one_pass_accepts, '
            'randbelow_pass_step (any pass, any tape: accept iff value < n, else reject at j, keep x[:j], draw k-j bits, same state '
            'form), randbelow_next_pass / randbelow_uniform_next_pass (conditional on a rejection at j, exists! (retained ++ fresh) '
            'string per v < n accepted by the next pass: uniform at every pass), randbelow_two_pass, '
            'rejection_ignores_retained_bits, getrandbits_uniform, randrange_uniform_one_pass. '
            'Model tied to the code on every run by exhaustive tape-tree enumeration through the real functions with the bit source '
            'substituted from outside (n<=12 randbelow/unit vectors, n<=4 shuffles/derangements, populations<=4; secint, secfxp, '
            'secfld), exact comparison of values and consumed bits, and exact weighted histogram counting (flat / proportional to '
            'weights). Every function is also run in the multi-party simulator, (m,t) in {(1,0),(3,1),(5,2)} x PRSS on/off over secint, '
            'secfxp, SecFld(101) and GF(2^8): range, shape, secure result type, permutations, derangements (repeated), samples '
            'without repeats, one-hot unit vectors, all parties agree, hangs reported via idle detection/watchdog; the single-call '
            'functions are compared with the model on shared tapes at m = 3. _randbelow on a secure field with n = field order '
            '(runtime._random): randbelow_order_range / randbelow_order_uniform (exists! draw per field value, whatever the other '
            'senders draw), tied by forcing/logging the senders\' secrets.randbelow draws in the simulator (m=1 exhaustively for '
            'p <= 13, m=3 random; every draw must be below p exactly) and by 400-draw coverage with PRSS. Aliasing stream: every '
            'function taking a list is called, the caller\'s list is mutated in place (reverse/overwrite/del/append) before the '
            'result is awaited, at m=1 (-M1, asynchronous) and m=3; the result must fit the list as passed. The simulator configurations include m != 2t+1 '
            '((4,1), (2,0) with PRSS; (5,1) in the thorough tier) and two-session programs with a threshold change between the '
            'sessions (m=3: 1->0; m=5: 1->2, 2->1), session 2 under the same range/shape checks.',
    'note': 'Trusted: Coq kernel + vm_compute; the hand-written model (value level: secure numbers are their integer values; '
            'runtime.in_prod/scalar_mul/vector_add/vector_sub/prod/from_bits modelled as exact integer arithmetic; single party, '
            'no_async); random_bits is a tape oracle, its own uniformity is C01/C15 not this check. MISSING as theorems (covered only '
            'by the exact counting on implementation+model for small n): a closed-form count over whole r-restart histories (the per-pass '
            'uniformity theorems above are its induction step), unit-vector uniformity, shuffle_uniform, derangement_uniform, choices weight proportions, sample_range '
            'distinctness, lists-of-lists shuffle permutation (model corresponded, not proved). np_random_unit_vector not modelled '
            '(no NumPy here). Weighted choices are not applicable to secure fields (field elements have no <; TypeError unrelated '
            'to any defect). _randbelow(st,1) returns the public int 0, so randrange/uniform over a one-point range return public '
            'numbers (value correct; noted, not counted as violation). Defects found by this check and repaired in /repo (now ordinary cases): '
            'F-C33-1 uniform with round(|a-b|*2^f)=0 (554365d), F-C33-2 choices with weights on secure fixed-point (4609d39), '
            'F-C33-3 sample() late read of its population list (8df6d66). Open: F-C33-4 SecFld(p) with p <= m parties is an '
            'odd-characteristic extension field on which runtime.from_bits shifts polynomials, so randrange(SecFld(3),3) at m=3 '
            'fails when the value 2 is drawn.',
    'technique': 'Coq proof over bit-tape model + exhaustive tape-tree correspondence and exact outcome counting',
}


class NeedBits(Exception):
    def __init__(self, total):
        self.total = total


class Proxy:
    """Stands in for the runtime object inside mpyc.random: everything delegates to the real runtime except
    random_bits, which reads the tape."""

    def __init__(self, rt, tape):
        self.__dict__['_rt'] = rt
        self.__dict__['tape'] = list(tape)
        self.__dict__['pos'] = 0

    def __getattr__(self, name):
        return getattr(self._rt, name)

    def random_bits(self, sectype, n, signed=False):
        assert not signed
        if self.pos + n > len(self.tape):
            raise NeedBits(self.pos + n)
        bits = self.tape[self.pos:self.pos + n]
        self.__dict__['pos'] += n
        return [sectype(b) for b in bits]


def explore(run, L, cap=200000):
    """Enumerate the tree of tapes: run(tape) -> result, or raises NeedBits(total bits needed so far)."""
    leaves, cut = [], []
    stack = [()]
    while stack:
        tp = stack.pop()
        try:
            res = run(tp)
            leaves.append((tp, res))
        except NeedBits as e:
            if e.total > L or len(leaves) + len(stack) > cap:
                cut.append(tp)
                continue
            for ext in itertools.product((0, 1), repeat=e.total - len(tp)):
                stack.append(tp + ext)
    return leaves, cut


def tapes_enc(tps):
    """(count, hex literal): sentinel 1 above the concatenation of (6-bit length, bits) records; decoded by
    RandomFns.tapes_of (hex literals parse in linear time, decimal ones and list literals do not)."""
    z, sh = 0, 0
    for t in tps:
        assert len(t) < 64
        z |= len(t) << sh
        sh += 6
        z |= sum(b << i for i, b in enumerate(t)) << sh
        sh += len(t)
    return '%d%%nat 0x%x%%Z' % (len(tps), z | (1 << sh))


def zll(rows):
    return '[' + '; '.join(zlist(r) for r in rows) + ']'


class Watchdog(KeyboardInterrupt):      # asyncio re-raises KeyboardInterrupt out of the loop (other BaseExceptions are swallowed)
    """raised by SIGALRM: a simulator run that neither finishes nor goes idle (e.g. a pure-CPU loop)"""


def multi_party(ctx, ok):
    """Every random function in the m-party simulator: (m,t) in {(1,0),(3,1),(5,2)} x PRSS on/off, over secint, secfxp,
    SecFld(101) and GF(2^8): range/shape/type, permutations, derangements, samples, unit vectors, all parties agree; plus
    tape-level correspondence of the single-call functions at m = 3 (bits substituted as public constants)."""
    import signal, time, random as pyrandom
    from lib.sim import Sim, Fifo, RandomOrder

    def on_alarm(signum, frame):
        raise Watchdog()
    old = signal.signal(signal.SIGALRM, on_alarm)
    rng = ctx.rng
    reps = ctx.n(4, 10)
    P = 101

    class TimeLimited:
        """stops delivering after the deadline, so that a run that keeps exchanging messages for ever goes idle"""
        def __init__(self, inner, seconds):
            self.inner, self.deadline = inner, time.time() + seconds

        def deliver(self, net):
            if time.time() > self.deadline:
                return 0
            # callbacks still queued on the event loop = local progress (with t = 0 most protocols need no messages, and the
            # simulator's idle detection only looks at the network)
            busy = 1 if getattr(net.sim, 'loop', None) is not None and len(net.sim.loop._ready) > 0 else 0
            return self.inner.deliver(net) + busy

    def jobs_for(stname, reps=reps):
        J = []
        fld = stname in ('secfld', 'gf256')
        J += [('getrandbits', {'k': k}) for k in (0, 1, 6)]
        J += [('getrandbits_bits', {'k': 5})]
        J += [('randrange', {'a': 0, 'b': n, 's': 1}) for n in (1, 2, 3, 10, 12, 16, 100)]
        if stname != 'gf256':
            J += [('randrange', {'a': 3, 'b': 40, 's': 5}), ('randint', {'a': 2, 'b': 9})]
        if not fld:
            J += [('randrange', {'a': 10, 'b': -7, 's': -3}), ('randint', {'a': -3, 'b': 3})]
        J += [('unit_vector', {'n': n}) for n in (1, 2, 5, 8, 13)]
        J += [('choice', {'seq': [4, 9, 2, 7, 5]}), ('choices', {'pop': [4, 9, 2], 'k': 3})]
        if not fld:
            J += [('choices_w', {'pop': [4, 9, 2], 'w': [1, 3, 2], 'k': 2}), ('choices_cw', {'pop': [4, 9], 'cw': [2, 6], 'k': 2})]
        J += [('shuffle', {'x': [3, 9, 5, 1, 7]}), ('shuffle_rows', {'x': [[1, 2], [3, 4], [5, 6]]}), ('permutation', {'n': 6})]
        J += [('derangement', {'n': 6})] * reps + [('derangement_list', {'x': [8, 3, 5]})] * 2
        J += [('sample_range', {'r': [0, 6, 1], 'k': 5})] * reps + [('sample_pop', {'pop': [3, 9, 5, 1, 7], 'k': 3})]
        if stname != 'gf256':
            J += [('sample_range', {'r': [2, 30, 4], 'k': 4})]
        if stname == 'secfxp':
            J += [('random', {}), ('uniform', {'a': 1.0, 'b': 2.5}), ('uniform', {'a': 0.5, 'b': -1.25}), ('uniform', {'a': 3.0, 'b': 3.0})]
        return J

    def make_prog(stname, jobs, tapes=None):
        async def prog(mpc, mods, pid):
            mr = mods['mpyc.random']
            ff = mods['mpyc.finfields']
            st = {'secint': lambda: mpc.SecInt(16), 'secfxp': lambda: mpc.SecFxp(16, 4), 'secfld': lambda: mpc.SecFld(P),
                  'gf256': lambda: mpc.SecFld(2 ** 8)}[stname]()

            def conv(v):
                if isinstance(v, list):
                    return [conv(a) for a in v]
                if isinstance(v, ff.FiniteFieldElement):
                    return int(v)
                if isinstance(v, float):
                    return int(v) if v == int(v) else v
                return int(v)

            async def opened(x):
                """-> (value, typed): typed = every number was an instance of the requested secure type (or a public number
                in the documented n == 1 corner)"""
                if isinstance(x, list):
                    rs = [await opened(a) for a in x]
                    return [r[0] for r in rs], all(r[1] for r in rs)
                if isinstance(x, (int, float)):
                    return conv(x), 'public'
                return conv(await mpc.output(x)), isinstance(x, st)
            out = []
            for ji, (name, pr) in enumerate(jobs):
                if tapes is not None:
                    px = tapes[ji](mpc, st)
                    mr.runtime = px
                try:
                    if name == 'getrandbits':
                        r = mr.getrandbits(st, pr['k'])
                    elif name == 'getrandbits_bits':
                        r = mr.getrandbits(st, pr['k'], bits=True)
                    elif name == 'randbelow_bits':
                        r = mr._randbelow(st, pr['n'], bits=True)
                    elif name == 'randrange':
                        r = mr.randrange(st, pr['a'], pr['b'], pr['s'])
                    elif name == 'randint':
                        r = mr.randint(st, pr['a'], pr['b'])
                    elif name == 'unit_vector':
                        r = mr.random_unit_vector(st, pr['n'])
                    elif name == 'choice':
                        r = mr.choice(st, list(pr['seq']))
                    elif name == 'choices':
                        r = mr.choices(st, list(pr['pop']), k=pr['k'])
                    elif name == 'choices_w':
                        r = mr.choices(st, list(pr['pop']), weights=list(pr['w']), k=pr['k'])
                    elif name == 'choices_cw':
                        r = mr.choices(st, list(pr['pop']), cum_weights=list(pr['cw']), k=pr['k'])
                    elif name == 'shuffle':
                        r = list(pr['x'])
                        mr.shuffle(st, r)
                    elif name == 'shuffle_rows':
                        r = [list(row) for row in pr['x']]
                        mr.shuffle(st, r)
                    elif name == 'permutation':
                        r = mr.random_permutation(st, pr['n'])
                    elif name == 'derangement':
                        r = mr.random_derangement(st, pr['n'])
                    elif name == 'derangement_list':
                        r = mr.random_derangement(st, list(pr['x']))
                    elif name == 'sample_range':
                        r = mr.sample(st, range(*pr['r']), pr['k'])
                    elif name == 'sample_pop':
                        r = mr.sample(st, list(pr['pop']), pr['k'])
                    elif name == 'random':
                        r = mr.random(st)
                    elif name == 'uniform':
                        r = mr.uniform(st, pr['a'], pr['b'])
                    v, typed = await opened(r)
                    rec = [v, typed]
                    if tapes is not None:
                        rec.append([px.pos, px.over])
                    out.append(rec)
                except Exception as e:  # noqa
                    out.append(['EXC', repr(e)[:200]])
                finally:
                    if tapes is not None:
                        mr.runtime = mpc
            return out
        return prog

    def oracle(stname, name, pr, v):
        """None if v has the documented range/shape"""
        modp = (lambda a: a % P) if stname == 'secfld' else (lambda a: a)

        def ints(l):
            return isinstance(l, list) and all(isinstance(a, int) for a in l)
        if name == 'getrandbits':
            return None if isinstance(v, int) and 0 <= v < 2 ** pr['k'] else 'not a k-bit value'
        if name in ('getrandbits_bits',):
            return None if ints(v) and len(v) == pr['k'] and set(v) <= {0, 1} else 'not k bits'
        if name == 'randbelow_bits':
            k = (pr['n'] - 1).bit_length()
            return None if ints(v) and len(v) == k and set(v) <= {0, 1} and sum(b << i for i, b in enumerate(v)) < pr['n'] else 'bits not below n'
        if name == 'randrange':
            return None if v in [modp(a) for a in range(pr['a'], pr['b'], pr['s'])] else 'not in range'
        if name == 'randint':
            return None if v in [modp(a) for a in range(pr['a'], pr['b'] + 1)] else 'not in [a,b]'
        if name == 'unit_vector':
            return None if ints(v) and len(v) == pr['n'] and sorted(v) == [0] * (pr['n'] - 1) + [1] else 'not a unit vector'
        if name == 'choice':
            return None if v in pr['seq'] else 'not a member'
        if name in ('choices', 'choices_w', 'choices_cw'):
            return None if isinstance(v, list) and len(v) == pr['k'] and all(a in pr['pop'] for a in v) else 'not k members'
        if name in ('shuffle', 'derangement_list'):
            if not (isinstance(v, list) and sorted(map(repr, v)) == sorted(map(repr, pr['x']))):
                return 'not a permutation'
            return 'fixed point' if name == 'derangement_list' and any(a == b for a, b in zip(v, pr['x'])) else None
        if name == 'shuffle_rows':
            return None if isinstance(v, list) and sorted(map(repr, v)) == sorted(map(repr, pr['x'])) else 'not a permutation of the rows'
        if name in ('permutation', 'derangement'):
            if not (ints(v) and sorted(v) == list(range(pr['n']))):
                return 'not a permutation'
            return 'fixed point' if name == 'derangement' and any(a == i for i, a in enumerate(v)) else None
        if name == 'sample_range':
            rg = [modp(a) for a in range(*pr['r'])]
            return None if ints(v) and len(v) == pr['k'] and len(set(v)) == pr['k'] and all(a in rg for a in v) else 'not k distinct range elements'
        if name == 'sample_pop':
            return None if ints(v) and len(v) == pr['k'] and len(set(v)) == pr['k'] and set(v) <= set(pr['pop']) else 'not a sub-selection'
        if name == 'random':
            return None if isinstance(v, (int, float)) and 0 <= v < 1 and v * 16 == int(v * 16) else 'not in [0,1) on the grid'
        if name == 'uniform':
            lo, hi = min(pr['a'], pr['b']), max(pr['a'], pr['b'])
            return None if isinstance(v, (int, float)) and lo <= v <= hi else 'outside [a,b]'
        return 'unknown job'

    def run_config(m, t, no_prss, stname, jobs, policy, tapes=None, limit=20, t2=None):
        """-> per-party-agreed results (list), or None after reporting a violation.  With t2: a second session after
        mpc.shutdown(), mpc.threshold = t2, mpc.start() in the same runtimes (same secure types, hence same fields and the
        same prfs(bound) cache keys); returns the results of the second session."""
        cfg = 'm=%d t=%d %s %s' % (m, t, 'no-prss' if no_prss else 'prss', stname)
        sim = Sim(m, t, no_prss=no_prss, seed=ctx.seed * 131 + m, log_messages=False, track_tasks=False)
        res = None
        signal.setitimer(signal.ITIMER_REAL, (limit + 30) * (2 if t2 is not None else 1), 5)
        try:
            sim.start()
            if not sim.started:
                ctx.violation('sim-start-failed ' + cfg, {'config': cfg})
                return None
            res = sim.run(make_prog(stname, jobs, tapes), TimeLimited(policy, limit), idle_limit=400)
            if all(isinstance(r, list) for r in res):
                sim.shutdown()
                if t2 is not None:
                    cfg += ' then threshold=%d (second session)' % t2
                    for mp in sim.mpcs:
                        mp.threshold = t2
                    sim.t = t2
                    sim.start()
                    if not sim.started:
                        ctx.violation('sim-start-failed ' + cfg, {'config': cfg})
                        return None
                    res = sim.run(make_prog(stname, jobs, tapes), TimeLimited(policy, limit), idle_limit=400)
                    if all(isinstance(r, list) for r in res):
                        sim.shutdown()
        except Watchdog:
            ctx.extra['sim_aborted'] = True
            ctx.violation('sim-no-progress ' + cfg, {'config': cfg, 'why': 'neither finished nor idle within %d s' % (limit + 30)})
            return None
        finally:
            signal.setitimer(signal.ITIMER_REAL, 0)
            try:
                sim.close()
            except Watchdog:
                pass
        if not all(isinstance(r, list) for r in res):
            ctx.violation('sim-parties-hang ' + cfg, {'config': cfg, 'results': [r if not isinstance(r, list) else 'done(%d)' % len(r) for r in res],
                                                     'why': 'some party never completed (parties diverged or wait for ever)'})
            return None
        if any(r != res[0] for r in res[1:]):
            bad = next(i for i in range(len(jobs)) if any(r[i] != res[0][i] for r in res[1:]))
            ctx.violation('sim-parties-disagree %s %s' % (cfg, jobs[bad][0]), {'config': cfg, 'job': list(jobs[bad]), 'per_party': [r[bad] for r in res]})
            return None
        return res[0]

    ncalls_box = [0]

    def check_results(cfg, stname, jobs, r0, m):
        for (name, pr), rec in zip(jobs, r0):
            ncalls_box[0] += 1
            ctx.case({'sim': cfg, 'fn': name, 'params': pr, 'i': ncalls_box[0]}, nontrivial=m > 1, kind='sim/' + name)
            if rec[0] == 'EXC':
                ctx.violation('%s-exception %s' % (name, cfg), {'config': cfg, 'job': [name, pr], 'exception': rec[1]})
                continue
            v, typed = rec[0], rec[1]
            msg = oracle(stname, name, pr, v)
            if msg:
                ctx.violation('%s-shape %s %s: %s' % (name, cfg, pr, msg), {'config': cfg, 'job': [name, pr], 'got': v, 'why': msg})
            public_ok = name in ('randrange', 'randint', 'uniform', 'getrandbits', 'getrandbits_bits', 'sample_range', 'randbelow_bits')
            if typed is False or (typed == 'public' and not public_ok):
                ctx.violation('%s-type %s' % (name, cfg), {'config': cfg, 'job': [name, pr], 'got': v,
                                                          'why': 'result is not of the requested secure type'})

    configs = [(1, 0, False), (3, 1, False), (3, 1, True), (5, 2, False), (5, 2, True)]
    if ctx.tier == 'thorough':
        configs += [(1, 0, True), (2, 0, False), (2, 0, True), (4, 1, False), (4, 1, True), (5, 1, False), (5, 1, True)]
    # even m / non-maximal threshold (m != 2t+1) with PRSS: reduced job lists in the quick tier
    reduced = [] if ctx.tier == 'thorough' else [((4, 1, False), ('secint', 'secfxp', 'secfld')), ((2, 0, False), ('secint', 'secfld'))]
    # two sessions with a threshold change in between (the PRSS keys and the prfs(bound) cache must follow the threshold)
    sessions = [(3, 1, 0), (5, 1, 2), (5, 2, 1)]
    t0 = time.time()
    try:
        for ci, (m, t, no_prss) in enumerate(configs):
            for stname in ('secint', 'secfxp', 'secfld', 'gf256'):
                jobs = jobs_for(stname)
                policy = RandomOrder(pyrandom.Random(ctx.seed * 17 + ci)) if (ci + len(stname)) % 3 == 0 else Fifo()
                if ctx.extra.get('sim_aborted'):
                    continue
                r0 = run_config(m, t, no_prss, stname, jobs, policy)
                cfg = 'm=%d t=%d %s %s' % (m, t, 'no-prss' if no_prss else 'prss', stname)
                if r0 is not None:
                    check_results(cfg, stname, jobs, r0, m)
        for (m, t, no_prss), sts in reduced:
            for stname in sts:
                if ctx.extra.get('sim_aborted'):
                    continue
                jobs = jobs_for(stname, reps=1)
                r0 = run_config(m, t, no_prss, stname, jobs, Fifo())
                cfg = 'm=%d t=%d %s %s' % (m, t, 'no-prss' if no_prss else 'prss', stname)
                if r0 is not None:
                    check_results(cfg, stname, jobs, r0, m)
        for (m, t, t2) in sessions:
            for stname in ('secint', 'secfld') + (('secfxp',) if ctx.tier == 'thorough' else ()):
                if ctx.extra.get('sim_aborted'):
                    continue
                jobs = jobs_for(stname, reps=1)
                r0 = run_config(m, t, False, stname, jobs, Fifo(), t2=t2)
                cfg = 'm=%d t=%d->%d prss second-session %s' % (m, t, t2, stname)
                if r0 is not None:
                    check_results(cfg, stname, jobs, r0, m)
        ncalls = ncalls_box[0]
        ctx.extra['sim_calls'] = ncalls
        ctx.log('simulator: %d calls over %d configurations x 4 types, %d reduced, %d two-session in %.1fs' % (
            ncalls, len(configs), len(reduced), len(sessions), time.time() - t0))
        # ---- tape-level correspondence at m = 3 (single-call functions: the draw order is that of the model) ----------
        class TapeRT:
            def __init__(self, rt, st, bits):
                self.__dict__.update(_rt=rt, _st=st, tape=bits, pos=0, over=False)

            def __getattr__(self, name):
                return getattr(self._rt, name)

            def random_bits(self, sectype, n, signed=False):
                if self.pos + n > len(self.tape):
                    self.__dict__['over'] = True
                    return [sectype(0)] * n
                b = self.tape[self.pos:self.pos + n]
                self.__dict__['pos'] += n
                return [sectype(a) for a in b]
        tjobs, tbits, texpr = [], [], []
        for n in (3, 5, 6, 7, 11, 12, 1, 8):
            for _ in range(ctx.n(2, 6)):
                for name, coqf in (('randrange', 'randbelow (fuel_for tp) %s tp' % zlit(n)),
                                   ('randbelow_bits', 'randbelow_bits (fuel_for tp) %s tp' % zlit(n)),
                                   ('unit_vector', 'random_unit_vector (fuel_for tp) %s tp' % zlit(n))):
                    bits = [rng.randrange(2) for _ in range(40)]
                    pr = {'a': 0, 'b': n, 's': 1} if name == 'randrange' else {'n': n}
                    tjobs.append((name, pr))
                    tbits.append(bits)
                    texpr.append((coqf, bits))
        tapes = [(lambda mpc, st, b=b: TapeRT(mpc, st, b)) for b in tbits]
        for stname, no_prss in (('secint', False), ('secfld', True)):
            if ctx.extra.get('sim_aborted'):
                break
            r0 = run_config(3, 1, no_prss, stname, tjobs, Fifo(), tapes=tapes)
            if r0 is None or not ok:
                continue
            exprs = ['let tp := tape_of 40%%nat 0x%x%%Z in %s' % (sum(b << i for i, b in enumerate(bits)), coqf) for coqf, bits in texpr]
            mres = ctx.coq_eval(['MPyC.RandomFns'], exprs, chunk=400, preamble='Open Scope Z_scope.')
            mism = 0
            for (name, pr), rec, mv, (coqf, bits) in zip(tjobs, r0, mres, texpr):
                ctx.case({'sim-tape': stname, 'fn': name, 'params': pr, 'tape': bits}, kind='sim-tape/' + name)
                if rec[0] == 'EXC' or rec[2][1]:
                    ctx.broken.append({'kind': 'correspondence', 'what': 'm=3 tape run failed', 'job': [name, pr], 'rec': str(rec)[:200]})
                    mism += 1
                    continue
                want = ('Some', (rec[0], bits[rec[2][0]:]))
                if mv != want:
                    mism += 1
                    if len(ctx.broken) < 30:
                        ctx.broken.append({'kind': 'correspondence', 'what': 'm=3 tape', 'st': stname, 'job': [name, pr], 'tape': bits,
                                           'impl': str(want)[:200], 'model': str(mv)[:200]})
            ctx.extra['sim_tape_traces_%s' % stname] = len(tjobs) - mism
            ctx.log('m=3 %s tape correspondence: %d cases, %d disagreements' % (stname, len(tjobs), mism))
    finally:
        signal.setitimer(signal.ITIMER_REAL, 0)
        signal.signal(signal.SIGALRM, old)



def order_and_alias(ctx, ok):
    """(A) _randbelow(SecFld(p), p): the direct path runtime._random -- exact: without PRSS the senders' secrets.randbelow
    draws are forced/logged in the simulator (m=1 exhaustively, m=3 randomly); the bound of every draw must be p and the
    result must be the model's field_random p draws.  (B) aliasing: every function taking a list is called, the caller's
    list is mutated in place before the result is awaited; the result must have the documented structure relative to the
    list as passed at call time.  m = 1 (-M1, asynchronous) and m = 3."""
    import signal, time
    from lib.sim import Sim, Fifo
    rng = ctx.rng

    def on_alarm(signum, frame):
        raise Watchdog()
    old = signal.signal(signal.SIGALRM, on_alarm)

    def one_run(sim, prog, limit=25):
        """-> list of per-party results, or None on a hang / watchdog"""
        signal.setitimer(signal.ITIMER_REAL, limit, 5)
        try:
            res = sim.run(prog, Fifo(), idle_limit=300)
        except Watchdog:
            ctx.extra['sim_aborted'] = True
            return None
        finally:
            signal.setitimer(signal.ITIMER_REAL, 0)
        return res

    def new_sim(m, t, no_prss):
        sim = Sim(m, t, no_prss=no_prss, seed=ctx.seed * 977 + 13 * m + no_prss, log_messages=False, track_tasks=False)
        sim.start()
        return sim if sim.started else None
    primes = [3, 5, 7, 11, 13, 101]
    try:
        # ---- (A) n == field order ------------------------------------------------------------------------------------
        exprs, meta = [], []
        for (m, t) in ((1, 0), (3, 1)):
            sim = new_sim(m, t, True)
            if sim is None:
                ctx.violation('sim-start-failed order-branch m=%d' % m, {})
                continue
            for p in primes:
                if p <= m:
                    continue      # SecFld(p) needs more than m elements (mpc.SecFld then builds an extension field)
                draws = list(range(p)) if (m == 1 and p <= 13) else [rng.randrange(p) for _ in range(ctx.n(6, 20))]
                for r in draws:
                    for i in range(m):
                        sim.secrets[i].forced.clear()
                        sim.secrets[i].forced.append(r if m == 1 else rng.randrange(p))
                    marks = [len(sim.secrets[i].log) for i in range(m)]

                    async def prog(mpc, mods, pid, p=p):
                        st = mpc.SecFld(p)
                        v = mods['mpyc.random'].randrange(st, p)
                        return [int(await mpc.output(v)), isinstance(v, st)]
                    res = one_run(sim, prog)
                    key = {'fn': 'randrange-field-order', 'p': p, 'm': m}
                    if res is None or not all(isinstance(x, list) for x in res):
                        ctx.violation('randrange-field-order-hang p=%d m=%d' % (p, m), dict(key, results=str(res)[:200]))
                        sim.close()
                        sim = new_sim(m, t, True)
                        continue
                    # per sender: the first randbelow is the value drawn by runtime._randoms, the following ones are the
                    # coefficients of its Shamir sharing (thresha.random_split)
                    per = [[e for e in sim.secrets[i].log[marks[i]:] if e[0] == 'randbelow'] for i in range(m)]
                    logs = [pl[0] for pl in per if pl]
                    ctx.case(dict(key, draws=[e[2] for e in logs]), kind='field-order/m=%d' % m)
                    if any(x != res[0] for x in res[1:]) or not res[0][1] or not 0 <= res[0][0] < p:
                        ctx.violation('randrange-shape field-order p=%d m=%d' % (p, m), dict(key, got=res))
                    if len(logs) != t + 1 or any(e[1] != p for e in logs):
                        ctx.violation('randrange-nonuniform field-order p=%d m=%d: draws below %s' % (p, m, sorted({e[1] for e in logs})),
                                      dict(key, got=res[0][0], draws=[list(e) for e in logs],
                                           why='runtime._random must draw below the field order p from t+1 senders'))
                    exprs.append('randbelow_order %s %s' % (zlit(p), zlist([e[2] for e in logs])))
                    meta.append((key, res[0][0]))
                    if m == 1 and p <= 13 and res[0][0] != r:
                        ctx.violation('randrange-nonuniform field-order p=%d m=1: draw %d gives %d' % (p, r, res[0][0]), dict(key, draw=r, got=res[0][0]))
                for i in range(m):
                    sim.secrets[i].forced.clear()
            sim.shutdown()
            sim.close()
        if ok and exprs:
            mres = ctx.coq_eval(['MPyC.RandomFns'], exprs, chunk=400, preamble='Open Scope Z_scope.')
            mism = 0
            for mv, (key, got) in zip(mres, meta):
                if mv != got:
                    mism += 1
                    ctx.broken.append({'kind': 'correspondence', 'what': 'randbelow_order', 'case': key, 'impl': got, 'model': str(mv)[:100]})
            ctx.extra['field_order_traces'] = len(exprs) - mism
            ctx.log('field-order branch: %d draws-forced cases, %d disagreements with the model' % (len(exprs), mism))
        # ---- (B) aliasing ------------------------------------------------------------------------------------------------
        POP = [11, 22, 33, 44, 55]
        MUT = {'reverse': lambda l: l.reverse(), 'overwrite0': lambda l: l.__setitem__(0, 99),
               'dellast': lambda l: l.__delitem__(-1), 'append': lambda l: l.append(77)}
        FNS = ['sample', 'sample_all', 'choice', 'choices', 'choices_w', 'random_permutation', 'random_derangement', 'shuffle', 'shuffle_rows']
        na = 0
        for (m, t, no_prss) in ((1, 0, False), (3, 1, False)) + (((3, 1, True),) if ctx.tier == 'thorough' else ()):
            sim = new_sim(m, t, no_prss)
            for stname in ('secint', 'secfld'):
                for fn in FNS:
                    if fn == 'choices_w' and stname == 'secfld':
                        continue
                    for mu in MUT:
                        if sim is None:
                            sim = new_sim(m, t, no_prss)

                        async def prog(mpc, mods, pid, fn=fn, mu=mu, stname=stname):
                            mr = mods['mpyc.random']
                            st = mpc.SecInt(16) if stname == 'secint' else mpc.SecFld(101)
                            lst = list(POP)
                            w = [1, 2, 1, 1, 3]
                            if fn == 'sample':
                                r = mr.sample(st, lst, 3)
                            elif fn == 'sample_all':
                                r = mr.sample(st, lst, 5)
                            elif fn == 'choice':
                                r = mr.choice(st, lst)
                            elif fn == 'choices':
                                r = mr.choices(st, lst, k=3)
                            elif fn == 'choices_w':
                                r = mr.choices(st, lst, weights=w, k=3)
                            elif fn == 'random_permutation':
                                r = mr.random_permutation(st, lst)
                            elif fn == 'random_derangement':
                                r = mr.random_derangement(st, lst)
                            elif fn == 'shuffle':
                                mr.shuffle(st, lst)
                                r = list(lst)
                            elif fn == 'shuffle_rows':
                                rows = [[a, a + 1] for a in POP]
                                lst = list(rows)
                                mr.shuffle(st, lst)
                                r = [list(row) for row in lst]
                                for row in rows:       # the caller's row objects
                                    row[0] = 99
                            MUT[mu](lst)               # the caller mutates ITS list before awaiting the result
                            if fn == 'choices_w':
                                MUT[mu](w)
                            if fn == 'shuffle_rows':
                                return [[int(a) for a in await mpc.output(row)] for row in r]
                            if fn == 'choice':
                                return int(await mpc.output(r))
                            return [int(a) for a in await mpc.output(r)]
                        res = one_run(sim, prog)
                        na += 1
                        key = {'fn': fn, 'mutation': mu, 'm': m, 'st': stname, 'prss': not no_prss}
                        ctx.case(key, kind='aliasing/' + fn)
                        sig = 'aliasing %s mutation=%s' % ('sample' if fn == 'sample_all' else fn, mu)
                        if res is None or any(isinstance(x, (str, tuple)) for x in res):
                            ctx.violation(sig, dict(key, got='HANG/EXC ' + str(res)[:200], why='the call never completes after the caller mutated its list'))
                            try:
                                sim.close()
                            except Exception:  # noqa
                                pass
                            sim = None
                            if ctx.extra.get('sim_aborted'):
                                return
                            continue
                        v = res[0]
                        if any(x != v for x in res[1:]):
                            ctx.violation('sim-parties-disagree aliasing %s' % fn, dict(key, per_party=res))
                            continue
                        if fn in ('sample', 'sample_all'):
                            k = 3 if fn == 'sample' else 5
                            good = len(v) == k and len(set(v)) == k and set(v) <= set(POP)
                        elif fn == 'choice':
                            good = v in POP
                        elif fn in ('choices', 'choices_w'):
                            good = len(v) == 3 and all(a in POP for a in v)
                        elif fn in ('random_permutation', 'shuffle'):
                            good = sorted(v) == sorted(POP)
                        elif fn == 'random_derangement':
                            good = sorted(v) == sorted(POP) and all(a != b for a, b in zip(v, POP))
                        else:
                            good = sorted(v) == sorted([a, a + 1] for a in POP)
                        if not good:
                            ctx.violation(sig, dict(key, got=v, population_at_call_time=POP,
                                                    why='result does not have the documented structure relative to the list as passed'))
            if sim is not None:
                sim.shutdown()
                sim.close()
        ctx.extra['aliasing_cases'] = na
        ctx.log('aliasing stream: %d (function, mutation, config) cases' % na)
        extension_field_probe(ctx)
    finally:
        signal.setitimer(signal.ITIMER_REAL, 0)
        signal.signal(signal.SIGALRM, old)


def extension_field_probe(ctx):
    """F-C33-4, one deterministic probe in its own simulator (last thing done with simulators; nothing depends on it):
    SecFld(3) with m = 3 parties is built over GF(3^2); runtime.from_bits combines bits with polynomial shifts, so a drawn
    value 2 (bits [0, 1], forced through the bit source) is the polynomial X, outside the prime subfield, and output() fails.
    EVERY failure mode (assertion/exception in any party, pending parties, watchdog, value outside range(3), parties
    disagreeing) is reported under the one sig 'extfield-from_bits randrange SecFld(3) m=3'."""
    import signal, io, logging, contextlib
    from lib.sim import Sim, Fifo
    sig = 'extfield-from_bits randrange SecFld(3) m=3'
    outcome = None
    sim = None
    logging.disable(logging.CRITICAL)           # asyncio / mpyc report the exception raised inside output()
    signal.setitimer(signal.ITIMER_REAL, 30, 5)
    try:
        with contextlib.redirect_stdout(io.StringIO()), contextlib.redirect_stderr(io.StringIO()):
            sim = Sim(3, 1, no_prss=False, seed=424242, log_messages=False, track_tasks=False)   # fixed seeds, not VERIF_SEED
            sim.start()
            if not sim.started:
                outcome = 'start failed'
            else:
                async def prog(mpc, mods, pid):
                    mr = mods['mpyc.random']
                    st = mpc.SecFld(3)

                    class Bits:
                        def __getattr__(self, name):
                            return getattr(mpc, name)

                        def random_bits(self, sectype, n, signed=False):
                            return [sectype(b) for b in ([0, 1] + [0] * n)[:n]]      # x = [0, 1]: the value 2
                    mr.runtime = Bits()
                    try:
                        v = mr.randrange(st, 3)
                    finally:
                        mr.runtime = mpc
                    return int(await mpc.output(v))
                res = sim.run(prog, Fifo(), idle_limit=300, max_rounds=20000)
                if not (all(isinstance(x, int) for x in res) and len(set(res)) == 1 and res[0] == 2):
                    outcome = 'per-party results %s (expected 2 everywhere)' % (
                        [x if isinstance(x, (int, str)) else 'EXC' for x in res],)
    except BaseException as e:  # noqa  (Watchdog included: the probe must never influence the rest of the check)
        if isinstance(e, (SystemExit,)):
            raise
        outcome = 'interrupted: %s' % type(e).__name__
    finally:
        signal.setitimer(signal.ITIMER_REAL, 0)
        try:
            if sim is not None:
                with contextlib.redirect_stdout(io.StringIO()), contextlib.redirect_stderr(io.StringIO()):
                    sim.close()
        except BaseException:  # noqa
            pass
        logging.disable(logging.NOTSET)
    ctx.case({'fn': 'randrange', 'st': 'SecFld(3)', 'm': 3, 'forced_bits': [0, 1]}, kind='extension-field')
    if outcome:
        ctx.violation(sig, {'call': 'randrange(SecFld(3), 3), m=3, t=1, PRSS, bits forced to [0, 1] (value 2)', 'outcome': outcome})


def run(ctx):
    import sys
    ok = ctx.build(['MPyC.RandomFns']) and ctx.check_props()
    multi_party(ctx, ok)       # first: the simulator loads and unloads its own copies of the package
    if not ctx.extra.get('sim_aborted'):
        order_and_alias(ctx, ok)
    if ctx.extra.get('sim_aborted'):
        ctx.log('a simulator run was aborted by the watchdog (reported); skipping the single-party part')
        return
    sys.argv = [sys.argv[0], '--no-log']
    from mpyc.runtime import mpc
    import mpyc.random as mr
    import mpyc.finfields as ff
    mpc.run(mpc.start())
    assert mpc.options.no_async and mr.runtime is mpc
    rng = ctx.rng
    secint = mpc.SecInt(16)
    secfxp = mpc.SecFxp(16, 4)
    secfld = mpc.SecFld(101)
    F = 4
    P = 101
    stypes = [('secint', secint), ('secfxp', secfxp), ('secfld', secfld)]
    ctx.rule = ('case = (function, sectype, parameters, bit tape); all tapes of the prefix tree up to length L are run through '
                'the real function with the bit source substituted by the tape; non-trivial when the tape is consumed entirely '
                'by the call (a leaf) or cut at the bound; distinct by (function, sectype, params, tape)')
    ctx.explanation = ('implementation and Coq model agree exactly on value and consumed bits for every enumerated tape; '
                       'range/shape oracles hold; exact weighted histograms are flat (or proportional to weights)')
    ctx.extra['exhaustive'] = True

    def canon(st, v, scale=1):
        """opened value -> int"""
        if isinstance(v, list):
            return [canon(st, a, scale) for a in v]
        if isinstance(v, ff.FiniteFieldElement):
            return int(v)
        if isinstance(v, float):
            w = v * scale
            return int(w) if w == int(w) else w
        return int(v) * scale

    def opened(st, x, scale=1):
        if isinstance(x, list):
            if not x:
                return []
            if all(isinstance(a, list) for a in x):
                return [opened(st, r, scale) for r in x]
            sec = [a for a in x if not isinstance(a, (int, float))]
            if len(sec) == len(x):
                return canon(st, mpc.run(mpc.output(x)), scale)
            return [opened(st, a, scale) for a in x]
        if isinstance(x, (int, float)):
            return canon(st, x, scale)
        return canon(st, mpc.run(mpc.output(x)), scale)

    groups = []   # (name, stname, params, coq function text taking tp, leaves, cut, oracle info)

    def tree(name, stname, st, params, impl, coqf, L, oracle, outcomes=None, weights=None, scale=1, modp=False):
        """impl(st) runs the function under the proxy; coqf: Coq text of `fun tp => ...`."""
        def runone(tp):
            px = Proxy(mpc, tp)
            mr.runtime = px
            try:
                r = impl(st)
                r = opened(st, r, scale)
            finally:
                mr.runtime = mpc
            if px.pos != len(tp):
                raise AssertionError('leaf not fully consumed')
            return r
        leaves, cut = explore(runone, L)
        hist = {}
        shape_failed = False
        for tp, r in leaves:
            msg = oracle(r)
            key = {'fn': name, 'st': stname, 'params': params, 'tape': list(tp)}
            ctx.case(key, nontrivial=True, kind=name + '/' + stname)
            if msg:
                shape_failed = True
                ctx.violation('%s-shape %s %s: %s' % (name, stname, params, msg),
                              {'function': name, 'sectype': stname, 'params': params, 'tape': list(tp), 'got': r, 'why': msg})
            hk = repr(r)
            hist[hk] = hist.get(hk, 0) + (1 << (L - len(tp)))
        for tp in cut:
            ctx.case({'fn': name, 'st': stname, 'params': params, 'cut': list(tp)}, nontrivial=False, kind=name + '/cut')
        # exact uniformity: every expected outcome has the same weighted count (or proportional to weights)
        if shape_failed:
            return leaves, cut      # reported above; no histogram / model comparison for a group that is wrong anyway
        if outcomes is not None:
            exp = [repr(o) for o in outcomes]
            extra = set(hist) - set(exp)
            if extra:
                ctx.violation('%s-outcome-outside %s %s' % (name, stname, params),
                              {'function': name, 'sectype': stname, 'params': params, 'unexpected': sorted(extra)[:5]})
            cnts = [hist.get(e, 0) for e in exp]
            if weights is None:
                flat = len(set(cnts)) == 1 and cnts[0] > 0
            else:
                tot, W = sum(cnts), sum(weights)
                flat = tot > 0 and all(c * W == tot * w for c, w in zip(cnts, weights))
            if not flat:
                ctx.violation('%s-nonuniform %s %s' % (name, stname, params),
                              {'function': name, 'sectype': stname, 'params': params, 'L': L,
                               'histogram': dict(zip(exp, cnts)), 'weights': weights})
        groups.append((name, stname, params, coqf, leaves, cut, modp))
        return leaves, cut

    LQ = ctx.n(0, 1)   # extra depth in the thorough tier

    # ---- A. _randbelow, B. random_unit_vector, n = 1..12 ------------------------------------------
    for stname, st in stypes:
        for n in range(1, 13):
            k = (n - 1).bit_length()
            L = (2 + LQ) * k if n & (n - 1) else k
            tree('randbelow', stname, st, {'n': n}, lambda s, n=n: mr._randbelow(s, n),
                 'fun tp => randbelow (fuel_for tp) %s tp' % zlit(n), L,
                 lambda r, n=n: None if isinstance(r, int) and 0 <= r < n else 'not in range(%d)' % n,
                 outcomes=list(range(n)))
            tree('randbelow_bits', stname, st, {'n': n}, lambda s, n=n: mr._randbelow(s, n, bits=True),
                 'fun tp => randbelow_bits (fuel_for tp) %s tp' % zlit(n), L,
                 lambda r, n=n, k=k: None if len(r) == k and set(r) <= {0, 1} and sum(b << i for i, b in enumerate(r)) < n
                 else 'bits do not encode a value below n')
            tree('unit_vector', stname, st, {'n': n}, lambda s, n=n: mr.random_unit_vector(s, n),
                 'fun tp => random_unit_vector (fuel_for tp) %s tp' % zlit(n), L,
                 lambda r, n=n: None if len(r) == n and sorted(r) == [0] * (n - 1) + [1] else 'not a unit vector of length %d' % n,
                 outcomes=[[int(i == j) for i in range(n)] for j in range(n)])
    # ---- C. randrange / randint / getrandbits --------------------------------------------------------
    ranges = [(0, 5, 1), (2, 11, 3), (10, 0, -3), (-4, 3, 2), (7, 8, 1), (5, -2, -1), (0, 6, 1), (3, 24, 7)]
    for stname, st in stypes:
        for (a, b, s) in ranges:
            if stname == 'secfld' and (a < 0 or b < 0):
                pass
            rg = list(range(a, b, s))
            n = len(rg)
            k = (n - 1).bit_length()
            L = (2 + LQ) * k if n & (n - 1) else k
            modp = stname == 'secfld'
            outs = [v % P for v in rg] if modp else rg
            tree('randrange', stname, st, {'start': a, 'stop': b, 'step': s},
                 lambda st_, a=a, b=b, s=s: mr.randrange(st_, a, b, s),
                 'fun tp => randrange (fuel_for tp) %s %s %s tp' % (zlit(a), zlit(b), zlit(s)), L,
                 lambda r, outs=outs: None if r in outs else 'not in range', outcomes=outs, modp=modp)
        for (a, b) in [(1, 6), (0, 0), (-2, 2), (3, 10)]:
            n = b - a + 1
            k = (n - 1).bit_length()
            L = (2 + LQ) * k if n & (n - 1) else k
            modp = stname == 'secfld'
            outs = [v % P for v in range(a, b + 1)] if modp else list(range(a, b + 1))
            tree('randint', stname, st, {'a': a, 'b': b}, lambda st_, a=a, b=b: mr.randint(st_, a, b),
                 'fun tp => randint (fuel_for tp) %s %s tp' % (zlit(a), zlit(b)), L,
                 lambda r, outs=outs: None if r in outs else 'not in [a,b]', outcomes=outs, modp=modp)
        for k in range(0, 5):
            tree('getrandbits', stname, st, {'k': k}, lambda st_, k=k: mr.getrandbits(st_, k),
                 'fun tp => getrandbits %s tp' % natlit(k), k,
                 lambda r, k=k: None if 0 <= r < 2 ** k else 'not a k-bit value', outcomes=list(range(2 ** k)))
    # ---- E. choice / choices -------------------------------------------------------------------------
    pops = [[5], [5, 7], [5, 7, 9], [4, 2, 8, 6], [5, 7, 7], [1, 1, 2, 3]]
    for stname, st in stypes:
        for pop in pops:
            n = len(pop)
            k = (n - 1).bit_length()
            L = (2 + LQ) * k if n & (n - 1) else k
            vals = sorted(set(pop))
            tree('choice', stname, st, {'pop': pop}, lambda st_, pop=pop: mr.choice(st_, pop),
                 'fun tp => choice (fuel_for tp) %s tp' % zlist(pop), L,
                 lambda r, pop=pop: None if r in pop else 'not a member', outcomes=vals,
                 weights=[pop.count(v) for v in vals])
        for pop in ([5, 7], [5, 7, 9]):
            n = len(pop)
            k = (n - 1).bit_length()
            L = 2 * ((1 + LQ) * k + (k if n & (n - 1) else 0))
            tree('choices', stname, st, {'pop': pop, 'k': 2}, lambda st_, pop=pop: mr.choices(st_, pop, k=2),
                 'fun tp => choices_plain (fuel_for tp) %s 2%%nat tp' % zlist(pop), L,
                 lambda r, pop=pop: None if len(r) == 2 and all(a in pop for a in r) else 'not members',
                 outcomes=[list(t) for t in itertools.product(pop, repeat=2)])
        for pop, w in [] if stname == 'secfld' else [([5, 7, 9], [1, 2, 1]), ([5, 7], [2, 2]), ([3, 4, 5], [2, 0, 4]), ([1, 2, 3, 4], [1, 1, 3, 1]), ([8, 9], [3, 2])]:
            cum = list(itertools.accumulate(w))
            g = math.gcd(*cum)
            W = cum[-1] // g
            k = (W - 1).bit_length()
            L = (2 + LQ) * k if W & (W - 1) else k
            # probabilities as coded: P(i) = (cw_i - cw_{i-1}) / W with cw = cum // gcd(cum)
            cw = [c // g for c in cum]
            wr = [c - d for c, d in zip(cw, [0] + cw[:-1])]
            vals = [v for v, x in zip(pop, wr) if x]
            tree('choices_w', stname, st, {'pop': pop, 'weights': w}, lambda st_, pop=pop, w=w: mr.choices(st_, pop, weights=w, k=1),
                 'fun tp => choices_weights (fuel_for tp) %s %s 1%%nat tp' % (zlist(pop), zlist(w)), L,
                 lambda r, pop=pop: None if len(r) == 1 and r[0] in pop else 'not a member',
                 outcomes=[[v] for v in vals], weights=[x for x in wr if x])
            # documented probabilities: proportional to the given weights
            if [x * sum(w) for x in wr] != [x * W for x in w]:
                ctx.violation('choices-weights-distorted %s %s' % (pop, w), {'pop': pop, 'weights': w, 'as_coded': wr})
            tree('choices_cw', stname, st, {'pop': pop, 'cum_weights': cum},
                 lambda st_, pop=pop, cum=cum: mr.choices(st_, pop, cum_weights=cum, k=1),
                 'fun tp => choices_cum (fuel_for tp) %s %s 1%%nat tp' % (zlist(pop), zlist(cum)), L,
                 lambda r, pop=pop: None if len(r) == 1 and r[0] in pop else 'not a member')
    # ---- F. shuffle / random_permutation / G. random_derangement / H. sample ---------------------------------
    def is_perm(r, x):
        return None if sorted(r) == sorted(x) else 'not a permutation of the input'

    lists = [[7], [3, 9], [3, 9, 5], [3, 9, 5, 1], [4, 4, 2]]
    for stname, st in stypes:
        for x in lists:
            n = len(x)
            base = sum((m - 1).bit_length() for m in range(2, n + 1))
            L = base + ctx.n(3, 5) if n >= 3 else base
            perms = sorted(set(itertools.permutations(x)))
            wts = None
            if len(perms) != math.factorial(n):
                wts = [sum(1 for q in itertools.permutations(x) if q == p_) for p_ in perms]

            def do_shuffle(st_, x=x):
                y = list(x)
                mr.shuffle(st_, y)
                return y
            tree('shuffle', stname, st, {'x': x}, do_shuffle,
                 'fun tp => shuffle (fuel_for tp) %s tp' % zlist(x), L, lambda r, x=x: is_perm(r, x),
                 outcomes=[list(p_) for p_ in perms], weights=wts)
        for n in (1, 2, 3, 4):
            base = sum((m - 1).bit_length() for m in range(2, n + 1))
            L = base + ctx.n(3, 5) if n >= 3 else base
            tree('random_permutation', stname, st, {'n': n}, lambda st_, n=n: mr.random_permutation(st_, n),
                 'fun tp => random_permutation (fuel_for tp) (seqZ %s) tp' % natlit(n), L,
                 lambda r, n=n: is_perm(r, list(range(n))),
                 outcomes=[list(p_) for p_ in itertools.permutations(range(n))])
        for rows in ([[1, 2], [3, 4], [5, 6]], [[1], [2], [3], [4]], [[1, 2, 3], [4, 5, 6]]):
            n = len(rows)
            base = sum((m - 1).bit_length() for m in range(2, n + 1))
            L = base + ctx.n(2, 4) if n >= 3 else base

            def do_shuffle_rows(st_, rows=rows):
                y = [list(r) for r in rows]
                mr.shuffle(st_, y)
                return y
            tree('shuffle_rows', stname, st, {'x': rows}, do_shuffle_rows,
                 'fun tp => shuffle_rows (fuel_for tp) %s tp' % zll(rows), L,
                 lambda r, rows=rows: None if sorted(r) == sorted(rows) else 'not a permutation of the rows',
                 outcomes=[list(map(list, p_)) for p_ in itertools.permutations(rows)])
        for x in ([3, 9], [3, 9, 5], [3, 9, 5, 1], 3, 4):
            xs = list(range(x)) if isinstance(x, int) else x
            n = len(xs)
            base = sum((m - 1).bit_length() for m in range(2, n + 1))
            L = base * ctx.n(2, 3) + (ctx.n(2, 3) if n >= 3 else 0)
            ders = [list(p_) for p_ in itertools.permutations(xs) if all(a != b for a, b in zip(p_, xs))]
            tree('random_derangement', stname, st, {'x': x}, lambda st_, x=x: mr.random_derangement(st_, x),
                 'fun tp => random_derangement 40%%nat (fuel_for tp) %s tp' % zlist(xs), L,
                 lambda r, xs=xs: is_perm(r, xs) or (None if all(a != b for a, b in zip(r, xs)) else 'fixed point'),
                 outcomes=ders)
        for (rg, k) in [(range(5), 2), (range(2, 11, 3), 3), (range(4), 1), (range(3), 3), (range(6, 0, -2), 2), (range(3), 0)]:
            n = len(rg)
            kb = (n - 1).bit_length()
            L = k * kb + ctx.n(3, 5)
            tree('sample_range', stname, st, {'range': [rg.start, rg.stop, rg.step], 'k': k},
                 lambda st_, rg=rg, k=k: mr.sample(st_, rg, k),
                 'fun tp => sample_range 40%%nat (fuel_for tp) %s %s %s %s tp' % (zlit(rg.start), zlit(rg.stop), zlit(rg.step), natlit(k)),
                 L, lambda r, rg=rg, k=k: None if len(r) == k and len(set(r)) == k and all(a in rg for a in r)
                 else 'not k distinct elements of the range',
                 outcomes=[list(p_) for p_ in itertools.permutations(list(rg), k)])
        for (pop, k) in [([3, 9, 5, 1], 2), ([3, 9, 5], 3), ([3, 9, 5, 1], 4), ([3, 9], 1), ([6, 6, 2], 2), ([3, 9, 5, 1], 0), ([3, 9, 5], 1)]:
            n = len(pop)
            base = sum((m - 1).bit_length() for m in range(n - k + 1, n + 1) if m >= 2)
            L = base + ctx.n(3, 5)
            outs = sorted(set(itertools.permutations(pop, k)))
            wts = [sum(1 for q in itertools.permutations(pop, k) if q == p_) for p_ in outs]

            def sub(r, pop=pop, k=k):
                if len(r) != k:
                    return 'wrong length'
                rest = list(pop)
                for a in r:
                    if a not in rest:
                        return 'not a sub-selection of the population'
                    rest.remove(a)
                return None
            tree('sample_pop', stname, st, {'pop': pop, 'k': k}, lambda st_, pop=pop, k=k: mr.sample(st_, list(pop), k),
                 'fun tp => sample_pop (fuel_for tp) %s %s tp' % (zlist(pop), natlit(k)), L, sub,
                 outcomes=[list(p_) for p_ in outs], weights=wts)
    # ---- I. random / uniform (secfxp only; scaled by 2^f) -------------------------------------------------
    tree('random', 'secfxp', secfxp, {'f': F}, lambda st_: mr.random(st_), 'fun tp => random_fxp %s tp' % natlit(F), F,
         lambda r: None if 0 <= r < 2 ** F else 'not in [0,1)', outcomes=list(range(2 ** F)), scale=2 ** F)
    for (a, b) in [(0.0, 0.5), (1.0, 1.75), (2.0, 1.25), (-0.5, 0.25), (0.75, 0.5), (-1.0, -1.375), (1.0, 1.0), (0.0, 0.0), (-2.5, -2.5),
                   (1.0, 1.0625), (1.0, 0.9375)]:
        A, B = int(a * 2 ** F), int(b * 2 ** F)
        n = abs(A - B)
        k = (n - 1).bit_length() if n else 0
        L = (2 + LQ) * k if n & (n - 1) else k
        outs = [A + i * (1 if B >= A else -1) for i in range(n)] if n else [A]     # n = 0: the point a itself, no bits drawn
        tree('uniform', 'secfxp', secfxp, {'a': a, 'b': b}, lambda st_, a=a, b=b: mr.uniform(st_, a, b),
             'fun tp => uniform_fxp (fuel_for tp) %s %s tp' % (zlit(A), zlit(B)), L,
             lambda r, A=A, B=B: None if min(A, B) <= r <= max(A, B) else 'outside [a,b]', outcomes=outs, scale=2 ** F)
    # interval below half a unit with non-grid endpoint: round(|a-b|*2^f) = 0 -> a (converted); oracle only
    for (a, b) in [(0.5, 0.5 + 2.0 ** -(F + 2)), (0.5 + 2.0 ** -(F + 2), 0.5)]:
        r = float(mpc.run(mpc.output(mr.uniform(secfxp, a, b))))
        ctx.case({'fn': 'uniform-subunit', 'a': a, 'b': b}, kind='uniform/subunit')
        if not (min(a, b) - 2.0 ** -F < r < max(a, b) + 2.0 ** -F):     # conversion of a non-grid endpoint rounds by < 1 unit
            ctx.violation('uniform-shape a=%r b=%r subunit' % (a, b), {'function': 'uniform', 'a': a, 'b': b, 'got': r})

    # ---- suffix cases: unconsumed tape must be left alone (consumed-bit count with a longer tape) ----------
    suffix = []
    for (name, stname, params, coqf, leaves, cut, modp) in groups:
        if leaves and name in ('randbelow', 'unit_vector', 'shuffle', 'random_derangement', 'sample_range', 'sample_pop', 'choice'):
            for tp, r in rng.sample(leaves, min(3, len(leaves))):
                suffix.append((name, stname, params, coqf, tp, r, modp))

    # ---- Coq model on every enumerated tape ----------------------------------------------------------
    nleaf = sum(len(g[4]) for g in groups)
    ncut = sum(len(g[5]) for g in groups)
    ctx.log('%d groups, %d leaves, %d cut tapes; evaluating the model in Coq' % (len(groups), nleaf, ncut))
    if ok:
        exprs, meta = [], []
        CH = 600
        seen = {}
        for gi, (name, stname, params, coqf, leaves, cut, modp) in enumerate(groups):
            tps = [tp for tp, _ in leaves] + list(cut)
            kk = (coqf, tuple(tps))
            if kk in seen:          # identical model query (same function, params and tapes for another sectype)
                meta.append(('dup', gi, seen[kk]))
                continue
            parts = []
            for j in range(0, len(tps), CH):
                exprs.append('on_tapes (%s) %s' % (coqf, tapes_enc(tps[j:j + CH])))
                parts.append(len(exprs) - 1)
            seen[kk] = parts
            meta.append(('new', gi, parts))
        sfx = (1, 0, 1)
        for (name, stname, params, coqf, tp, r, modp) in suffix:
            exprs.append('(%s) %s' % (coqf, zlist(list(tp) + list(sfx))))
        res = ctx.coq_eval(['MPyC.RandomFns'], exprs, chunk=400)   # few files: coqc start-up dominates
        mism = 0

        def cmpval(m, r, modp):
            if modp:
                if isinstance(m, list):
                    return [a % P for a in m] == r
                return m % P == r
            return m == r
        for kind, gi, parts in meta:
            name, stname, params, coqf, leaves, cut, modp = groups[gi]
            vals = []
            bad = False
            for pi in parts:
                v = res[pi]
                if isinstance(v, tuple) and v and v[0] == 'ERROR':
                    bad = True
                    break
                vals.extend(v)
            if bad or len(vals) != len(leaves) + len(cut):
                mism += 1
                ctx.broken.append({'kind': 'correspondence', 'what': 'coq evaluation failed', 'fn': name, 'params': params,
                                   'detail': str(res[parts[0]])[:300] if parts else ''})
                continue
            for (tp, r), mv in zip(leaves, vals):
                good = isinstance(mv, tuple) and mv[0] == 'Some' and mv[1][1] == [] and cmpval(mv[1][0], r, modp)
                if not good:
                    mism += 1
                    if len(ctx.broken) < 30:
                        ctx.broken.append({'kind': 'correspondence', 'fn': name, 'st': stname, 'params': params, 'tape': list(tp),
                                           'impl': r, 'model': str(mv)[:200]})
            for tp, mv in zip(cut, vals[len(leaves):]):
                if mv is not None:
                    mism += 1
                    if len(ctx.broken) < 30:
                        ctx.broken.append({'kind': 'correspondence', 'fn': name, 'st': stname, 'params': params, 'cut_tape': list(tp),
                                           'impl': 'needs more bits', 'model': str(mv)[:200]})
        for (name, stname, params, coqf, tp, r, modp), mv in zip(suffix, res[len(exprs) - len(suffix):]):
            good = isinstance(mv, tuple) and mv[0] == 'Some' and mv[1][1] == list(sfx) and cmpval(mv[1][0], r, modp)
            ctx.case({'fn': name, 'st': stname, 'params': params, 'tape+suffix': list(tp)}, kind='suffix')
            if not good:
                mism += 1
                ctx.broken.append({'kind': 'correspondence', 'what': 'unconsumed suffix', 'fn': name, 'params': params,
                                   'tape': list(tp), 'impl': r, 'model': str(mv)[:200]})
        ctx.extra['traces_validated_against_impl'] = nleaf + ncut + len(suffix) - mism
        ctx.log('model/implementation disagreements: %d' % mism)

    # ---- ordinary random runs (real random_bits), larger parameters: range/shape only ----------------------
    nr = 0
    for stname, st in stypes:
        big = [13, 17, 31, 33, 64, 100] if stname == 'secfld' else [13, 17, 100, 255, 256, 257, 1000, 5000]
        for n in big:
            for _ in range(ctx.n(3, 10)):
                r = opened(st, mr._randbelow(st, n))
                nr += 1
                ctx.case({'fn': 'randbelow-live', 'st': stname, 'n': n}, nontrivial=False, kind='live')
                if not 0 <= r < n:
                    ctx.violation('randbelow-shape %s n=%d live' % (stname, n), {'n': n, 'got': r})
            if n <= 300:
                u = opened(st, mr.random_unit_vector(st, n))
                nr += 1
                if len(u) != n or sorted(u) != [0] * (n - 1) + [1]:
                    ctx.violation('unit_vector-shape %s n=%d live' % (stname, n), {'n': n, 'got': u})
        for n in (5, 8, 13, 20):
            xs = rng.sample(range(0, 100), n)
            y = opened(st, mr.random_permutation(st, list(xs)))
            d = opened(st, mr.random_derangement(st, list(xs)))
            s = opened(st, mr.sample(st, list(xs), n // 2))
            s2 = opened(st, mr.sample(st, range(3, 90, 2), min(n, 6)))
            wl = [rng.randrange(1, 5) for _ in xs]
            c = opened(st, mr.choices(st, list(xs), k=3) if stname == 'secfld' else mr.choices(st, list(xs), weights=wl, k=3))
            nr += 5
            ctx.case({'fn': 'perm-live', 'st': stname, 'x': xs}, nontrivial=False, kind='live')
            if sorted(y) != sorted(xs):
                ctx.violation('random_permutation-shape %s live' % stname, {'x': xs, 'got': y})
            if sorted(d) != sorted(xs) or any(a == b for a, b in zip(d, xs)):
                ctx.violation('random_derangement-shape %s live' % stname, {'x': xs, 'got': d})
            if len(set(s)) != n // 2 or not set(s) <= set(xs):
                ctx.violation('sample_pop-shape %s live' % stname, {'x': xs, 'got': s})
            if len(set(s2)) != len(s2) or any(a not in range(3, 90, 2) for a in s2):
                ctx.violation('sample_range-shape %s live' % stname, {'got': s2})
            if any(a not in xs for a in c):
                ctx.violation('choices_w-shape %s live' % stname, {'x': xs, 'got': c})
    # n == field order (direct path runtime._random, here with PRSS): every field value must occur -- 400 draws for p <= 13
    # (a given value is missed with probability < 13*(12/13)^400 ~ 1e-13), and values in [64, 101) for p = 101
    for p_ in (3, 5, 7, 11, 13, 101):
        stp = mpc.SecFld(p_)
        N = 400 if p_ <= 13 else 120
        seen = set()
        for j in range(N):
            fn = (lambda: mr.randrange(stp, p_)) if j % 3 else (lambda: mr.randint(stp, 0, p_ - 1))
            v = int(mpc.run(mpc.output(fn())))
            seen.add(v)
            nr += 1
            if not 0 <= v < p_:
                ctx.violation('randrange-shape field-order p=%d live' % p_, {'p': p_, 'got': v})
        ctx.case({'fn': 'randrange-field-order-live', 'p': p_, 'draws': N}, kind='field-order/live')
        missing = [v for v in (range(p_) if p_ <= 13 else []) if v not in seen]
        if missing or (p_ == 101 and not any(v >= 64 for v in seen)):
            ctx.violation('randrange-nonuniform field-order p=%d live: values never drawn' % p_,
                          {'p': p_, 'draws': N, 'missing': missing or 'all of [64, 101)', 'seen_max': max(seen)})
        sm = opened(stp, mr.sample(stp, range(p_), 2))
        if len(set(sm)) != 2 or not all(0 <= a < p_ for a in sm):
            ctx.violation('sample_range-shape field-order p=%d live' % p_, {'p': p_, 'got': sm})
    # secure field of order n: direct path
    for _ in range(5):
        r = opened(secfld, mr._randbelow(secfld, P))
        nr += 1
        if not 0 <= r < P:
            ctx.violation('randbelow-shape secfld order-path', {'got': r})
    for _ in range(ctx.n(20, 100)):
        a = rng.choice([0.0, -3.5, 2.25, rng.uniform(-8, 8)])
        b = a + rng.choice([1.0, -2.5, 0.0625, 3.1875, rng.uniform(-4, 4)])
        v = mr.uniform(secfxp, a, b)      # NB: a plain float when round(|a-b|*2^f) == 1 (_randbelow(.., 1) is the int 0)
        v = v if isinstance(v, float) else float(mpc.run(mpc.output(v)))
        r = float(mpc.run(mpc.output(mr.random(secfxp))))
        nr += 2
        ctx.case({'fn': 'uniform-live', 'a': a, 'b': b}, nontrivial=False, kind='live')
        ulp = 2.0 ** -F
        if not (min(a, b) - ulp <= v <= max(a, b) + ulp):      # conversion of a non-grid endpoint rounds by < 1 unit
            ctx.violation('uniform-shape a=%r b=%r live' % (a, b), {'a': a, 'b': b, 'got': v})
        if not 0 <= r < 1:
            ctx.violation('random-shape live', {'got': r})
    # error paths
    for name, call, exc in [('randrange-empty', lambda: mr.randrange(secint, 3, 3), ValueError),
                            ('choice-empty', lambda: mr.choice(secint, []), IndexError),
                            ('random-secint', lambda: mr.random(secint), TypeError),
                            ('uniform-secint', lambda: mr.uniform(secint, 0, 1), TypeError),
                            ('choices-both', lambda: mr.choices(secint, [1, 2], weights=[1, 1], cum_weights=[1, 2]), TypeError),
                            ('choices-len', lambda: mr.choices(secint, [1, 2], weights=[1]), ValueError),
                            ('sample-too-large', lambda: mr.sample(secint, [1, 2], 3), ValueError)]:
        try:
            call()
            got = 'no exception'
        except exc:
            got = None
        except Exception as e:  # noqa
            got = type(e).__name__
        ctx.case({'fn': name}, nontrivial=False, kind='error-path')
        if got:
            ctx.violation('error-path %s' % name, {'call': name, 'expected': exc.__name__, 'got': got})
    ctx.extra['live_runs'] = nr
    mpc.run(mpc.shutdown())
    if ctx.broken and not ctx.violations:
        ctx.unproved('C33 model/proof', {'broken': ctx.broken[:5]})
