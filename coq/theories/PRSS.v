(** Pseudorandom secret sharing as in thresha.pseudorandom_share(_zero): model and theorems. *)
Require Import MPyC.Base MPyC.Field MPyC.Poly MPyC.Lagrange MPyC.Shamir.
From Coq Require Import Bool FinFun.

Definition memb (i : nat) (S : list nat) : bool := existsb (Nat.eqb i) S.
(** parties outside S, ascending: [x for x in range(m) if x not in S] *)
Definition compl (m : nat) (S : list nat) : list nat := filter (fun x => negb (memb x S)) (seq 0 m).

Lemma memb_In i S : memb i S = true <-> In i S.
Proof.
  unfold memb. rewrite existsb_exists. split.
  - intros [x [Hx E]]. apply Nat.eqb_eq in E. subst. exact Hx.
  - intros H. exists i. split; [exact H|apply Nat.eqb_refl].
Qed.

Lemma compl_In m S x : In x (compl m S) <-> x < m /\ ~ In x S.
Proof.
  unfold compl. rewrite filter_In, in_seq, negb_true_iff. split.
  - intros [H1 H2]. split; [lia|]. intros Hin. apply memb_In in Hin. congruence.
  - intros [H1 H2]. split; [lia|]. destruct (memb x S) eqn:E; [|reflexivity].
    apply memb_In in E. contradiction.
Qed.

Lemma compl_NoDup m S : NoDup (compl m S).
Proof. unfold compl. apply NoDup_filter, seq_NoDup. Qed.

Section PRSSDefs.
Variable K : Ops.
Variable inj : nat -> K.
Notation "0" := (f0 K). Notation "1" := (f1 K).
Infix "+" := (fadd K). Infix "*" := (fmul K).

(** polynomial product on coefficient lists *)
Fixpoint pmul (p q : list K) : list K :=
  match p with [] => [] | a :: p' => padd (pscale a q) (0 :: pmul p' q) end.

Definition fS_xs (m : nat) (S : list nat) : list K := inj O :: map (fun x => inj (Datatypes.S x)) (compl m S).
Definition fS_ys (m : nat) (S : list nat) : list K := 1 :: map (fun _ => 0) (compl m S).

(** _f_S_i(field, m, i, S): recombine the points (0,1), (j+1,0) for j not in S, at i+1 *)
Definition f_S_i (m i : nat) (S : list nat) : K :=
  recombine_at (fS_xs m S) (fS_ys m S) (inj (Datatypes.S i)).

(** the polynomial f_S itself (degree <= |complement|), 1 at 0, 0 at the parties outside S *)
Definition g_S (m : nat) (S : list nat) : list K := basis (fS_xs m S) O.

(** pseudorandom_share for ONE value: party i sums over the subsets it holds keys for *)
Definition prss_share (m i : nat) (subsets : list (list nat)) (r : list nat -> K) : K :=
  fsum (map (fun S => r S * f_S_i m i S) (filter (memb i) subsets)).

(** pseudorandom_share_zero for ONE value: rz S = the d = m - |S| PRF outputs for S *)
Definition prss_zero_share (m i : nat) (subsets : list (list nat)) (rz : list nat -> list K) : K :=
  fsum (map (fun S => horner_code (rz S) (inj (Datatypes.S i)) * f_S_i m i S) (filter (memb i) subsets)).
End PRSSDefs.
Arguments pmul {K}. Arguments fS_xs {K}. Arguments fS_ys {K}. Arguments f_S_i {K}. Arguments g_S {K}.
Arguments prss_share {K}. Arguments prss_zero_share {K}.

Section PRSS.
Variable K : FieldT.
Add Field KF : (fth K).
Notation "0" := (f0 K). Notation "1" := (f1 K).
Infix "+" := (fadd K). Infix "*" := (fmul K). Infix "-" := (fsub K). Infix "/" := (fdiv K).
Variable inj : nat -> K.
Variable m : nat.
Hypothesis inj_inj : forall i j, i <= m -> j <= m -> inj i = inj j -> i = j.
Hypothesis inj_0 : inj O = 0.

Lemma eval_pmul (p q : list K) (x : K) : eval (pmul p q) x = eval p x * eval q x.
Proof.
  induction p as [|a p IH]; simpl; [ring|]. rewrite eval_padd, eval_pscale. simpl. rewrite IH. ring.
Qed.

Lemma len_pmul (p q : list K) : p <> [] -> q <> [] -> length (pmul p q) = pred (Nat.add (length p) (length q)).
Proof.
  intros Hp Hq. induction p as [|a p IH]; [congruence|].
  simpl. rewrite len_padd, len_pscale. simpl.
  destruct p as [|b p'].
  - simpl. destruct q; [congruence|simpl; lia].
  - rewrite IH by congruence. simpl. destruct q; [congruence|simpl; lia].
Qed.

Lemma fS_xs_NoDup (S : list nat) : NoDup (fS_xs inj m S).
Proof.
  unfold fS_xs. replace (inj O :: map (fun x => inj (Datatypes.S x)) (compl m S))
    with (map inj (O :: map Datatypes.S (compl m S))) by (simpl; rewrite map_map; reflexivity).
  apply (NoDup_map_inj K inj m inj_inj).
  - constructor.
    + intros Hin. apply in_map_iff in Hin. destruct Hin as [x [E _]]. lia.
    + apply Injective_map_NoDup; [intros a b E; injection E; auto|apply compl_NoDup].
  - intros i [<-|Hin]; [lia|]. apply in_map_iff in Hin. destruct Hin as [x [<- Hx]].
    apply compl_In in Hx. lia.
Qed.

Lemma fS_xs_length (S : list nat) : length (fS_xs inj m S) = Datatypes.S (length (compl m S)).
Proof. unfold fS_xs. simpl. rewrite map_length. reflexivity. Qed.

(** f_S_i is the value of ONE polynomial g_S at party i's point — for every party i *)
Theorem f_S_i_eval (S : list nat) i : f_S_i inj m i S = eval (g_S inj m S) (inj (Datatypes.S i)).
Proof.
  unfold f_S_i, g_S. rewrite eval_basis by (try apply fS_xs_NoDup; rewrite fS_xs_length; lia).
  unfold recombine_at. rewrite fS_xs_length.
  change (seq 0 (Datatypes.S (length (compl m S)))) with (O :: seq 1 (length (compl m S))).
  rewrite map_cons. cbn [fsum].
  rewrite (fsum_map_zero K).
  - unfold fS_ys. simpl. ring.
  - intros k Hk. apply in_seq in Hk. unfold fS_ys.
    destruct k as [|k]; [lia|]. cbn [nth].
    rewrite (nth_map_in _ _ _ _ O) by lia. ring.
Qed.

Lemma g_S_length (S : list nat) : length (g_S inj m S) = Datatypes.S (length (compl m S)).
Proof. unfold g_S. rewrite len_basis by (rewrite fS_xs_length; lia). apply fS_xs_length. Qed.

Lemma g_S_at_0 (S : list nat) : eval (g_S inj m S) 0 = 1.
Proof.
  unfold g_S. rewrite eval_basis by (try apply fS_xs_NoDup; rewrite fS_xs_length; lia).
  rewrite <- inj_0.
  change (inj O) with (nth O (fS_xs inj m S) 0) at 1.
  apply lam_same; [apply fS_xs_NoDup|rewrite fS_xs_length; lia].
Qed.

Lemma g_S_outside (S : list nat) j : j < m -> ~ In j S -> eval (g_S inj m S) (inj (Datatypes.S j)) = 0.
Proof.
  intros Hj Hn. unfold g_S. rewrite eval_basis by (try apply fS_xs_NoDup; rewrite fS_xs_length; lia).
  assert (Hin : In j (compl m S)) by (apply compl_In; auto).
  destruct (In_nth _ _ O Hin) as [k [Hk Ek]].
  assert (E : inj (Datatypes.S j) = nth (Datatypes.S k) (fS_xs inj m S) 0).
  { unfold fS_xs. cbn [nth]. rewrite (nth_map_in _ _ _ _ O) by exact Hk. rewrite Ek. reflexivity. }
  rewrite E. apply lam_other; [apply fS_xs_NoDup|rewrite fS_xs_length; lia|rewrite fS_xs_length; lia|lia].
Qed.

(** summing over the subsets a party holds = summing over all subsets *)
Lemma sum_over_held (subsets : list (list nat)) (w : list nat -> K) i : i < m ->
  fsum (map (fun S => w S * f_S_i inj m i S) (filter (memb i) subsets))
  = fsum (map (fun S => w S * eval (g_S inj m S) (inj (Datatypes.S i))) subsets).
Proof.
  intros Hi. induction subsets as [|S ss IH]; [reflexivity|].
  cbn [filter]. destruct (memb i S) eqn:E; cbn [map fsum]; rewrite IH.
  - rewrite f_S_i_eval. reflexivity.
  - assert (Hn : ~ In i S) by (intros Hin; apply memb_In in Hin; congruence).
    rewrite (g_S_outside S i Hi Hn). ring.
Qed.

(** C15 (i): the m independently computed PRSS shares lie on ONE polynomial of degree <= t whose
    value at 0 is the sum of the subsets' PRF outputs; for every family of subsets whose
    complements have at most t elements and every PRF table r. *)
Theorem prss_sharing (t : nat) (subsets : list (list nat)) (r : list nat -> K) :
  (forall S, In S subsets -> length (compl m S) <= t) ->
  Sharing inj m t (map (fun i => prss_share inj m i subsets r) (seq 0 m)) (fsum (map r subsets)).
Proof.
  intros Hc. split; [apply map_seq_length|].
  exists (psum (map (fun S => pscale (r S) (g_S inj m S)) subsets)). split; [|split].
  - apply len_psum. intros p Hp. apply in_map_iff in Hp. destruct Hp as [S [<- HS]].
    rewrite len_pscale, g_S_length. specialize (Hc S HS). lia.
  - rewrite eval_psum, map_map. apply fsum_map_ext. intros S _.
    rewrite eval_pscale, g_S_at_0. ring.
  - intros i Hi. rewrite nth_map_seq by exact Hi. simpl.
    unfold prss_share. rewrite sum_over_held by exact Hi.
    rewrite eval_psum, map_map. apply fsum_map_ext. intros S _. rewrite eval_pscale. reflexivity.
Qed.

(** C15 (ii): pseudorandom zero shares lie on one polynomial of degree <= 2t with value 0 at 0 *)
Theorem prss_zero_sharing (t : nat) (subsets : list (list nat)) (rz : list nat -> list K) :
  (forall S, In S subsets -> length (compl m S) <= t) ->
  (forall S, In S subsets -> length (rz S) <= t) ->
  Sharing inj m (Nat.mul 2 t) (map (fun i => prss_zero_share inj m i subsets rz) (seq 0 m)) 0.
Proof.
  intros Hc Hr. split; [apply map_seq_length|].
  exists (psum (map (fun S => pmul (0 :: rev (rz S)) (g_S inj m S)) subsets)). split; [|split].
  - apply len_psum. intros p Hp. apply in_map_iff in Hp. destruct Hp as [S [<- HS]].
    rewrite len_pmul; [|congruence|].
    + simpl. rewrite rev_length, g_S_length. specialize (Hc S HS). specialize (Hr S HS). lia.
    + intros E. apply (f_equal (@length _)) in E. rewrite g_S_length in E. simpl in E. lia.
  - rewrite eval_psum, map_map. apply (fsum_map_zero K). intros S _. cbv beta. rewrite eval_pmul. simpl. ring.
  - intros i Hi. rewrite nth_map_seq by exact Hi. cbn [Nat.add].
    unfold prss_zero_share. rewrite sum_over_held by exact Hi.
    rewrite eval_psum, map_map. apply fsum_map_ext. intros S _. cbv beta. rewrite eval_pmul.
    f_equal. unfold horner_code. rewrite horner_code_acc. simpl. ring.
Qed.

End PRSS.
