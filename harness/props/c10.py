"""C10 — message framing tolerates any stream chunking and arrival order, incl. the handshake.

Proof: coq/props/C10.v over coq/theories/Frame.v (wire format, data_received as a state machine,
handshake phase) and Buffers.v (buffers dict: receive before/after arrival).
Tie: real mpyc.asyncoro.MessageExchanger objects (harness/lib/fakenet.py: real Runtime, fake
transport) are driven call by call with the same chunk / receive sequences as the Coq function
`sim`; after every call (peer_pid, self.bytes, buffers in dict order, payloads handed to futures,
PRSS keys stored) are compared exactly.  Independently of the model, the property itself is checked
on the implementation: the receive for label pc gets exactly the payload sent under pc.
"""
import itertools
import struct
from asyncio import Future
from lib.core import zlist, natlit, zlit, blit
from lib import fakenet as fn

MANIFEST = {
    'text': 'Coq theorems, for ALL message lists, ALL chunkings (empty chunks, empty payloads, cuts inside headers) and '
            'ALL interleavings: decode_encode (struct <qI codec round trip), chunking_irrelevant (fold of data_received over '
            'any chunking of the encoded stream = the messages in order, nothing left over), prefix_parse and '
            'truncated_not_delivered (events of a stream prefix are a prefix; a cut frame is kept, never delivered), '
            'handshake_any_chunking (+_noprss, handshake_waits: pid and exactly 16 bytes per expected key recovered, following '
            'frames untouched, nothing consumed early), receive_commutes / receive_gets_own_payload / buffer_empty_iff (any '
            'interleaving of receive(pc) calls and arrivals with distinct labels: each receive gets the payload of its label; '
            'buffer empty iff sends and receives match), framing_end_to_end (parser and buffers composed: any chunking of the '
            'stream of any distinct-label message list with receive calls placed anywhere between the data_received calls: a '
            'receive obtains (pc,p) iff (pc,p) was sent and receive(pc) called; no byte left). The model is executed '
            '(vm_compute) against real MessageExchanger objects call by call on every run.',
    'note': 'Trusted: Coq kernel+vm_compute; the Gallina model of send/data_received/receive and of the key-subset selection '
            '(Frame.matching = itertools.combinations filter) is tied to asyncoro.py/runtime.py by exact per-call comparison '
            '(state, leftover bytes, dict order, resolved futures, stored keys), not verified from the Python source; handshakes '
            'are also run with the threshold in force (rt.threshold assigned after construction) different from the start-up '
            'option, the model always using the threshold in force. '
            'Theorems assume pairwise distinct labels (C09) and one receive per label; with a repeated label the code raises '
            'AttributeError inside data_received (modelled as DupError, compared on a small error stream). The end-to-end theorem '
            'starts after the handshake (handshake_any_chunking covers handshake followed by frames at parser level). '
            'Model inputs are written as hex strings (Buffers.hx) and labels printed as 8 bytes (enc_q), a few directly. asyncio/TCP delivering '
            'the written bytes in order is assumed. Payload sizes in the Coq comparison are a few hundred bytes; KB-sized '
            'payloads are run against the oracle only.',
    'technique': 'Coq proof (parser homomorphism step(c1++c2) = step;step, invariant over histories) + vm_compute correspondence with real MessageExchanger',
}

LO, HI = -2 ** 63, 2 ** 63 - 1


def enc_ref(pc, payload):
    """Independent reference encoder (not via MessageExchanger.send)."""
    return (pc % 2 ** 64).to_bytes(8, 'little') + len(payload).to_bytes(4, 'little') + bytes(payload)


# ---------------------------------------------------------------------------------------
# driving the implementation

class Impl:
    """One real MessageExchanger driven call by call; records what the model's `sim` returns."""

    def __init__(self, ex, rt):
        self.ex, self.rt = ex, rt
        self.pending = {}        # pc -> Future returned by receive and not yet seen done
        self.received = {}       # pc -> value obtained by the receive (bytes), once known
        self.rcv_called = []
        self.obs = []
        self.error = None

    def chunk(self, c):
        ex = self.ex
        before_pid = ex.peer_pid
        before_keys = set(getattr(self.rt, '_prss_keys', {}))
        before_buf = {pc: v for pc, v in ex.buffers.items() if not isinstance(v, Future)}
        err = None
        try:
            ex.data_received(c)
        except Exception as e:  # noqa
            err = type(e).__name__
            self.error = err
        pid, left, buf = fn.snapshot(ex)
        resolved = []
        for pc, fut in list(self.pending.items()):
            if fut.done():
                resolved.append((pc, list(fut.result())))
                self.received[pc] = bytes(fut.result())
                del self.pending[pc]
        stored = [(pc, list(v)) for pc, v in buf if v != 'W' and pc not in before_buf]
        hs = None
        if before_pid is None and pid is not None:
            keys = getattr(self.rt, '_prss_keys', {})
            new = sorted(S for S in keys if S not in before_keys)
            hs = (pid, [(list(S), list(keys[S])) for S in new])
        self.obs.append({'kind': 'chunk', 'pid': pid, 'left': list(left),
                         'buf': [(pc, 'W' if v == 'W' else list(v)) for pc, v in buf],
                         'resolved': sorted(resolved), 'stored': stored, 'hs': hs, 'err': err})

    def receive(self, pc):
        ex = self.ex
        had_future = isinstance(ex.buffers.get(pc), Future)
        r = ex.receive(pc)
        self.rcv_called.append(pc)
        if isinstance(r, Future):
            out = 'OldFuture' if had_future else 'NewFuture'
            self.pending[pc] = r
        else:
            out = ('Got', list(r))
            self.received[pc] = bytes(r)
        pid, left, buf = fn.snapshot(ex)
        self.obs.append({'kind': 'receive', 'pid': pid, 'left': list(left),
                         'buf': [(k, 'W' if v == 'W' else list(v)) for k, v in buf], 'out': out})


def lab(b8):
    """label printed by the model as its 8 little-endian two's complement bytes"""
    return int.from_bytes(bytes(b8), 'little', signed=True)


def pc_expr(pc):
    """Coq expression for a label, avoiding long numerals (slow to parse): dec_q of its 8 bytes."""
    return '(dec_q %s)' % hexlit((pc % 2 ** 64).to_bytes(8, 'little'))


def hexlit(bs):
    """Coq expression for a byte list: hex string decoded by Buffers.hx (one token; long list
    literals are slow to parse)."""
    return '(hx "%s")' % bytes(bs).hex()


def model_obs(r):
    """Canonicalise one per-call element of the Coq `sim_c` result:
    (pid, |bytes|, events, [(label, waiting?)], outs)."""
    pid, nleft, evs, shape, outs = r
    pid = pid[1] if isinstance(pid, tuple) else None
    hs, deliv = None, []
    for e in evs:
        if e[0] == 'PHandshake':
            hs = (e[1], [(list(S), list(k)) for S, k in e[2]])
        else:
            deliv.append((lab(e[1]), list(e[2])))
    resolved = sorted(lab(o[1]) for o in outs if isinstance(o, tuple) and o[0] == 'PResolved')
    stored_n = sum(1 for o in outs if o == 'PStored')
    dup = any(o == 'PDupError' for o in outs)
    rout = None
    if len(outs) == 1:
        o = outs[0]
        rout = ('Got', list(o[1])) if isinstance(o, tuple) and o[0] == 'PGot' else str(o)[1:]
    return {'pid': pid, 'nleft': nleft, 'hs': hs, 'deliv': deliv, 'shape': [(lab(k), bool(w)) for k, w in shape],
            'resolved': resolved, 'stored_n': stored_n, 'dup': dup, 'rout': rout}


def compare(impl_obs, model, allow_error=False):
    """Exact per-call comparison (+ full final state); returns None or the first disagreement."""
    if isinstance(model, tuple) and model and model[0] == 'ERROR':
        return {'what': 'coq evaluation failed', 'detail': model[1]}
    calls, (fleft, fbuf) = model
    if len(impl_obs) != len(calls):
        return {'what': 'trace length', 'impl': len(impl_obs), 'model': len(calls)}
    for i, (o, r) in enumerate(zip(impl_obs, calls)):
        mo = model_obs(r)
        bad = None
        if o['pid'] != mo['pid']:
            bad = 'peer_pid'
        elif len(o['left']) != mo['nleft']:
            bad = 'number of leftover bytes'
        elif [(k, v == 'W') for k, v in o['buf']] != mo['shape']:
            bad = 'buffers (labels, order, waiting flags)'
        elif o['kind'] == 'chunk':
            if o['err']:
                if not (allow_error and mo['dup'] and o['err'] == 'AttributeError'):
                    bad = 'exception %s' % o['err']
            elif mo['dup']:
                bad = 'model DupError, no exception'
            elif [pc for pc, _ in o['resolved']] != mo['resolved']:
                bad = 'resolved futures'
            elif o['hs'] != mo['hs']:
                bad = 'handshake'
            elif sorted(o['resolved'] + o['stored']) != sorted(mo['deliv']):
                bad = 'deliveries'
            elif o['stored'] != [d for d in mo['deliv'] if d[0] not in mo['resolved']]:
                bad = 'order of stored deliveries'
        else:
            if o['out'] != mo['rout']:
                bad = 'receive result'
        if bad:
            return {'what': bad, 'step': i, 'impl': str(o)[:400], 'model': str(mo)[:400]}
    if impl_obs:
        o = impl_obs[-1]
        mb = [(lab(k), 'W' if v == 'Waiting' else list(v[1])) for k, v in fbuf]
        if o['left'] != list(fleft):
            return {'what': 'final leftover bytes', 'impl': str(o['left'])[:300], 'model': str(fleft)[:300]}
        if o['buf'] != mb:
            return {'what': 'final buffers', 'impl': str(o['buf'])[:300], 'model': str(mb)[:300]}
    return None


def coq_inputs(inputs):
    parts = []
    for kind, v in inputs:
        if kind == 'C':
            parts.append('Chunk %s' % hexlit(v))
        else:
            parts.append('Receive %s' % pc_expr(v))
    return '[' + '; '.join(parts) + ']'


# ---------------------------------------------------------------------------------------

def run(ctx):
    ok = ctx.build(['MPyC.Frame', 'MPyC.Buffers']) and ctx.check_props()
    rng = ctx.rng
    R, A = fn.mods()
    ctx.rule = ('case = (phase, [(pc, payload)...], chunking, receive positions) or (m, t, client, server, no_prss, keys, '
                'messages, chunking); non-trivial when some chunk boundary is not a frame boundary or a receive precedes '
                'its arrival; distinct = distinct (stream, chunking, interleaving)')
    ctx.explanation = ('theorems for all streams/chunkings/interleavings; Coq `sim` (Frame.step + Buffers) compared call by '
                       'call with real MessageExchanger objects; independent oracle: payload obtained under pc == payload sent under pc')

    vcount = {}

    def violate(sig, detail):
        """at most 3 replays per failing class (a broken parser fails thousands of cases)"""
        cls = sig.split(' m=')[0]
        vcount[cls] = vcount.get(cls, 0) + 1
        if vcount[cls] <= 3:
            ctx.violation(sig, detail)

    rt_frames = fn.make_runtime(2, 0, 1)
    exprs, meta = [], []
    stats = {'oracle_checks': 0}

    # ---- one frame-phase case: drive impl, oracle, queue model expression
    def frame_case(msgs, inputs, kind, with_model=True, nontrivial=True, allow_dup=False):
        """msgs: [(pc, payload bytes)] whose encoding is the stream; inputs: [('C', bytes) | ('R', pc)]."""
        fn.reset_protocols(rt_frames)
        ex, tr = fn.client_exchanger(rt_frames, 0)
        im = Impl(ex, rt_frames)
        for k, v in inputs:
            if k == 'C':
                im.chunk(v)
            else:
                im.receive(v)
        fed = b''.join(v for k, v in inputs if k == 'C')
        key = {'msgs': [[pc, len(p)] for pc, p in msgs], 'inputs': [[k, (v.hex() if k == 'C' else v)] for k, v in inputs]}
        if len(fed) > 400:
            key = {'msgs': [[pc, len(p)] for pc, p in msgs], 'cuts': [len(v) if k == 'C' else ['R', v] for k, v in inputs]}
        # independent oracle -------------------------------------------------------------
        if not allow_dup:
            stats['oracle_checks'] += 1
            pos, complete = 0, []
            for pc, p in msgs:
                if pos + 12 + len(p) <= len(fed):
                    complete.append((pc, p))
                    pos += 12 + len(p)
                else:
                    break
            sent = dict(complete)
            bad = None
            if im.error:
                bad = 'exception %s in data_received' % im.error
            elif bytes(ex.bytes) != fed[pos:]:
                bad = 'leftover bytes differ from the unparsed tail'
            else:
                for pc in im.rcv_called:
                    if pc in sent:
                        if im.received.get(pc) != sent[pc]:
                            bad = 'receive(%d) obtained %r, sent %r' % (pc, im.received.get(pc), sent[pc][:40])
                    elif pc in im.received:
                        bad = 'receive(%d) obtained a payload that was never (completely) sent' % pc
                for pc, p in complete:
                    if pc not in im.rcv_called and ex.buffers.get(pc) != p:
                        bad = 'payload for label %d not buffered intact' % pc
                extra = [pc for pc, v in ex.buffers.items() if not isinstance(v, Future) and (pc not in sent or pc in im.rcv_called)]
                if extra and not bad:
                    bad = 'unexpected buffered labels %s' % extra[:5]
            if bad:
                violate('framing-misdelivery %s' % kind, {'what': bad, 'msgs': [[pc, p.hex()] for pc, p in msgs],
                                                                   'inputs': key.get('inputs', key.get('cuts'))})
        ctx.case(key, nontrivial=nontrivial, kind=kind)
        if with_model:
            exprs.append('sim_c true (fun _ => []) (Some 0, []) [] %s' % coq_inputs(inputs))
            meta.append((kind, key, im.obs, allow_dup))

    def stream_of(msgs):
        # the stream is produced by the real send() and cross-checked with the reference encoder
        fn.reset_protocols(rt_frames)
        ex, tr = fn.client_exchanger(rt_frames, 0)
        tr.take()
        for pc, p in msgs:
            ex.send(pc, p)
        s = tr.take()
        if s != b''.join(enc_ref(pc, p) for pc, p in msgs) or ex.nbytes_sent != len(s):
            violate('send-encoding', {'msgs': [[pc, p.hex()] for pc, p in msgs], 'sent': s.hex()[:400]})
        return s

    def rand_payload(n):
        return bytes(rng.choice([0, 255, rng.randrange(256), rng.randrange(256)]) for _ in range(n))

    def rand_pc(used):
        while True:
            pc = rng.choice([LO, HI, -1, 0, 1, LO + 1, HI - 1, 2 ** 32, -2 ** 32, 255, 256, -256,
                             rng.randrange(LO, HI + 1), rng.randrange(-1000, 1000)])
            if pc not in used:
                used.add(pc)
                return pc

    def rand_msgs(n, lens):
        used = set()
        return [(rand_pc(used), rand_payload(rng.choice(lens))) for _ in range(n)]

    # ---- 0. codec: encode / try_frame against send() and struct
    codec = []
    for pc in [LO, LO + 1, -2 ** 32, -257, -256, -255, -1, 0, 1, 127, 128, 255, 256, 2 ** 31, 2 ** 32 - 1, 2 ** 32,
               2 ** 56 - 1, HI - 1, HI] + [rng.randrange(LO, HI + 1) for _ in range(ctx.n(20, 100))]:
        for n in (0, 1, 2, 17, 255, 256, 300):
            codec.append((pc, rand_payload(n)))
    codec = rng.sample(codec, ctx.n(120, 400))
    cexprs = []
    for pc, p in codec:
        s = stream_of([(pc, p)])
        got = struct.unpack_from('<qI', s)
        if got != (pc, len(p)) or s[12:] != p:
            violate('send-encoding', {'pc': pc, 'payload': p.hex()})
        cexprs.append('(encode (%s, %s), match try_frame (%s ++ [7; 7]) with Some (pc, p, r) => Some (enc_q pc, p, r) | None => None end)'
                      % (pc_expr(pc), hexlit(p), hexlit(s)))
        ctx.case({'codec': [pc, p.hex()]}, nontrivial=True, kind='codec')

    # a few labels written/printed as plain numerals (everything else goes through 8-byte lists)
    direct = [LO, HI, -1, 2 ** 32, -2 ** 40 + 3, rng.randrange(LO, HI + 1), rng.randrange(LO, HI + 1)]
    dexprs = ['(enc_q (%d), dec_q %s)' % (pc, zlist(list(enc_ref(pc, b'')[:8]))) for pc in direct]

    # ---- A. exhaustive chunkings
    # A1: every composition of a single frame (payload 0, 1, 2 bytes): 2^11 + 2^12 + 2^13 streams
    a1_model_quota = ctx.n(800, 20000)
    a1 = []
    for n in (0, 1, 2):
        msgs = [(rng.choice([LO, -1, HI, 513]), rand_payload(n))]
        s = stream_of(msgs)
        for cuts in fn.all_cutsets(len(s)):
            a1.append((msgs, s, cuts))
    keep = set(rng.sample(range(len(a1)), min(a1_model_quota, len(a1))))
    for i, (msgs, s, cuts) in enumerate(a1):
        frame_case(msgs, [('C', c) for c in fn.split_at(s, cuts)], 'exhaustive-1frame', with_model=(i in keep or len(cuts) <= 2),
                   nontrivial=bool(cuts))
    ctx.log('A1 done: %d compositions' % len(a1))
    # A2: 2 frames (payload 0 and 1): all cut sets of size <= 3; 3 frames (payloads 0,2,5): all cut multisets of size <= 2
    msgs2 = [(-7, b''), (HI, b'\xff')]
    s2 = stream_of(msgs2)
    a2 = [list(c) for r in range(0, 4) for c in itertools.combinations(range(1, len(s2)), r)]
    if ctx.tier != 'thorough':
        a2 = [c for c in a2 if len(c) <= 2] + rng.sample([c for c in a2 if len(c) == 3], 200)
    for cuts in a2:
        frame_case(msgs2, [('C', c) for c in fn.split_at(s2, cuts)], 'exhaustive-2frames', nontrivial=bool(cuts))
    msgs3 = [(LO, b''), (3, b'\x01\x02'), (-2, b'\x00\xff\x00\xff\x00')]
    s3 = stream_of(msgs3)
    for r in range(0, 3):
        for cuts in itertools.combinations_with_replacement(range(0, len(s3) + 1), r):   # repeated cut = empty chunk
            frame_case(msgs3, [('C', c) for c in fn.split_at(s3, list(cuts))], 'exhaustive-3frames', nontrivial=bool(cuts),
                       with_model=(r < 2 or ctx.tier == 'thorough' or rng.random() < 0.4))
    ctx.extra['exhaustive'] = True
    ctx.log('A2 done')

    # ---- B. all single split points of longer streams
    for rep in range(ctx.n(3, 10)):
        msgs = rand_msgs(rng.randrange(4, 9), [0, 0, 1, 2, 5, 11, 12, 13, 30])
        s = stream_of(msgs)
        for cut in range(0, len(s) + 1):
            frame_case(msgs, [('C', c) for c in fn.split_at(s, [cut])], 'single-split', nontrivial=True)
    # truncated streams (prefix property): every prefix length of a stream, randomly chunked
    for rep in range(ctx.n(2, 6)):
        msgs = rand_msgs(rng.randrange(3, 6), [0, 1, 3, 12, 20])
        s = stream_of(msgs)
        for cut in range(0, len(s) + 1):
            pre = s[:cut]
            cuts = fn.random_cuts(rng, len(pre), rng.randrange(0, 4), empties=rng.randrange(0, 2))
            inputs = [('C', c) for c in fn.split_at(pre, cuts)]
            # some receives before, some after
            lab = [pc for pc, _ in msgs]
            for pc in rng.sample(lab, rng.randrange(0, len(lab) + 1)):
                inputs.insert(rng.randrange(0, len(inputs) + 1), ('R', pc))
            frame_case(msgs, inputs, 'truncated-stream', nontrivial=True)

    # ---- C. random chunkings of longer streams
    for rep in range(ctx.n(300, 1500)):
        msgs = rand_msgs(rng.randrange(1, 8), [0, 0, 1, 2, 7, 12, 24, 40, 60])
        s = stream_of(msgs)
        style = rng.randrange(4)
        if style == 0:
            cuts = list(range(1, len(s)))          # byte by byte
        elif style == 1:
            cuts = fn.random_cuts(rng, len(s), rng.randrange(1, 6), empties=rng.randrange(0, 3))
        elif style == 2:
            cuts = fn.random_cuts(rng, len(s), rng.randrange(5, 30))
        else:  # cuts around frame boundaries +-1
            b, pos = [], 0
            for pc, p in msgs:
                pos += 12 + len(p)
                b += [max(0, min(len(s), pos + d)) for d in (-1, 0, 1, 8 - 12 - len(p), 12 - 12 - len(p)) if rng.random() < 0.5]
            cuts = sorted(b)
        inputs = [('C', c) for c in fn.split_at(s, cuts)]
        lab = [pc for pc, _ in msgs] + [rng.choice([4242, -4242])]   # one label that is never sent
        for pc in rng.sample(lab, rng.randrange(0, len(lab) + 1)):
            inputs.insert(rng.randrange(0, len(inputs) + 1), ('R', pc))
        frame_case(msgs, inputs, 'random-chunking', nontrivial=True)
    # KB-sized payloads: implementation + oracle only
    for rep in range(ctx.n(60, 300)):
        msgs = rand_msgs(rng.randrange(1, 6), [0, 1, 100, 1000, 4096, 5000, 65536 if rep % 10 == 0 else 3000])
        msgs = [(pc, rng.randbytes(len(p))) for pc, p in msgs]
        s = stream_of(msgs)
        cuts = fn.random_cuts(rng, len(s), rng.randrange(0, 40), empties=2)
        inputs = [('C', c) for c in fn.split_at(s, cuts)]
        for pc in rng.sample([pc for pc, _ in msgs], rng.randrange(0, len(msgs) + 1)):
            inputs.insert(rng.randrange(0, len(inputs) + 1), ('R', pc))
        frame_case(msgs, inputs, 'large-payload(oracle only)', with_model=False)
    ctx.log('B, C done')

    # ---- D. receive before / after arrival: all receive orders and all interleavings, <= 4 labels
    for n in range(1, 5):
        for rep in range(ctx.n(1, 2)):
            msgs = rand_msgs(n, [0, 1, 3])
            s = stream_of(msgs)
            frames = [enc_ref(pc, p) for pc, p in msgs]
            for perm in itertools.permutations(range(n)):
                for slots in itertools.combinations(range(2 * n), n):   # positions of the receives among 2n events
                    inputs, ai, ri = [], 0, 0
                    for i in range(2 * n):
                        if i in slots:
                            inputs.append(('R', msgs[perm[ri]][0]))
                            ri += 1
                        else:
                            inputs.append(('C', frames[ai]))
                            ai += 1
                    if rng.random() < 0.5:     # re-chunk: move the chunk boundaries off the frame boundaries
                        chunks = [i for i, (k, v) in enumerate(inputs) if k == 'C']
                        shift = rng.randrange(1, 12)
                        carry = b''
                        for j, ci in enumerate(chunks):
                            data = carry + inputs[ci][1]
                            if j < len(chunks) - 1:
                                carry = data[len(data) - shift:]
                                data = data[:len(data) - shift]
                            else:
                                carry = b''
                            inputs[ci] = ('C', data)
                    frame_case(msgs, inputs, 'receive-interleaving n=%d' % n, nontrivial=True,
                               with_model=(n < 4 or ctx.tier == 'thorough' or rng.random() < 0.2))
    ctx.log('D done')

    # ---- F. error stream: repeated labels (outside the property's hypothesis; model says DupError / OldFuture)
    for rep in range(ctx.n(20, 60)):
        pc = rng.choice([0, -1, HI, 5])
        p1, p2 = rand_payload(rng.randrange(0, 4)), rand_payload(rng.randrange(0, 4))
        variant = rep % 3
        if variant == 0:      # two arrivals under one label, one frame per chunk
            inputs = [('C', enc_ref(pc, p1)), ('C', enc_ref(pc, p2)), ('R', pc)]
        elif variant == 1:    # two receives under one label before arrival
            inputs = [('R', pc), ('R', pc), ('C', enc_ref(pc, p1)), ('R', pc)]
        else:
            inputs = [('C', enc_ref(pc, p1)), ('R', pc), ('R', pc), ('C', enc_ref(pc, p2))]
        frame_case([(pc, p1), (pc, p2)], inputs, 'repeated-label(error stream)', nontrivial=False, allow_dup=True)

    # ---- E. handshake: all (m, t), all ordered (client, server) pairs, with / without PRSS keys;
    #         plus runtimes whose threshold was assigned after construction (option value t0 != t)
    hs_n = 0
    maxm = ctx.n(6, 7)
    # (t, t0): threshold in force and the start-up option value.  t0 != t: the program assigned
    # mpc.threshold before mpc.start() -- both ends must use the threshold in force for the key packet.
    def tt(m):
        out = []
        for t in range(0, m):
            out.append((t, t))
            if m >= 3:
                others = [x for x in range(0, m) if x != t]
                if m > 4 and ctx.tier != 'thorough':
                    others = rng.sample(others, 2 if m == 5 else 1)
                out += [(t, t0) for t0 in others]
        return out
    for m in range(2, maxm + 1):
        for t, t0 in tt(m):
            for c in range(m):
                for sv in range(m):
                    if c == sv:
                        continue
                    for np_ in ((False, True) if t0 == t else (False,)):
                        salt = rng.randrange(1 << 30)

                        def key_fn(S, owner=None, salt=salt):
                            import hashlib
                            return hashlib.sha256(repr((S, salt)).encode()).digest()[:16]
                        rt_c = fn.make_runtime(m, t, c, np_, key_fn, option_t=t0)
                        exc, trc = fn.client_exchanger(rt_c, sv)
                        hello = trc.take()
                        msgs = rand_msgs(rng.randrange(0, 4), [0, 1, 2, 9])
                        for pc, p in msgs:
                            exc.send(pc, p)
                        s = hello + trc.take()
                        nkeys = 0 if np_ else sum(1 for S in itertools.combinations(range(m), m - t) if S[0] == c and sv in S)
                        if len(hello) != 2 + 16 * nkeys:
                            violate('handshake-hello-length', {'m': m, 't': t, 'option_t': t0, 'client': c, 'server': sv, 'no_prss': np_,
                                                                     'len': len(hello), 'want': 2 + 16 * nkeys})
                        styles = ['bytes', 'random', 'whole'] if ((m <= 4 and t0 == t) or ctx.tier == 'thorough') else [rng.choice(['bytes', 'random', 'random', 'whole'])]
                        for style in styles:
                            if style == 'bytes':
                                cuts = list(range(1, len(s)))
                            elif style == 'whole':
                                cuts = []
                            else:
                                cuts = fn.random_cuts(rng, len(s), rng.randrange(1, 8), empties=rng.randrange(0, 2))
                                if rng.random() < 0.5:
                                    cuts = sorted(cuts + [min(len(s), max(0, len(hello) + d)) for d in (-1, 1)])
                            chunks = fn.split_at(s, cuts)
                            # fresh server state for every run
                            rt_s = fn.make_runtime(m, t, sv, np_, key_fn, option_t=t0)
                            own = dict(getattr(rt_s, '_prss_keys', {}))
                            exs, trs = fn.server_exchanger(rt_s)
                            im = Impl(exs, rt_s)
                            inputs = [('C', ch) for ch in chunks]
                            lab = [pc for pc, _ in msgs]
                            for pc in rng.sample(lab, rng.randrange(0, len(lab) + 1)):
                                inputs.insert(rng.randrange(0, len(inputs) + 1), ('R', pc))
                            partial_seen = False
                            fedn = 0
                            for k, v in inputs:
                                if k == 'C':
                                    im.chunk(v)
                                    fedn += len(v)
                                    # oracle: nothing happens before the whole hello packet is there
                                    if fedn < len(hello):
                                        partial_seen = True
                                        if exs.peer_pid is not None or bytes(exs.bytes) != s[:fedn] or \
                                                set(getattr(rt_s, '_prss_keys', {})) != set(own):
                                            violate('handshake-consumed-early', {'m': m, 't': t, 'option_t': t0, 'client': c, 'server': sv,
                                                                                       'no_prss': np_, 'cuts': cuts, 'fed': fedn})
                                else:
                                    im.receive(v)
                            # independent oracle for the completed handshake
                            stats['oracle_checks'] += 1
                            bad = None
                            if im.error:
                                bad = 'exception ' + im.error
                            elif exs.peer_pid != c:
                                bad = 'peer_pid %r, client is %d' % (exs.peer_pid, c)
                            elif rt_s.parties[c].protocol is not exs:
                                bad = 'protocol not registered for the client'
                            elif bytes(exs.bytes) != b'':
                                bad = 'bytes left over after complete stream'
                            elif not np_:
                                want = dict(own)
                                for S in itertools.combinations(range(m), m - t):
                                    if S[0] == c and sv in S:
                                        want[S] = rt_c._prss_keys[S]
                                have = {S: bytes(k) for S, k in rt_s._prss_keys.items()}
                                if have != want:
                                    bad = 'PRSS keys stored by the server differ from the keys the client holds'
                            if not bad:
                                for pc, p in msgs:
                                    g = im.received.get(pc) if pc in im.rcv_called else exs.buffers.get(pc)
                                    if g != p:
                                        bad = 'frame after handshake: label %d got %r want %r' % (pc, g, p)
                            if bad:
                                violate('handshake-wrong%s m=%d t=%d no_prss=%s' % ('' if t0 == t else '(threshold assigned)', m, t, np_),
                                              {'what': bad, 'm': m, 't': t, 'option_t': t0, 'client': c, 'server': sv, 'no_prss': np_,
                                               'stream': s.hex(), 'cuts': cuts, 'inputs': [[k, v.hex() if k == 'C' else v] for k, v in inputs]})
                            key = {'m': m, 't': t, 'option_t': t0, 'client': c, 'server': sv, 'no_prss': np_, 'stream': s.hex()[:80],
                                   'cuts': cuts, 'rcv': [[i, v] for i, (k, v) in enumerate(inputs) if k == 'R']}
                            ctx.case(key, nontrivial=True, kind='handshake %s%s%s' % (style, ' no_prss' if np_ else '', '' if t0 == t else ' threshold!=option'))
                            hs_n += 1
                            if (m <= 4 and t0 == t) or ctx.tier == 'thorough' or rng.random() < 0.5:
                                exprs.append('sim_c_mt %s %s %s %s (None, []) [] %s' % (blit(np_), natlit(m), natlit(t), natlit(sv), coq_inputs(inputs)))
                                meta.append(('handshake', key, im.obs, False))
    ctx.log('E done: %d handshakes; evaluating %d model traces + %d codec expressions in Coq' % (hs_n, len(exprs), len(cexprs)))
    ctx.extra['independent_oracle_checks'] = stats['oracle_checks']

    # ---- model evaluation and exact comparison
    if ok:
        pre = 'Require Import MPyC.Buffers.\nLocal Open Scope Z_scope.\n'
        # coqc start-up dominates, so few big files; cases are dealt round-robin to balance the files
        nfiles = 14
        order = sorted(range(len(exprs)), key=lambda i: (i % nfiles, i))
        res_p = ctx.coq_eval(['MPyC.Frame'], [exprs[i] for i in order], preamble=pre,
                             chunk=max(50, -(-len(exprs) // nfiles)), jobs=nfiles)
        res = [None] * len(exprs)
        for i, r in zip(order, res_p):
            res[i] = r
        mism = 0
        for r, (kind, key, obs, allow_dup) in zip(res, meta):
            d = compare(obs, r, allow_error=allow_dup)
            if d:
                mism += 1
                if len(ctx.broken) < 20:
                    d.update({'kind': 'correspondence', 'stream': kind, 'case': key})
                    ctx.broken.append(d)
        cres = ctx.coq_eval(['MPyC.Frame'], cexprs, preamble=pre, chunk=500)
        for r, (pc, p) in zip(cres, codec):
            want = (list(enc_ref(pc, p)), ('Some', (list(enc_ref(pc, b'')[:8]), list(p), [7, 7])))
            if r != want:
                mism += 1
                if len(ctx.broken) < 20:
                    ctx.broken.append({'kind': 'correspondence', 'what': 'encode/try_frame', 'pc': pc, 'payload': p.hex(),
                                       'model': str(r)[:300]})
        dres = ctx.coq_eval(['MPyC.Frame'], dexprs, preamble='Local Open Scope Z_scope.\n', chunk=60)
        for r, pc in zip(dres, direct):
            if r != (list(enc_ref(pc, b'')[:8]), pc):
                mism += 1
                ctx.broken.append({'kind': 'correspondence', 'what': 'enc_q/dec_q', 'pc': pc, 'model': str(r)[:300]})
        ctx.extra['traces_validated_against_impl'] = len(exprs) + len(cexprs) - mism
        ctx.log('model/implementation disagreements: %d of %d' % (mism, len(exprs) + len(cexprs)))
    ctx.notes.append('repeated labels: data_received raises AttributeError (bytes.set_result) on a second arrival under a label '
                     'whose payload is still buffered, and a second receive(pc) before arrival pops the registered Future; both are '
                     'outside C10 (distinct labels, C09) and agree with the model (DupError / OldFuture)')
    if vcount:
        ctx.extra['failing_cases_per_class'] = dict(vcount)
    if ctx.broken and not ctx.violations:
        ctx.unproved('C10 model/proof', {'broken': ctx.broken[:5]})
