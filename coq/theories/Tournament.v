(** C29 — value-level models of runtime.min / max / min_max / argmin / argmax (tournament
    recursion on the halves x[:n//2], x[n//2:]) and their correctness for every length. *)
From Coq Require Import List ZArith Arith Bool Lia.
Import ListNotations.
Require Import MPyC.SortNet.
Local Open Scope Z_scope.

Section Tour.
Context {A : Type}.
Variable key : A -> Z.

(** ** min, max

      n = len(x);  n == 0: ValueError;  n == 1: return x[0]
      min0 = min(x[:n//2]); min1 = min(x[n//2:]); return if_else(key(min0) < key(min1), min0, min1)
      max0 = max(x[:n//2]); max1 = max(x[n//2:]); return if_else(key(max0) < key(max1), max1, max0)

    [None] = ValueError (empty) or fuel exhausted; fuel = length suffices (theorems). *)
Fixpoint tour (pick : A -> A -> A) (fuel : nat) (x : list A) : option A :=
  match fuel with
  | O => None
  | S k =>
    match x with
    | [] => None
    | [a] => Some a
    | _ => let h := (length x / 2)%nat in
           match tour pick k (firstn h x), tour pick k (skipn h x) with
           | Some m0, Some m1 => Some (pick m0 m1)
           | _, _ => None
           end
    end
  end.

Definition pick_min (m0 m1 : A) : A := if key m0 <? key m1 then m0 else m1.
Definition pick_max (m0 m1 : A) : A := if key m0 <? key m1 then m1 else m0.
Definition min_model (x : list A) : option A := tour pick_min (length x) x.
Definition max_model (x : list A) : option A := tour pick_max (length x) x.

(** ** argmin, argmax

      n == 1: return 0, x[0]
      i0, min0 = _argmin(x[:n//2]); i1, min1 = _argmin(x[n//2:]); i1 += n//2
      c = key(min1) < key(min0)          (argmax: c = key(max0) < key(max1))
      return if_else(c, i1, i0), if_else(c, min1, min0)                                   *)
Fixpoint targ (better : A -> A -> bool) (fuel : nat) (x : list A) : option (nat * A) :=
  match fuel with
  | O => None
  | S k =>
    match x with
    | [] => None
    | [a] => Some (O, a)
    | _ => let h := (length x / 2)%nat in
           match targ better k (firstn h x), targ better k (skipn h x) with
           | Some (i0, m0), Some (i1, m1) =>
             let i1 := (i1 + h)%nat in
             let c := better m1 m0 in
             Some (if c then i1 else i0, if c then m1 else m0)
           | _, _ => None
           end
    end
  end.

Definition better_min (m1 m0 : A) : bool := key m1 <? key m0.
Definition better_max (m1 m0 : A) : bool := key m0 <? key m1.
Definition argmin_model (x : list A) : option (nat * A) := targ better_min (length x) x.
Definition argmax_model (x : list A) : option (nat * A) := targ better_max (length x) x.

(** ** halving facts *)
Lemma halves (x : list A) : (2 <= length x)%nat ->
  let h := (length x / 2)%nat in
  x = firstn h x ++ skipn h x /\ length (firstn h x) = h /\ length (skipn h x) = (length x - h)%nat /\
  (1 <= h)%nat /\ (h < length x)%nat.
Proof.
  intros H h.
  assert (Hh : (1 <= h /\ h < length x)%nat).
  { unfold h. split.
    - apply Nat.div_le_lower_bound; lia.
    - apply Nat.div_lt_upper_bound; lia. }
  split; [symmetry; apply firstn_skipn|].
  rewrite firstn_length, skipn_length. lia.
Qed.

(** ** generic tournament: result is an element, related to every element *)
Section Spec.
Variable pick : A -> A -> A.
Variable R : A -> A -> Prop.       (* R m a: m is at least as extreme as a *)
Hypothesis R_refl : forall a, R a a.
Hypothesis R_trans : forall a b c, R a b -> R b c -> R a c.
Hypothesis pick_in : forall a b, pick a b = a \/ pick a b = b.
Hypothesis pick_R : forall a b, R (pick a b) a /\ R (pick a b) b.

Lemma tour_spec fuel : forall x, x <> [] -> (length x <= fuel)%nat ->
  exists m, tour pick fuel x = Some m /\ In m x /\ forall a, In a x -> R m a.
Proof.
  induction fuel as [|k IH]; intros x Hne Hlen.
  - destruct x; [contradiction|simpl in Hlen; lia].
  - destruct x as [|a [|b r]]; [contradiction| |].
    + exists a. simpl. split; [reflexivity|]. split; [auto|]. intros c [<-|[]]. apply R_refl.
    + set (x := a :: b :: r) in *.
      assert (H2 : (2 <= length x)%nat) by (unfold x; simpl; lia).
      destruct (halves x H2) as [Hx [L1 [L2 [Hh1 Hh2]]]].
      set (h := (length x / 2)%nat) in *.
      destruct (IH (firstn h x)) as [m0 [E0 [I0 M0]]].
      { intros E. assert (length (firstn h x) = 0)%nat by (rewrite E; reflexivity). lia. } { lia. }
      destruct (IH (skipn h x)) as [m1 [E1 [I1 M1]]].
      { intros E. assert (length (skipn h x) = 0)%nat by (rewrite E; reflexivity). lia. } { lia. }
      exists (pick m0 m1).
      change (tour pick (S k) x) with
        (match tour pick k (firstn h x), tour pick k (skipn h x) with
         | Some m0, Some m1 => Some (pick m0 m1) | _, _ => None end).
      rewrite E0, E1. split; [reflexivity|].
      destruct (pick_R m0 m1) as [R0 R1].
      split.
      * rewrite Hx. apply in_or_app. destruct (pick_in m0 m1) as [-> | ->]; auto.
      * intros c Hc. rewrite Hx in Hc. apply in_app_or in Hc. destruct Hc as [Hc|Hc].
        -- eapply R_trans; [exact R0|apply M0; exact Hc].
        -- eapply R_trans; [exact R1|apply M1; exact Hc].
Qed.
End Spec.

Theorem min_model_spec : forall x, x <> [] ->
  exists m, min_model x = Some m /\ In m x /\ forall a, In a x -> key m <= key a.
Proof.
  intros x Hne. unfold min_model.
  apply (tour_spec pick_min (fun m a => key m <= key a)); cbv beta.
  - intros; lia.
  - intros; lia.
  - intros a b. unfold pick_min. destruct (key a <? key b); auto.
  - intros a b. unfold pick_min. destruct (Z.ltb_spec (key a) (key b)); lia.
  - exact Hne.
  - lia.
Qed.

Theorem max_model_spec : forall x, x <> [] ->
  exists m, max_model x = Some m /\ In m x /\ forall a, In a x -> key a <= key m.
Proof.
  intros x Hne. unfold max_model.
  apply (tour_spec pick_max (fun m a => key a <= key m)); cbv beta.
  - intros; lia.
  - intros; lia.
  - intros a b. unfold pick_max. destruct (key a <? key b); auto.
  - intros a b. unfold pick_max. destruct (Z.ltb_spec (key a) (key b)); lia.
  - exact Hne.
  - lia.
Qed.

Lemma tour_empty pick fuel : tour pick fuel [] = None.
Proof. destruct fuel; reflexivity. Qed.

(** ** argmin / argmax: first extreme index *)
Section ArgSpec.
Variable better : A -> A -> bool.
Variable k' : A -> Z.     (* better a b <-> k' a < k' b *)
Hypothesis better_lt : forall a b, better a b = (k' a <? k' b).
Variable d : A.

Lemma targ_spec fuel : forall x, x <> [] -> (length x <= fuel)%nat ->
  exists i m, targ better fuel x = Some (i, m) /\ (i < length x)%nat /\ nth i x d = m /\
    (forall j, (j < length x)%nat -> k' m <= k' (nth j x d)) /\
    (forall j, (j < i)%nat -> k' m < k' (nth j x d)).
Proof.
  induction fuel as [|k IH]; intros x Hne Hlen.
  - destruct x; [contradiction|simpl in Hlen; lia].
  - destruct x as [|a [|b r]]; [contradiction| |].
    + exists O, a. simpl. repeat split; try lia.
      intros j Hj. destruct j; [lia|lia].
    + set (x := a :: b :: r) in *.
      assert (H2 : (2 <= length x)%nat) by (unfold x; simpl; lia).
      destruct (halves x H2) as [Hx [L1 [L2 [Hh1 Hh2]]]].
      set (h := (length x / 2)%nat) in *.
      destruct (IH (firstn h x)) as [i0 [m0 [E0 [B0 [N0 [M0 F0]]]]]].
      { intros E. assert (length (firstn h x) = 0)%nat by (rewrite E; reflexivity). lia. } { lia. }
      destruct (IH (skipn h x)) as [i1 [m1 [E1 [B1 [N1 [M1 F1]]]]]].
      { intros E. assert (length (skipn h x) = 0)%nat by (rewrite E; reflexivity). lia. } { lia. }
      change (targ better (S k) x) with
        (match targ better k (firstn h x), targ better k (skipn h x) with
         | Some (i0, m0), Some (i1, m1) =>
           let i1 := (i1 + h)%nat in let c := better m1 m0 in
           Some (if c then i1 else i0, if c then m1 else m0)
         | _, _ => None end).
      rewrite E0, E1. cbv zeta. rewrite better_lt.
      set (l1 := firstn h x) in *. set (l2 := skipn h x) in *.
      assert (Nlo : forall j, (j < h)%nat -> nth j x d = nth j l1 d).
      { intros j Hj. rewrite Hx. apply app_nth1. lia. }
      assert (Nhi : forall j, (h <= j)%nat -> nth j x d = nth (j - h) l2 d).
      { intros j Hj. rewrite Hx. rewrite app_nth2 by lia. rewrite L1. reflexivity. }
      destruct (Z.ltb_spec (k' m1) (k' m0)) as [Hc|Hc].
      * exists (i1 + h)%nat, m1. split; [reflexivity|]. split; [lia|]. split.
        { rewrite Nhi by lia. replace (i1 + h - h)%nat with i1 by lia. exact N1. }
        split.
        { intros j Hj. destruct (Nat.lt_ge_cases j h) as [Hjh|Hjh].
          - rewrite Nlo by exact Hjh. specialize (M0 j ltac:(lia)). lia.
          - rewrite Nhi by exact Hjh. apply M1. lia. }
        { intros j Hj. destruct (Nat.lt_ge_cases j h) as [Hjh|Hjh].
          - rewrite Nlo by exact Hjh. specialize (M0 j ltac:(lia)). lia.
          - rewrite Nhi by exact Hjh. apply F1. lia. }
      * exists i0, m0. split; [reflexivity|]. split; [lia|]. split.
        { rewrite Nlo by lia. exact N0. }
        split.
        { intros j Hj. destruct (Nat.lt_ge_cases j h) as [Hjh|Hjh].
          - rewrite Nlo by exact Hjh. apply M0. lia.
          - rewrite Nhi by exact Hjh. specialize (M1 (j - h)%nat ltac:(lia)). lia. }
        { intros j Hj. rewrite Nlo by lia. apply F0. exact Hj. }
Qed.
End ArgSpec.

Theorem argmin_model_spec : forall (d : A) x, x <> [] ->
  exists i m, argmin_model x = Some (i, m) /\ (i < length x)%nat /\ nth i x d = m /\
    (forall j, (j < length x)%nat -> key m <= key (nth j x d)) /\
    (forall j, (j < i)%nat -> key m < key (nth j x d)).
Proof.
  intros d x Hne. unfold argmin_model.
  apply (targ_spec better_min key); [intros a b; reflexivity|exact Hne|lia].
Qed.

Theorem argmax_model_spec : forall (d : A) x, x <> [] ->
  exists i m, argmax_model x = Some (i, m) /\ (i < length x)%nat /\ nth i x d = m /\
    (forall j, (j < length x)%nat -> key (nth j x d) <= key m) /\
    (forall j, (j < i)%nat -> key (nth j x d) < key m).
Proof.
  intros d x Hne. unfold argmax_model.
  destruct (targ_spec better_max (fun a => - key a) ) with (d := d) (fuel := length x) (x := x)
    as [i [m [E [B [N [M F]]]]]]; auto.
  - intros a b. unfold better_max. destruct (Z.ltb_spec (key b) (key a)), (Z.ltb_spec (- key a) (- key b)); auto; lia.
  - exists i, m. repeat split; auto.
    + intros j Hj. specialize (M j Hj). lia.
    + intros j Hj. specialize (F j Hj). lia.
Qed.

End Tour.

(** ** numbers (key = identity): min = fold Z.min, max = fold Z.max *)

Lemma fold_min_spec l : forall a, let r := fold_left Z.min l a in In r (a :: l) /\ forall y, In y (a :: l) -> r <= y.
Proof.
  induction l as [|b l IH]; intros a; simpl.
  - split; [auto|]. intros y [<-|[]]. lia.
  - destruct (IH (Z.min a b)) as [I M]. simpl in I, M. split.
    + destruct I as [I|I]; [|auto]. rewrite <- I. destruct (Z.min_spec a b) as [[_ ->]|[_ ->]]; auto.
    + intros y [<-|[<-|Hy]].
      * specialize (M (Z.min a b) (or_introl eq_refl)). lia.
      * specialize (M (Z.min a b) (or_introl eq_refl)). lia.
      * apply M. auto.
Qed.

Lemma fold_max_spec l : forall a, let r := fold_left Z.max l a in In r (a :: l) /\ forall y, In y (a :: l) -> y <= r.
Proof.
  induction l as [|b l IH]; intros a; simpl.
  - split; [auto|]. intros y [<-|[]]. lia.
  - destruct (IH (Z.max a b)) as [I M]. simpl in I, M. split.
    + destruct I as [I|I]; [|auto]. rewrite <- I. destruct (Z.max_spec a b) as [[_ ->]|[_ ->]]; auto.
    + intros y [<-|[<-|Hy]].
      * specialize (M (Z.max a b) (or_introl eq_refl)). lia.
      * specialize (M (Z.max a b) (or_introl eq_refl)). lia.
      * apply M. auto.
Qed.

Definition zid (a : Z) : Z := a.

Theorem min_eq_fold : forall a l, min_model zid (a :: l) = Some (fold_left Z.min l a).
Proof.
  intros a l. destruct (min_model_spec zid (a :: l)) as [m [E [I M]]]; [discriminate|].
  rewrite E. f_equal. destruct (fold_min_spec l a) as [I' M']. unfold zid in M.
  specialize (M _ I'). specialize (M' _ I). lia.
Qed.

Theorem max_eq_fold : forall a l, max_model zid (a :: l) = Some (fold_left Z.max l a).
Proof.
  intros a l. destruct (max_model_spec zid (a :: l)) as [m [E [I M]]]; [discriminate|].
  rewrite E. f_equal. destruct (fold_max_spec l a) as [I' M']. unfold zid in M.
  specialize (M _ I'). specialize (M' _ I). lia.
Qed.

Theorem min_empty : forall {A} (key : A -> Z), min_model key [] = None /\ max_model key [] = None
  /\ argmin_model key [] = None /\ argmax_model key [] = None.
Proof. intros. repeat split. Qed.

(** ** min_max

      for i in range(n//2):
          a, b = x[i], x[-1-i]
          x[i], x[-1-i] = if_swap(a >= b, a, b)        # NB: compares the elements, not key(...)
      return min(x[:(n+1)//2], key=key), max(x[n//2:], key=key)                           *)

Definition prepass_step (n : nat) (x : list Z) (i : nat) : list Z :=
  let a := nth i x 0 in let b := nth (n - 1 - i) x 0 in
  let ab := if a >=? b then (b, a) else (a, b) in
  set_nth (n - 1 - i) (snd ab) (set_nth i (fst ab) x).

Definition prepass (x : list Z) : list Z :=
  let n := length x in fold_left (prepass_step n) (seq 0 (n / 2)) x.

Definition min_max_model (key : Z -> Z) (x : list Z) : option Z * option Z :=
  let n := length x in
  let x' := prepass x in
  (min_model key (firstn ((n + 1) / 2) x'), max_model key (skipn (n / 2) x')).

Lemma prepass_step_length n x i : length (prepass_step n x i) = length x.
Proof. unfold prepass_step. rewrite !set_nth_length. reflexivity. Qed.

Lemma prepass_steps_length n l : forall x, length (fold_left (prepass_step n) l x) = length x.
Proof. induction l as [|i l IH]; intros x; simpl; [reflexivity|]. rewrite IH. apply prepass_step_length. Qed.

(** state after the first k iterations, position by position *)
Lemma prepass_nth (x : list Z) (k : nat) : (k <= length x / 2)%nat ->
  forall j, (j < length x)%nat ->
    nth j (fold_left (prepass_step (length x)) (seq 0 k) x) 0 =
      if (j <? k)%nat then Z.min (nth j x 0) (nth (length x - 1 - j) x 0)
      else if (length x - 1 - k <? j)%nat then Z.max (nth j x 0) (nth (length x - 1 - j) x 0)
      else nth j x 0.
Proof.
  set (n := length x).
  assert (Hn2 : (2 * (n / 2) <= n)%nat) by (apply Nat.mul_div_le; lia).
  induction k as [|k IH]; intros Hk j Hj.
  - simpl. destruct (Nat.ltb_spec (n - 1 - 0) j); [lia|reflexivity].
  - rewrite seq_S, fold_left_app. simpl fold_left. cbn [plus].
    set (y := fold_left (prepass_step n) (seq 0 k) x) in *.
    assert (Ly : length y = n) by (unfold y; apply prepass_steps_length).
    unfold prepass_step.
    rewrite !nth_set_nth, set_nth_length, Ly.
    rewrite (IH ltac:(lia) k ltac:(lia)), (IH ltac:(lia) (n - 1 - k)%nat ltac:(lia)).
    rewrite (IH ltac:(lia) j Hj).
    replace (n - 1 - (n - 1 - k))%nat with k by lia.
    repeat match goal with
           | |- context [Nat.ltb ?a ?b] => destruct (Nat.ltb_spec a b); try lia
           | |- context [Nat.eqb ?a ?b] => destruct (Nat.eqb_spec a b); try lia
           end; cbn [andb fst snd]; subst;
    repeat match goal with
           | |- context [Z.geb ?a ?b] => destruct (Z.geb_spec a b)
           end; cbn [fst snd];
    try replace (n - 1 - (n - 1 - k))%nat with k by lia; try lia.
Qed.

Lemma prepass_length x : length (prepass x) = length x.
Proof. unfold prepass. apply prepass_steps_length. Qed.

Lemma prepass_spec (x : list Z) : forall j, (j < length x)%nat ->
  nth j (prepass x) 0 =
    if (j <? length x / 2)%nat then Z.min (nth j x 0) (nth (length x - 1 - j) x 0)
    else if (length x - 1 - length x / 2 <? j)%nat then Z.max (nth j x 0) (nth (length x - 1 - j) x 0)
    else nth j x 0.
Proof. intros j Hj. unfold prepass. apply prepass_nth; [lia|exact Hj]. Qed.

Lemma In_nth_ex (l : list Z) a : In a l -> exists j, (j < length l)%nat /\ nth j l 0 = a.
Proof. intros H. destruct (In_nth l a 0 H) as [j [H1 H2]]. eauto. Qed.

Theorem min_max_eq_fold : forall a l,
  min_max_model zid (a :: l) = (Some (fold_left Z.min l a), Some (fold_left Z.max l a)).
Proof.
  intros a l. set (x := a :: l). unfold min_max_model.
  set (n := length x). set (x' := prepass x).
  assert (Hn : (1 <= n)%nat) by (unfold n, x; simpl; lia).
  assert (L' : length x' = n) by apply prepass_length.
  assert (Hn2 : (2 * (n / 2) <= n /\ n < 2 * (n / 2) + 2)%nat).
  { pose proof (Nat.div_mod n 2 ltac:(lia)). pose proof (Nat.mod_upper_bound n 2 ltac:(lia)). lia. }
  assert (Hc : ((n + 1) / 2 = n - n / 2)%nat).
  { symmetry. apply Nat.div_unique with (r := (n + 1 - 2 * (n - n / 2))%nat); lia. }
  assert (S' : forall j, (j < n)%nat -> nth j x' 0 =
      if (j <? n / 2)%nat then Z.min (nth j x 0) (nth (n - 1 - j) x 0)
      else if (n - 1 - n / 2 <? j)%nat then Z.max (nth j x 0) (nth (n - 1 - j) x 0)
      else nth j x 0) by (intros j Hj; apply prepass_spec; exact Hj).
  f_equal.
  - (* minimum of the lower half *)
    set (lo := firstn ((n + 1) / 2) x').
    assert (Llo : length lo = ((n + 1) / 2)%nat) by (unfold lo; rewrite firstn_length; lia).
    assert (Nlo : forall j, (j < (n + 1) / 2)%nat -> nth j lo 0 = nth j x' 0).
    { intros j Hj. unfold lo. rewrite <- (firstn_skipn ((n + 1) / 2) x') at 2.
      rewrite app_nth1 by (fold lo; lia). reflexivity. }
    destruct (min_model_spec zid lo) as [m [E [I M]]].
    { intros E. assert (length lo = 0)%nat by (rewrite E; reflexivity). lia. }
    rewrite E. f_equal. unfold zid in M.
    destruct (fold_min_spec l a) as [I' M']. fold x in I', M'.
    assert (Hle : fold_left Z.min l a <= m).
    { destruct (In_nth_ex lo m I) as [j [Hj <-]]. rewrite Nlo, S' by lia.
      repeat match goal with |- context [Nat.ltb ?a ?b] => destruct (Nat.ltb_spec a b) end.
      - destruct (Z.min_spec (nth j x 0) (nth (n - 1 - j) x 0)) as [[_ ->]|[_ ->]];
          apply M', nth_In; fold n; lia.
      - lia.
      - apply M', nth_In; fold n; lia. }
    assert (Hge : m <= fold_left Z.min l a).
    { destruct (In_nth_ex x _ I') as [j [Hj <-]]. fold n in Hj.
      destruct (Nat.lt_ge_cases j ((n + 1) / 2)) as [Hjl|Hjl].
      - assert (Hm : m <= nth j lo 0) by (apply M, nth_In; lia).
        rewrite Nlo, S' in Hm by lia.
        repeat match type of Hm with context [Nat.ltb ?a ?b] => destruct (Nat.ltb_spec a b) end; lia.
      - assert (Hm : m <= nth (n - 1 - j) lo 0) by (apply M, nth_In; lia).
        rewrite Nlo, S' in Hm by lia.
        replace (n - 1 - (n - 1 - j))%nat with j in Hm by lia.
        repeat match type of Hm with context [Nat.ltb ?a ?b] => destruct (Nat.ltb_spec a b) end; lia. }
    lia.
  - (* maximum of the upper half *)
    set (hi := skipn (n / 2) x').
    assert (Lhi : length hi = (n - n / 2)%nat) by (unfold hi; rewrite skipn_length; lia).
    assert (Nhi : forall j, (j < n - n / 2)%nat -> nth j hi 0 = nth (n / 2 + j) x' 0).
    { intros j Hj. unfold hi. rewrite <- (firstn_skipn (n / 2) x') at 2.
      rewrite app_nth2; rewrite firstn_length; [|lia]. f_equal. lia. }
    destruct (max_model_spec zid hi) as [m [E [I M]]].
    { intros E. assert (length hi = 0)%nat by (rewrite E; reflexivity). lia. }
    rewrite E. f_equal. unfold zid in M.
    destruct (fold_max_spec l a) as [I' M']. fold x in I', M'.
    assert (Hle : m <= fold_left Z.max l a).
    { destruct (In_nth_ex hi m I) as [j [Hj <-]]. rewrite Nhi, S' by lia.
      repeat match goal with |- context [Nat.ltb ?a ?b] => destruct (Nat.ltb_spec a b) end.
      - lia.
      - destruct (Z.max_spec (nth (n / 2 + j) x 0) (nth (n - 1 - (n / 2 + j)) x 0)) as [[_ ->]|[_ ->]];
          apply M', nth_In; fold n; lia.
      - apply M', nth_In; fold n; lia. }
    assert (Hge : fold_left Z.max l a <= m).
    { destruct (In_nth_ex x _ I') as [j [Hj <-]]. fold n in Hj.
      destruct (Nat.lt_ge_cases j (n / 2)) as [Hjl|Hjl].
      - assert (Hm : nth (n - 1 - j - n / 2) hi 0 <= m) by (apply M, nth_In; lia).
        rewrite Nhi, S' in Hm by lia.
        replace (n / 2 + (n - 1 - j - n / 2))%nat with (n - 1 - j)%nat in Hm by lia.
        replace (n - 1 - (n - 1 - j))%nat with j in Hm by lia.
        repeat match type of Hm with context [Nat.ltb ?a ?b] => destruct (Nat.ltb_spec a b) end; lia.
      - assert (Hm : nth (j - n / 2) hi 0 <= m) by (apply M, nth_In; lia).
        rewrite Nhi, S' in Hm by lia.
        replace (n / 2 + (j - n / 2))%nat with j in Hm by lia.
        repeat match type of Hm with context [Nat.ltb ?a ?b] => destruct (Nat.ltb_spec a b) end; lia. }
    lia.
Qed.

(** with a key the pre-pass still compares the raw elements: min_max is wrong for non-monotone keys *)
Theorem min_max_key_refuted :
  exists (key : Z -> Z) (x : list Z) m M, min_max_model key x = (Some m, Some M) /\
    ~ (forall a, In a x -> key m <= key a).
Proof.
  exists Z.opp, [1; 2], 1, 2. split; [reflexivity|].
  intros H. specialize (H 2 (or_intror (or_introl eq_refl))). simpl in H. lia.
Qed.
