(** C24 — irreducibility tests and irreducible-modulus search.
    Only statements; proofs are in theories/Irred.v (as-coded models of _is_irreducible /
    _next_irreducible of both classes, find_irreducible, xGF acceptance; [brute_irreducible]
    is trial division by every polynomial of degree 1 .. deg-1). *)
Require Import MPyC.Base MPyC.Zp MPyC.Gfpx MPyC.Gf2x MPyC.Irred.
From Coq Require Import ZArith Znumtheory.
Local Open Scope Z_scope.

(** the reference test means: degree >= 1 and no polynomial of degree 1..deg-1 divides *)
Theorem C24_brute_force_meaning : forall p a, 0 <= p ->
  brute_irreducible p a = true <->
  (1 < length a)%nat /\
  forall k, p <= k < p ^ (Z.of_nat (length a) - 1) -> from_int p k = [] \/ mod_nz p a (from_int p k) <> [].
Proof. exact brute_irreducible_iff. Qed.
Print Assumptions C24_brute_force_meaning.

(** Ben-Or test = brute force for ALL polynomials with integer encoding below the bound *)
Theorem C24_is_irreducible_bounded : forall p N, In (p, N) [(2, 1024); (3, 729); (5, 625); (7, 343)] ->
  forall a, 0 <= a < N -> is_irreducible p (from_int p a) = Ok (brute_irreducible p (from_int p a)).
Proof. exact is_irreducible_bounded. Qed.
Print Assumptions C24_is_irreducible_bounded.
Theorem C24_is_irreducible_binary_bounded : forall a, 0 <= a < 1024 ->
  is_irreducible2 a = Ok (brute_irreducible 2 (bits a)).
Proof. exact is_irreducible2_bounded. Qed.
Print Assumptions C24_is_irreducible_binary_bounded.
Theorem C24_GF_accepts_iff_irreducible_bounded : forall p N, In (p, N) [(2, 1024); (3, 729); (5, 625); (7, 343)] ->
  forall a, 0 <= a < N -> gf_accepts p (from_int p a) = Ok (brute_irreducible p (from_int p a)).
Proof. exact gf_accepts_bounded. Qed.
Print Assumptions C24_GF_accepts_iff_irreducible_bounded.

(** binary class: next_irreducible is the least irreducible above its argument *)
Theorem C24_next_irreducible_binary_bounded : forall a, 0 <= a < 1024 ->
  exists b, next_irreducible2 600 a = Ok b /\ a < b /\ is_irreducible2 b = Ok true /\
            forall c, a < c < b -> is_irreducible2 c <> Ok true.
Proof. exact next_irreducible2_bounded. Qed.
Print Assumptions C24_next_irreducible_binary_bounded.
Theorem C24_find_irreducible_binary_smallest_bounded : forall d, 1 <= d <= 12 ->
  exists b, find_irreducible2 600 d = Ok b /\ 2 ^ d <= b < 2 ^ (d + 1) /\ is_irreducible2 b = Ok true /\
            forall c, 2 ^ d <= c < b -> is_irreducible2 c <> Ok true.
Proof. exact find_irreducible2_smallest_bounded. Qed.
Print Assumptions C24_find_irreducible_binary_smallest_bounded.

(** generic class: next_irreducible(a) is the least monic irreducible above a, for EVERY a of the bounded
    domains (after the repair of F-C24-1 the candidate X is no longer skipped) *)
Theorem C24_next_irreducible_generic_bounded : forall p N, In (p, N) [(2, 512); (3, 243); (5, 625); (7, 343)] ->
  forall a, 0 <= a < N ->
  exists b, next_irreducible p 600 (from_int p a) = Ok b /\ a < to_int p b /\ monic_irr p (to_int p b) = true /\
            forall c, a < c < to_int p b -> monic_irr p c = false.
Proof. exact next_irreducible_bounded. Qed.
Print Assumptions C24_next_irreducible_generic_bounded.
Theorem C24_next_irreducible_finds_X_bounded : forall p, In p [3; 5; 7; 11; 13] ->
  forall a, 0 <= a < p -> next_irreducible p 600 (from_int p a) = Ok [0; 1].
Proof. exact next_irreducible_finds_X_bounded. Qed.
Print Assumptions C24_next_irreducible_finds_X_bounded.
(** find_irreducible(p, d) is the smallest monic irreducible of degree d (d = 1 included), bounded domains *)
Theorem C24_find_irreducible_bounded : forall p N, In (p, N) [(2, 512); (3, 243); (5, 625); (7, 343)] ->
  forall d, 0 <= p ^ d - 1 < N ->
  exists b, find_irreducible p 600 d = Ok b /\ p ^ d - 1 < to_int p b /\ monic_irr p (to_int p b) = true /\
            forall c, p ^ d - 1 < c < to_int p b -> monic_irr p c = false.
Proof. exact find_irreducible_bounded. Qed.
Print Assumptions C24_find_irreducible_bounded.

(** Non-vacuity: X^2+1 over GF(3) is irreducible, X^2+2 = (X+1)(X+2) is not; binary X^3+X+1 *)
Example C24_nonvacuous :
  is_irreducible 3 [1; 0; 1] = Ok true /\ is_irreducible 3 [2; 0; 1] = Ok false /\
  brute_irreducible 3 [1; 0; 1] = true /\ is_irreducible2 11 = Ok true /\
  next_irreducible2 600 11 = Ok 13 /\ next_irreducible 3 600 [] = Ok [0; 1].
Proof. vm_compute. auto 10. Qed.
