(** C26 — generated field primes meet their size, Blum and root-of-unity constraints.
    Only statements; models (finfields.find_prime_root, sectypes._pfield) and proofs are in
    theories/PrimeRoot.v, over the gmpy-stub models of theories/Gmpy.v.  The primality test used by
    the code (Miller-Rabin on a random tape) is the parameter [isp]; theorems are relative to it
    accepting only primes ([->]) or being exact ([<->]); C25 proves it never rejects a prime. *)
Require Import MPyC.Gmpy MPyC.PrimeRoot.
From Coq Require Import ZArith Znumtheory List Bool.
Import ListNotations.
Local Open Scope nat_scope.
Local Open Scope Z_scope.

(** ---- l <= 2 ---- *)
Theorem C26_tiny : forall isp fuel tp l blum n r tp', l <= 2 ->
  find_prime_root_gen isp fuel tp l blum n = (r, tp') ->
  tp' = tp /\ (blum = true -> r = Ok (3, 2, 2)) /\ (blum = false -> n = 1 -> r = Ok (2, 1, 1)) /\
  (blum = false -> n <> 1 -> r = EAssert).
Proof. exact find_prime_root_tiny. Qed.
Print Assumptions C26_tiny.

(** ---- n <= 2: largest (Blum) prime below 2^l; exactly l bits as soon as an l-bit (Blum) prime exists ---- *)
Theorem C26_small_n : forall (isp : tape -> Z -> bool * tape),
  (forall tp z, fst (isp tp z) = true <-> prime z) ->
  forall fuel tp l blum n p n' w tp', 2 < l -> n <= 2 ->
    find_prime_root_gen isp fuel tp l blum n = (Ok (p, n', w), tp') ->
    n' = n /\ prime p /\ p < 2 ^ l /\ (blum = true -> p mod 4 = 3) /\
    (forall q, p < q < 2 ^ l -> prime q -> (blum = true -> q mod 4 = 3) -> False) /\
    w = (if n =? 2 then p - 1 else 1) /\
    ((exists q, prime q /\ (blum = true -> q mod 4 = 3) /\ 2 ^ (l - 1) <= q < 2 ^ l) -> bit_length p = l).
Proof. exact find_prime_root_small_n. Qed.
Print Assumptions C26_small_n.

(** existence of an l-bit Blum prime: by computation for 3 <= l <= 16 (beyond: hypothesis of C26_small_n) *)
Theorem C26_blum_prime_exists_bounded : forall l, 3 <= l <= 16 ->
  exists q, prime q /\ q mod 4 = 3 /\ 2 ^ (l - 1) <= q < 2 ^ l.
Proof. exact blum_prime_exists_bounded. Qed.
Print Assumptions C26_blum_prime_exists_bounded.

Theorem C26_minus_one_order_2 : forall p, 2 < p -> (p - 1) ^ 2 mod p = 1 /\ (p - 1) mod p <> 1.
Proof. exact minus_one_order_2. Qed.
Print Assumptions C26_minus_one_order_2.

(** ---- n > 2: candidates 1 + 2n(3 + 2*floor(2^(l-3)/n)) + 4nk ---- *)
Theorem C26_candidate_big : forall l n k, 3 <= l -> 0 < n -> 0 <= k -> 2 ^ (l - 1) < first_candidate l n + 4 * n * k.
Proof. exact candidate_big. Qed.
Print Assumptions C26_candidate_big.

Theorem C26_candidate_blum : forall l n k, Z.odd n = true -> (first_candidate l n + 4 * n * k) mod 4 = 3.
Proof. exact candidate_blum. Qed.
Print Assumptions C26_candidate_blum.

Theorem C26_candidate_div : forall l n k, (n | first_candidate l n + 4 * n * k - 1).
Proof. exact candidate_div. Qed.
Print Assumptions C26_candidate_div.

Theorem C26_order_prime : forall p w n, 1 < p -> prime n -> w ^ n mod p = 1 -> w mod p <> 1 ->
  forall k, 0 < k < n -> w ^ k mod p <> 1.
Proof. exact order_prime. Qed.
Print Assumptions C26_order_prime.

Theorem C26_root_pow : forall p n a, prime p -> 0 < n -> (n | p - 1) -> ~ (p | a) ->
  (a ^ ((p - 1) / n) mod p) ^ n mod p = 1.
Proof. exact root_pow. Qed.
Print Assumptions C26_root_pow.

(** the whole n > 2 branch.  The order statement carries the side condition that the base a found by
    the search loop is not a multiple of p (a < p); that the loop stops before a = p is NOT proved. *)
Theorem C26_big_n_partial : forall (isp : tape -> Z -> bool * tape),
  (forall tp z, fst (isp tp z) = true -> prime z) ->
  forall fuel tp l blum n p n' w tp', 2 < l -> 2 < n ->
    find_prime_root_gen isp fuel tp l blum n = (Ok (p, n', w), tp') ->
    blum = true /\ prime p /\ prime n' /\ n <= n' /\ 2 ^ (l - 1) < p /\ l <= bit_length p /\ p mod 4 = 3 /\ (n' | p - 1) /\
    0 <= w < p /\ w <> 1 /\
    exists a, 2 <= a /\ w = a ^ ((p - 1) / n') mod p /\
      (~ (p | a) -> w ^ n' mod p = 1 /\ forall k, 0 < k < n' -> w ^ k mod p <> 1).
Proof. exact find_prime_root_big_n. Qed.
Print Assumptions C26_big_n_partial.

Theorem C26_noblum_assert : forall isp fuel tp l n, 2 < l -> 2 < n ->
  fst (find_prime_root_gen isp fuel tp l false n) = EAssert.
Proof. exact find_prime_root_noblum_assert. Qed.
Print Assumptions C26_noblum_assert.

(** ---- _pfield ---- *)
Theorem C26_bit_length_gt : forall p L, 0 < p -> 0 <= L -> L < bit_length p -> 2 ^ L <= p.
Proof. exact bit_length_gt. Qed.
Print Assumptions C26_bit_length_gt.

Theorem C26_pfield_user_modulus : forall (isp : tape -> Z -> bool * tape),
  (forall tp z, fst (isp tp z) = true -> prime z) ->
  forall fuel tp l f k p0 n m t p tp', 0 <= l + f + k + 1 ->
    pfield_gen isp fuel tp l f k (Some p0) n m t = (Ok p, tp') ->
    p = p0 /\ prime p /\ 2 ^ (l + f + k + 1) <= p /\ (1 <= l + f + k -> 2 ^ (l + f + k + 1) < p) /\ (t = 0 \/ m < p).
Proof. exact pfield_user_modulus. Qed.
Print Assumptions C26_pfield_user_modulus.

Theorem C26_pfield_refuses_small : forall isp fuel tp l f k p0 n m t,
  bit_length p0 <= l + f + k + 1 -> fst (pfield_gen isp fuel tp l f k (Some p0) n m t) = EValue.
Proof. exact pfield_small_refused. Qed.
Print Assumptions C26_pfield_refuses_small.

Theorem C26_pfield_more_than_parties : forall isp fuel tp l f k p n m t r tp',
  pfield_gen isp fuel tp l f k p n m t = (r, tp') -> t <> 0 -> (forall q, r = Ok q -> m < q).
Proof. exact pfield_parties_refused. Qed.
Print Assumptions C26_pfield_more_than_parties.

(** generated modulus (p = None): a Blum prime, above the number of parties when t <> 0.  Its size
    (>= l+f+k+2 bits) follows from C26_small_n (under the existence hypothesis) / C26_big_n_partial applied
    at bit length l+f+k+2; that composition is not restated here (partial). *)
Theorem C26_pfield_generated_partial : forall (isp : tape -> Z -> bool * tape),
  (forall tp z, fst (isp tp z) = true <-> prime z) ->
  forall fuel tp l f k n m t p tp', pfield_gen isp fuel tp l f k None n m t = (Ok p, tp') ->
    prime p /\ p mod 4 = 3 /\ (t = 0 \/ m < p).
Proof. exact pfield_generated_partial. Qed.
Print Assumptions C26_pfield_generated_partial.

(** ---- non-vacuity: concrete runs of the model with the Miller-Rabin oracle on the all-zero tape (base 2) ---- *)
Example C26_nonvacuous_small_n :
  fst (find_prime_root 100 (of_list []) 16 true 2) = Ok (65519, 2, 65518) /\
  fst (find_prime_root 100 (of_list []) 16 false 1) = Ok (65521, 1, 1) /\
  bit_length 65519 = 16 /\ 65519 mod 4 = 3.
Proof. vm_compute. repeat split; reflexivity. Qed.
Example C26_nonvacuous_big_n :
  fst (find_prime_root 100 (of_list []) 12 true 4) = Ok (2111, 5, 1403) /\
  1403 ^ 5 mod 2111 = 1 /\ 2111 mod 4 = 3 /\ bit_length 2111 = 12 /\
  fst (find_prime_root 100 (of_list []) 12 false 5) = EAssert.
Proof. vm_compute. repeat split; reflexivity. Qed.
Example C26_nonvacuous_pfield :
  fst (pfield 100 (of_list []) 8 0 8 (Some 524287) 2 3 1) = Ok 524287 /\
  fst (pfield 100 (of_list []) 8 0 8 (Some 65521) 2 3 1) = EValue /\
  fst (pfield 100 (of_list []) 0 0 0 (Some 3) 2 5 1) = EAssert /\
  fst (pfield 100 (of_list []) 4 2 3 None 2 3 1) = Ok 2039.
Proof. vm_compute. repeat split; reflexivity. Qed.
