(** C05 — secure floats. (statements only; proofs in theories/Flt.v) *)
From Coq Require Import ZArith List.
Require Import MPyC.Flt.
Import ListNotations.
Local Open Scope Z_scope.

Theorem C05_tmp : flt_add_all 10 (839, -13) (0,0) = [(0, -10); (0, -10); (512, -9); (512, -9)].
Proof. vm_compute. reflexivity. Qed.
Print Assumptions C05_tmp.
