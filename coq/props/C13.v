(** C13 — any t Shamir shares reveal nothing about the secret.  Only statements. *)
Require Import MPyC.Field MPyC.Poly MPyC.Lagrange MPyC.Shamir MPyC.Secrecy MPyC.Zp.
From Coq Require Import Znumtheory.
Local Open Scope nat_scope.

(** For every field, every secret s and every t distinct nonzero evaluation points xs (the
    coalition's x-coordinates), the map  coefficients (t of them) |-> the coalition's t shares
    is a BIJECTION of K^t: every tuple of t shares arises from exactly one coefficient vector.
    Hence with uniform coefficients the coalition's view is uniform on K^t, for every secret. *)
Theorem C13_t_shares_bijective_with_coefficients :
  forall (K : FieldT) (s : K) (xs ys : list K),
    NoDup (f0 K :: xs) -> length ys = length xs ->
    exists c, (length c = length xs /\ map (share_pt c s) xs = ys) /\
              forall c', length c' = length xs -> map (share_pt c' s) xs = ys -> c' = c.
Proof. exact shares_bijective. Qed.
Print Assumptions C13_t_shares_bijective_with_coefficients.

(** The explicit preimage (computable): interpolate through (0,s) and the targets. *)
Theorem C13_explicit_preimage :
  forall (K : FieldT) (s : K) (xs ys : list K),
    NoDup (f0 K :: xs) -> length ys = length xs ->
    length (psi s xs ys) = length xs /\ map (share_pt (psi s xs ys) s) xs = ys.
Proof. exact psi_right_inverse. Qed.
Print Assumptions C13_explicit_preimage.

(** Coalitions smaller than t: extend by further points xs' to size t; for every view ys of the
    coalition every completion zs has exactly one coefficient vector, so each view has the same
    number of preimages (one per completion), whatever the secret. *)
Theorem C13_fewer_than_t_shares :
  forall (K : FieldT) (s : K) (xs xs' ys zs : list K),
    NoDup (f0 K :: xs ++ xs') -> length ys = length xs -> length zs = length xs' ->
    exists c, (length c = length (xs ++ xs') /\ map (share_pt c s) xs = ys /\ map (share_pt c s) xs' = zs) /\
              forall c', length c' = length (xs ++ xs') ->
                         map (share_pt c' s) xs = ys -> map (share_pt c' s) xs' = zs -> c' = c.
Proof. exact fewer_shares_fibre. Qed.
Print Assumptions C13_fewer_than_t_shares.

(** share_pt at the field image of x-coordinate i+1 is exactly the share random_split gives party i *)
Theorem C13_share_pt_is_random_split_share :
  forall (K : FieldT) (inj : nat -> K) (c : list K) (s : K) (i1 : nat),
    share_at inj c s i1 = share_pt c s (inj i1).
Proof. exact share_at_share_pt. Qed.
Print Assumptions C13_share_pt_is_random_split_share.

(** Non-vacuity over GF(7): t = 2, coalition x = 1,3; two different secrets reach the same view. *)
Example C13_nonvacuous :
  let p := 7%Z in
  let xs := [mkZp p 1; mkZp p 3] in
  let ys := [mkZp p 5; mkZp p 2] in
  map zval (map (@share_pt (ZpOps p) (@psi (ZpOps p) (mkZp p 0) xs ys) (mkZp p 0)) xs) = [5; 2]%Z /\
  map zval (map (@share_pt (ZpOps p) (@psi (ZpOps p) (mkZp p 6) xs ys) (mkZp p 6)) xs) = [5; 2]%Z.
Proof. vm_compute. auto. Qed.
