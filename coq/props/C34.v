(** C34 — secure statistics vs Python's statistics module (statements only; proofs in theories/Stats.v). *)
Require Import MPyC.RandomFns MPyC.Stats.
From Coq Require Import ZArith List.
Import ListNotations.
Local Open Scope nat_scope.

(** _isqrt (hence stdev/pstdev on secure integers): the integer square root, for every l-bit a >= 0. *)
Theorem C34_isqrt_correct :
  forall l a : Z, (1 <= l)%Z -> (0 <= a < 2 ^ l)%Z ->
    let r := isqrt l a in (r * r <= a < (r + 1) * (r + 1))%Z.
Proof. exact isqrt_correct. Qed.
Print Assumptions C34_isqrt_correct.

(** mean on secure integers = exact mean rounded half up: floor((2s + n) / (2n)). *)
Theorem C34_mean_int_round_half_up :
  forall x : list Z, (0 < zlen x)%Z -> mean_int x = ((2 * zsum x + zlen x) / (2 * zlen x))%Z.
Proof. exact mean_int_round_half_up. Qed.
Print Assumptions C34_mean_int_round_half_up.

Theorem C34_mean_int_nearest :
  forall x : list Z, (0 < zlen x)%Z -> (2 * Z.abs (zsum x - zlen x * mean_int x) <= zlen x)%Z.
Proof. exact mean_int_nearest. Qed.
Print Assumptions C34_mean_int_nearest.

(** quantiles, both methods, every n > 0, every cut i, every (sorted) data list d: the value computed from the
    order statistics equals CPython's interpolation formula (numerator over n) rounded half up. *)
Theorem C34_quantile_arith_eq_python :
  forall (inclusive : bool) (d : list Z) (n i : Z), (0 < n)%Z ->
    q_cut_sorted inclusive d n i = ((2 * py_quantile_num inclusive d n i + n) / (2 * n))%Z.
Proof. exact quantile_arith_eq_python. Qed.
Print Assumptions C34_quantile_arith_eq_python.

Theorem C34_quantile_inclusive_index_range :
  forall ld n i : Z, (2 <= ld)%Z -> (0 < n)%Z -> (1 <= i < n)%Z ->
    let '(j, delta) := q_index true ld n i in
    (0 <= j /\ j < ld - 1 /\ 0 <= delta < n /\ i * (ld - 1) = j * n + delta)%Z.
Proof. exact quantile_inclusive_index_range. Qed.
Print Assumptions C34_quantile_inclusive_index_range.

Theorem C34_quantile_exclusive_index_range :
  forall ld n i : Z, (2 <= ld)%Z -> (0 < n)%Z ->
    let '(j, delta) := q_index false ld n i in (1 <= j <= ld - 1 /\ i * (ld + 1) = j * n + delta)%Z.
Proof. exact quantile_exclusive_index_range. Qed.
Print Assumptions C34_quantile_exclusive_index_range.

(** mode: the code (min + argmax of the histogram) does NOT return Python's first-encountered mode. *)
Theorem C34_mode_eq_python_refuted : exists x : list Z, mode 16 5 x <> py_mode x.
Proof. exact mode_eq_python_refuted. Qed.
Print Assumptions C34_mode_eq_python_refuted.

(** Non-vacuity / concrete values. *)
Example C34_nonvacuous :
  isqrt 16 99 = 9%Z /\ isqrt 16 65535 = 255%Z /\ mean_int [1; 2; 4]%Z = 2%Z /\ mean_int [1; 2]%Z = 2%Z /\
  q_cut_sorted true [1; 2; 5; 7; 9]%Z 4 1 = 2%Z /\ py_quantile_num true [1; 2; 5; 7; 9]%Z 4 1 = 8%Z /\
  q_cut_sorted false [1; 2; 5; 7; 9]%Z 4 1 = 2%Z /\ py_quantile_num false [1; 2; 5; 7; 9]%Z 4 1 = 6%Z /\
  q_index true 5 4 1 = (1, 0)%Z /\ q_index false 5 4 3 = (4, 2)%Z /\
  mode 16 5 [3; 3; 1; 1]%Z = 1%Z /\ py_mode [3; 3; 1; 1]%Z = 3%Z.
Proof. vm_compute. repeat split; reflexivity. Qed.
