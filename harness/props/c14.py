"""C14 — sharings dealt during protocols have full threshold degree.

Proof: coq/props/C14.v (no_cleartext, mask+secret, bijection of messages to t parties) and the
REGENERATED obligation coq/gen/DealSites.v: every call of thresha.random_split / np_random_split in
the protocol modules passes an expression that denotes the runtime threshold (ast translator
harness/gen_deal_sites.py, fail-closed), and the set of functions that call _send_message is the
expected one.  Tie: simulator runs with t >= 1 where every dealing is intercepted from outside:
degree argument == threshold, m == #parties, exactly t*len(s) coefficients drawn; dealing messages
on the wire change with the dealer tape and differ from the dealt plaintext.
"""
import os, random
from lib.core import COQ, COQFLAGS, sh, REPO, BuildLock

MANIFEST = {
    'text': 'Theorems in Coq (abstract field): with t >= 1 coefficients the message to any party can be any field value for '
            'every dealt secret (no cleartext), a message is a secret-independent mask plus the secret, and the messages to any t '
            'parties are in bijection with the t coefficients (uniform, independent of the secret). Regenerated from the source '
            'on every run: the table of all dealing sites with the obligation that each passes the runtime threshold as degree, '
            'and the list of functions sending messages. Simulator runs intercept every dealing (degree, #coefficients drawn) and '
            'check the wire.',
    'note': 'Trusted: Coq kernel; the ast translator gen_deal_sites.py (fail-closed: unrecognised degree expression => obligation '
            'fails); random_split model tied by C12/C11; uniformity/freshness of secrets.randbelow is an oracle assumption; '
            '"degree exactly t" holds when the first drawn coefficient is nonzero (probability 1 - 1/|F|), stated as the polynomial '
            'identity share = eval (s :: rev c).',
    'technique': 'Coq theorems + source-regenerated dealing-site table with vm_compute obligation + intercepted dealings in the multi-party simulator',
}

EXPECTED_SENDERS = {'transfer', '_distribute', 'output', '_reshare', '_send_message'}


def send_sites(repo):
    import ast
    out = []
    for mod in ['runtime', 'sectypes', 'secgroups', 'seclists', 'random', 'statistics', 'mpctools', 'secpols']:
        path = os.path.join(repo, 'mpyc', mod + '.py')
        tree = ast.parse(open(path).read())
        for fn in ast.walk(tree):
            if isinstance(fn, (ast.FunctionDef, ast.AsyncFunctionDef)):
                for node in ast.walk(fn):
                    if isinstance(node, ast.Call) and isinstance(node.func, ast.Attribute) and node.func.attr in ('_send_message', 'send'):
                        if node.func.attr == 'send' and not (isinstance(node.func.value, ast.Attribute) and node.func.value.attr == 'protocol'):
                            continue
                        out.append((mod, fn.name, node.lineno))
    return sorted(set(out))


def to_int(a):
    """Unsigned integer code of a dealt value: field element, plain int, or raw gfpx polynomial."""
    if isinstance(a, int):
        return a
    if hasattr(a, 'field') or type(a).__name__.endswith('FieldElement') or hasattr(type(a), 'modulus'):
        v = a.value
        return v if isinstance(v, int) else int(v)
    return int(a)


def run(ctx):
    import gen_deal_sites
    from lib.sim import Sim, Fifo
    ok = ctx.build() and ctx.check_props()
    rng = ctx.rng
    ctx.rule = ('case = (m, t>=1, prss, program, seed) run twice with different tapes; every dealing intercepted; '
                'non-trivial: all (t >= 1)')
    ctx.explanation = 'theorems + regenerated dealing-site obligation + intercepted dealings and wire comparison in the simulator'
    # ---- regenerated table
    sites = gen_deal_sites.analyse(REPO)
    gen = os.path.join(COQ, 'gen', 'DealSites.v')
    os.makedirs(os.path.dirname(gen), exist_ok=True)
    gen_deal_sites.emit(sites, gen)
    ctx.obligations += 2
    with BuildLock():
        rc, out = sh(['coqc', *COQFLAGS, 'gen/DealSites.v'], cwd=COQ, timeout=300)
    ctx.extra['deal_sites'] = [list(s) for s in sites]
    if rc == 0:
        ctx.discharged += 2
        ctx.theorems.append(('all_deal_sites_use_threshold', 'regenerated table: %d sites' % len(sites)))
    else:
        bad = [s for s in sites if not s[4]]
        ctx.log('DealSites obligation FAILED: %s' % bad)
        ctx.broken.append({'kind': 'generated-obligation', 'what': 'all_deal_sites_use_threshold', 'sites': [list(s) for s in bad] or out[-500:]})
    senders = send_sites(REPO)
    ctx.extra['send_sites'] = [list(s) for s in senders]
    unexpected = [s for s in senders if s[1] not in EXPECTED_SENDERS]
    if unexpected:
        ctx.broken.append({'kind': 'generated-obligation', 'what': 'message-sending functions', 'unexpected': [list(s) for s in unexpected]})
    # ---- simulator
    configs = [(3, 1), (4, 1), (5, 2)] + ([(5, 1), (7, 3), (6, 2)] if ctx.tier == 'thorough' else [])
    ndeal = 0
    for (m, t) in configs:
        for no_prss in (False, True):
            for rep in range(ctx.n(1, 3)):
                inputs = [rng.choice([0, 1, -3, 7, 100]) for _ in range(m)]
                runs = []
                for seed in (rng.randrange(10**6), rng.randrange(10**6)):
                    sim = Sim(m, t, no_prss=no_prss, seed=seed)
                    deals = []
                    try:
                        for i in range(m):
                            th = sim.mods[i]['mpyc.thresha']
                            for fname in ('random_split', 'np_random_split'):
                                orig = getattr(th, fname)

                                def wrapped(field, s, tt, mm, _o=orig, _i=i, _f=fname):
                                    sec = sim.secrets[_i]
                                    n0 = len(sec.log)
                                    pc = sim.mpcs[_i]._program_counter[0]
                                    vals = [to_int(a) for a in s]
                                    r = _o(field, s, tt, mm)
                                    deals.append({'party': _i, 'pc': pc, 'vals': vals, 't': tt, 'm': mm,
                                                  'drawn': len(sec.log) - n0, 'n': len(s), 'field': field,
                                                  'threshold': sim.mpcs[_i].threshold, 'nparties': len(sim.mpcs[_i].parties)})
                                    return r
                                setattr(th, fname, wrapped)
                        sim.start()

                        async def prog(mpc, mods, pid):
                            secint = mpc.SecInt(32)
                            secfxp = mpc.SecFxp(32, 16)
                            a = mpc.input(secint(inputs[pid]))
                            b = a[0] * a[1] + a[2] * a[2]
                            r = mpc._random(secint)
                            rb = mpc.random_bits(secint, 3)
                            c = mpc.convert(a[1], secfxp)
                            lt = a[0] < a[1]
                            x = mpc.input(secfxp(inputs[pid] / 4 + 0.3), senders=[0, m - 1])   # never a whole number (see F-C03)
                            y = x[0] * x[1]
                            f3 = mpc.SecFld(3)        # lifted to an extension field when m >= 3 (dealing points must be nonzero)
                            z = mpc.input(f3(inputs[pid] % 3))
                            zz = z[0] * z[1] + z[m - 1]
                            await mpc.output(zz)
                            outs = await mpc.output([b, lt] + rb)
                            o2 = await mpc.output([c, y])
                            await mpc.output(r)
                            return [int(v) for v in outs] + [float(v) for v in o2]
                        res = sim.run(prog, Fifo(), idle_limit=400)
                        frames = {}
                        for s_ in range(m):
                            for d_ in range(m):
                                if s_ != d_:
                                    fr, _rest = sim.frames(s_, d_)
                                    for pc, payload in fr:
                                        frames.setdefault((s_, d_, pc), []).append(payload)
                        runs.append((seed, res, deals, frames))
                    finally:
                        sim.close()
                key = {'m': m, 't': t, 'no_prss': no_prss, 'inputs': inputs, 'seeds': [r[0] for r in runs]}
                ctx.case(key, kind='m=%d t=%d prss=%s' % (m, t, not no_prss))
                for seed, res, deals, frames in runs:
                    if any(not isinstance(r, list) for r in res) or len({str(r) for r in res}) != 1:
                        ctx.violation('program-failed-or-parties-disagree m=%d t=%d' % (m, t), {**key, 'result': str(res)[:400]})
                    for d in deals:
                        ndeal += 1
                        if d['m'] >= d['field'].order:
                            ctx.violation('dealing-field-not-larger-than-parties m=%d t=%d' % (m, t),
                                          {**key, 'party': d['party'], 'pc': d['pc'], 'field_order': d['field'].order, 'parties': d['m']})
                        if d['t'] != d['threshold'] or d['m'] != d['nparties'] or d['drawn'] != d['t'] * d['n']:
                            ctx.violation('dealing-degree-not-threshold m=%d t=%d' % (m, t),
                                          {**key, 'party': d['party'], 'pc': d['pc'], 'degree_arg': d['t'], 'threshold': d['threshold'],
                                           'coefficients_drawn': d['drawn'], 'secrets': d['n']})
                        # plaintext on the wire?
                        plain = bytes(d['field'].to_bytes(d['vals']))
                        for q in range(m):
                            if q != d['party']:
                                for payload in frames.get((d['party'], q, d['pc']), []):
                                    if bytes(payload) == plain and d['field'].order > 2**30:
                                        ctx.violation('dealt-value-sent-in-clear m=%d t=%d' % (m, t),
                                                      {**key, 'dealer': d['party'], 'to': q, 'pc': d['pc'], 'values': d['vals']})
                # same inputs, different tapes: every dealing message must change
                (s1, r1, d1, f1), (s2, r2, d2, f2) = runs
                pcs1 = {(d['party'], d['pc']) for d in d1}
                for (src, dst, pc), payloads in f1.items():
                    if (src, pc) in pcs1 and (src, dst, pc) in f2:
                        if payloads == f2[(src, dst, pc)] and len(payloads[0]) >= 6:
                            ctx.violation('dealing-message-independent-of-tape m=%d t=%d' % (m, t),
                                          {**key, 'src': src, 'dst': dst, 'pc': pc, 'payload': payloads[0].hex()})
    # ---- threshold changed programmatically after start-up (degree must follow the threshold in force)
    for (m, t0, t1) in [(3, 0, 1), (5, 1, 2), (5, 2, 1)]:
        sim = Sim(m, t0, no_prss=True, seed=rng.randrange(10**6))
        deals = []
        try:
            for i in range(m):
                th = sim.mods[i]['mpyc.thresha']
                orig = th.random_split

                def wrapped2(field, s, tt, mm, _o=orig, _i=i):
                    deals.append({'party': _i, 't': tt, 'threshold': sim.mpcs[_i].threshold, 'n': len(s)})
                    return _o(field, s, tt, mm)
                th.random_split = wrapped2
            sim.start()

            async def prog2(mpc, mods, pid):
                mpc.threshold = t1
                secint = mpc.SecInt(16)
                a = mpc.input(secint(pid + 2))
                b = a[0] * a[1]
                return int(await mpc.output(b))
            res = sim.run(prog2, Fifo(), idle_limit=400)
            key = {'m': m, 'threshold_at_start': t0, 'threshold_set_by_program': t1}
            ctx.case(key, kind='threshold changed at run time')
            if res != [6] * m:
                ctx.violation('threshold-change-run-wrong m=%d' % m, {**key, 'result': str(res)})
            for d in deals:
                ndeal += 1
                if d['t'] != d['threshold']:
                    ctx.violation('dealing-degree-not-threshold-in-force m=%d t=%d' % (m, t1), {**key, **d})
        finally:
            sim.close()
    ctx.extra['dealings_intercepted'] = ndeal
    ctx.log('%d dealings intercepted; %d dealing sites, %d send sites in source' % (ndeal, len(sites), len(senders)))
    if ndeal == 0:
        ctx.broken.append({'kind': 'harness', 'what': 'no dealing intercepted'})
    if ctx.broken and not ctx.violations:
        ctx.unproved('C14 dealing-site obligation / interception', {'broken': ctx.broken[:5]})
