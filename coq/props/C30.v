(** C30 — bit-level oblivious building blocks. Only statements; proofs are in theories/. *)
From Coq Require Import ZArith List.
Require Import MPyC.Base MPyC.Bits MPyC.FindUnit.
Import ListNotations.
Local Open Scope Z_scope.

Theorem C30_add_bits_correct :
  forall x y : list Z, length y = length x -> allbits x -> allbits y ->
    value (add_bits x y) = (value x + value y) mod 2 ^ Z.of_nat (length x)
    /\ allbits (add_bits x y) /\ length (add_bits x y) = length x.
Proof. exact add_bits_correct. Qed.
Print Assumptions C30_add_bits_correct.
