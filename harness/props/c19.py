"""C19 — parties outside the receivers get no message from an output / a transfer.

Proof: coq/props/C19.v over coq/theories/Routing.v (out_sends only addresses members of the
receiver list, transfer_sends only designated arcs; all m, thresholds, lists, graphs).
Tie: m-party simulator; for every receiver subset / graph the bytes each party writes on each link
during the operation are measured on the fake wire (independently of the send hook) and compared
(a) with the property: nothing reaches a party outside the receivers, and (b) with the Coq
functions out_sends / transfer_sends evaluated by vm_compute: a link carries bytes iff the model
says so.  Secure floats: see `check_floats` for what is (modestly) covered.
"""
import itertools
from props.c07 import (run_ops, subsets, arglist, is_risky, first_stuck, sends_of, recvs_of, transfer_oracle,
                       coq_natlist, NUMERIC, gen_transfer_ops, gen_graph_ops, gen_output_ops, describe, alias_sig, MUTATIONS)

MANIFEST = {
    'text': 'Coq theorems (Routing.v), all m / thresholds / receiver lists / graphs: output sends a share only to members '
            'of the receiver list (no side condition), so a party outside R is sent nothing and waits for nothing; transfer '
            '(bipartite, dict, pair-list forms) writes a frame i->j only for a designated arc (i,j). Tied every run in the '
            'm-party simulator: for every receiver subset (m<=4 quick, m<=5 thorough), thresholds t..2t, secint / secfxp / '
            'prime and binary secfld / secure S3 and quadratic-residue group elements, and for transfer graphs, the bytes '
            'written on every link during the operation are exactly those the Coq functions predict, and no byte and no frame '
            'reaches a non-receiver.',
    'note': 'Trusted: Coq kernel + vm_compute; routing model tied by exact comparison of per-link byte presence and send/'
            'receive logs; simulator wire (all bytes between parties pass through it). Secure-group _output is not modelled '
            'separately (observed: same link pattern as output on the component list, same R). Secure floats output to a '
            'subset: NOT proved here (needs C13/C14 uniformity of dealings); checked on the implementation only: every frame '
            'reaching a non-receiver is one dealing of input()/_reshare() by its sender backed by t fresh random field '
            'elements per value, its payload changes with the random tape for a fixed float, and the link/size pattern does '
            'not depend on the float value; t=0 configurations have no privacy and are skipped for floats. '
            'Aliasing stream (m=1 -M1, m=3): the caller changes its receivers list (reverse/overwrite/del/append/clear) '
            'or x between the call of output and the await; parties outside the CALL-TIME receivers must get no byte '
            '(late read of receivers: F-C19-1 = F-C07-5, fixed in 8b4dfdd).',
    'technique': 'Coq proof (membership in filter) + multi-party simulator wire measurement compared with vm_compute model',
}

GROUPS = ('symgrp', 'qr')


def op_pcs(recs):
    return {pc for r in recs for (_, _, pc) in r['log']}


def frames_into(run, q, pcs):
    out = []
    for (i, j), fr in run['frames'].items():
        if j == q:
            out += [(i, pc, bytes(pl)) for pc, pl in fr if pc in pcs]
    return out


def check_ops(ctx, m, t, no_prss, ops, run, exprs, meta):
    cfg = {'m': m, 't': t, 'no_prss': no_prss}
    nops = len(ops)
    stuck = first_stuck(run, nops)
    upto = nops if stuck is None else stuck[0]
    if not run.get('wire_ok', True):
        ctx.violation('wire frames differ from send log m=%d' % m, {'config': cfg})
    for k in range(upto):
        op = ops[k]
        recs = [run['recs'][pid][k] for pid in range(m)]
        if any('exc' in r for r in recs):
            ctx.violation('%s raised m=%d' % (op['op'], m), {'config': cfg, 'op': describe(op),
                                                           'raised': [r.get('exc') for r in recs]})
            continue
        pcs = op_pcs(recs)
        if op['op'] == 'output':
            R = arglist(op.get('receivers'), m)
            allowed = lambda p, q: q in R            # noqa: E731
            outsiders = [q for q in range(m) if q not in R]
            kind = 'output/' + op['stype']
        else:
            _, arcs = transfer_oracle(op, m)
            allowed = lambda p, q: (p, q) in arcs    # noqa: E731
            outsiders = [q for q in range(m) if not any((p, q) in arcs for p in range(m))]
            kind = 'transfer/' + op['form']
        if op['op'] == 'output' and op['stype'] == 'secflt':
            ctx.case({'cfg': cfg, 'op': op}, nontrivial=bool(outsiders) and bool(R) and t >= 1, kind=kind)
            continue                                  # floats: check_floats
        bad = []
        for p in range(m):
            for q in range(m):
                if p != q and recs[p]['bytes'][q] and not allowed(p, q):
                    bad.append({'from': p, 'to': q, 'bytes': recs[p]['bytes'][q]})
        for q in outsiders:
            if recvs_of(recs[q]):
                bad.append({'party': q, 'waits_for': recvs_of(recs[q])})
            fr = frames_into(run, q, pcs)
            if fr:
                bad.append({'party': q, 'frames': [(i, len(pl)) for i, pc, pl in fr]})
            res = recs[q]['res']
            if not (res is None or res == [] or (isinstance(res, list) and all(a is None for a in res))):
                bad.append({'party': q, 'obtained': repr(res)[:100]})
        if bad:
            ctx.violation(alias_sig(op, m, '%s non-receiver gets message m=%d' % (kind, m)),
                          {'config': cfg, 'op': describe(op), 'k': k, 'bad': bad[:8]})
        links = sorted((p, q) for p in range(m) for q in range(m) if p != q and recs[p]['bytes'][q])
        if op['op'] == 'output':
            th = t if op.get('threshold') is None else op['threshold']
            exprs.append('map (out_sends %d %d %s) (seq 0 %d)' % (m, th, coq_natlist(R), m))
        else:
            from props.c07 import transfer_coq
            exprs.append(transfer_coq(op, m))
        meta.append((op['op'], cfg, op, k, links))
        if 'alias' in op:
            kind = 'aliasing/' + kind
        ctx.case({'cfg': cfg, 'op': op}, nontrivial=m >= 2 and bool(outsiders) and bool(links), kind=kind)
    if stuck is not None:
        k, who = stuck
        ctx.violation(alias_sig(ops[k], m, '%s incomplete m=%d' % (ops[k]['op'], m)),
                      {'config': cfg, 'op': describe(ops[k]), 'stuck_parties': who, 'exceptions': run['excs'][:6]})
    return upto


def gen_alias_output_ops(m):
    """f = mpc.output(x, receivers=rcv); <caller changes rcv / x in place>; await f.  The receivers are those
    given at call time: a party outside them must get no byte, whatever the caller does with its list later."""
    ops = []
    a, b = 0, 1 % m
    for mut in MUTATIONS:
        for st in ('secint', 'secfld', 'symgrp'):
            base = {'op': 'output', 'stype': st, 'threshold': None, 'n': 2, 'src': 'input', 'dealer': m - 1}
            for R in ([a], [b, a] if m > 2 else [b], []):
                ops.append(dict(base, receivers=['list', list(R)], alias={'arg': 'receivers', 'mutation': mut}))
            ops.append(dict(base, receivers=['list', [b]], alias={'arg': 'x', 'mutation': mut}))
    return ops


def check_floats(ctx, m, t, ops, runA, runB):
    """Secure floats output to a subset (same ops, two different random tapes)."""
    cfg = {'m': m, 't': t}
    if t < 1:
        return 0
    n_checked = 0
    patterns = {}
    upto = min(len(ops), *(first_stuck(r, len(ops))[0] if first_stuck(r, len(ops)) else len(ops) for r in (runA, runB)))
    for k in range(upto):
        op = ops[k]
        if not (op['op'] == 'output' and op['stype'] == 'secflt'):
            continue
        R = arglist(op.get('receivers'), m)
        outsiders = [q for q in range(m) if q not in R]
        if not outsiders or not R:
            continue
        cnt = op['n'] if op.get('n') is not None else 1
        recsA = [runA['recs'][pid][k] for pid in range(m)]
        recsB = [runB['recs'][pid][k] for pid in range(m)]
        bad = []
        # (a) every frame to a non-receiver is one fresh dealing of its sender (t draws per value)
        for recs in (recsA, recsB):
            for p in range(m):
                to_out = {q: sum(1 for kd, peer, pc in recs[p]['log'] if kd == 'send' and peer == q) for q in outsiders if q != p}
                dealings = recs[p]['draws'] / (t * cnt)
                for q, nfr in to_out.items():
                    if nfr != dealings:
                        bad.append({'sender': p, 'to': q, 'frames': nfr, 'dealings_by_draws': dealings})
        # (b) fresh randomness: same float, different tapes -> different payloads at the non-receiver
        pcsA, pcsB = op_pcs(recsA), op_pcs(recsB)
        for q in outsiders:
            fa = sorted((i, pl) for i, pc, pl in frames_into(runA, q, pcsA))
            fb = sorted((i, pl) for i, pc, pl in frames_into(runB, q, pcsB))
            if not fa:
                bad.append({'party': q, 'note': 'expected dealings to reach the non-receiver, none seen'})
            if [(i, len(pl)) for i, pl in fa] != [(i, len(pl)) for i, pl in fb]:
                bad.append({'party': q, 'pattern differs between tapes': [[(i, len(pl)) for i, pl in fa],
                                                                          [(i, len(pl)) for i, pl in fb]]})
            same = sum(1 for a, b in zip(fa, fb) if a == b)
            if fa and same == len(fa):
                bad.append({'party': q, 'note': 'payloads identical under a different random tape'})
            # (c) link/size pattern independent of the value: same (R, threshold, n) -> same pattern
            key = (tuple(sorted(R)), op.get('threshold'), cnt, q)
            pat = [(i, len(pl)) for i, pl in fa]
            if key in patterns and patterns[key][0] != pat:
                bad.append({'party': q, 'pattern depends on value': [patterns[key], (pat, k)]})
            patterns.setdefault(key, (pat, k))
        # receivers agree on the value, non-receivers obtain None
        vals = {repr(recsA[j]['res']) for j in R}
        if len(vals) != 1 or any(recsA[j]['res'] != recsA[j]['want'] for j in R) or \
                any(any(a is not None for a in recsA[q]['res']) for q in outsiders):
            bad.append({'results': [repr(r['res']) for r in recsA]})
        if bad:
            ctx.violation('output/secflt non-receiver view m=%d' % m, {'config': cfg, 'op': describe(op), 'k': k, 'bad': bad[:8]})
        n_checked += 1
    return n_checked


def run(ctx):
    ok = ctx.build(['MPyC.Routing']) and ctx.check_props()
    ctx.rule = ('case = one output (receiver subset x type x threshold) or transfer (subset pair / graph) call in an m-party '
                'simulator run; all receiver subsets for each configuration; non-trivial = m>=2, some party is outside the '
                'receivers and at least one link carries bytes; distinct by full argument spec')
    ctx.explanation = ('per operation, bytes written on every directed link are measured on the simulated wire; nothing may '
                       'reach a non-receiver, and the set of links carrying bytes must equal the Coq model\'s out_sends / '
                       'transfer_sends (vm_compute)')
    rng = ctx.rng
    configs = [(2, 0, False), (3, 1, False), (3, 1, True), (4, 1, False)]
    if ctx.tier == 'thorough':
        configs += [(5, 2, False), (5, 1, False), (5, 2, True)]
    exprs, meta = [], []
    nfloat = 0
    for (m, t, no_prss) in configs:
        ops = []
        light = no_prss and m == 3
        types = ['secint', 'secfld'] if light else list(NUMERIC) + ['secfld2', 'symgrp', 'qr']
        ops += gen_output_ops(m, t, rng, True, 0, types)
        ops += gen_transfer_ops(m, rng, m <= 3 and not light, ctx.n(40, 120))
        ops += gen_graph_ops(m, rng, False, ctx.n(32, 120))
        fl = [] if light else [o for o in gen_output_ops(m, t, rng, True, 0, ['secflt']) if o.get('threshold') in (None, t)]
        rng.shuffle(ops)
        ops = [o for o in ops + fl if not is_risky(o, m)]
        ctx.log('config m=%d t=%d prss=%s: %d ops (%d float outputs)' % (m, t, not no_prss, len(ops), len(fl)))
        runA = run_ops(m, t, ops, ctx.seed * 131 + m * 7 + t, no_prss=no_prss)
        check_ops(ctx, m, t, no_prss, ops, runA, exprs, meta)
        if fl and t >= 1:
            fops = [o for o in ops if o['op'] == 'output' and o['stype'] == 'secflt']
            runA2 = run_ops(m, t, fops, ctx.seed * 131 + m * 7 + t + 1000, no_prss=no_prss)
            runB = run_ops(m, t, fops, ctx.seed * 977 + m * 13 + t + 5000, no_prss=no_prss)
            nfloat += check_floats(ctx, m, t, fops, runA2, runB)
    # aliasing stream: the caller mutates its receivers list (or x) between the call and the await (-M1 and m=3)
    nalias = 0
    for (m, t) in ((1, 0), (3, 1)):
        aops = gen_alias_output_ops(m)
        ctx.log('aliasing stream m=%d: %d call/mutate/await outputs' % (m, len(aops)))
        runA = run_ops(m, t, aops, ctx.seed * 257 + m, idle_limit=200)
        check_ops(ctx, m, t, False, aops, runA, exprs, meta)
        nalias += len(aops)
    ctx.extra['aliasing_ops'] = nalias
    ctx.extra['float_outputs_checked'] = nfloat
    ctx.log('%d simulator cases (%d float outputs with non-receivers); evaluating %d model expressions' % (
        ctx.evaluations, nfloat, len(exprs)))
    if ok:
        res = ctx.coq_eval(['MPyC.Routing'], exprs, chunk=250)
        mism = 0
        for r, (kind, cfg, op, k, links) in zip(res, meta):
            if isinstance(r, tuple) and r and r[0] == 'ERROR':
                mism += 1
                ctx.broken.append({'kind': 'correspondence', 'what': 'coq evaluation failed', 'op': op, 'detail': r[1]})
                continue
            if kind == 'output':
                model = sorted((p, q) for p, row in enumerate(r) for q in row)
            else:
                model = sorted((p, q) for p, row in enumerate(r) for q in row[0])
            if sorted(set(model)) != links and 'alias' in op:
                mism += 1
                ctx.violation(alias_sig(op, cfg['m'], 'links carrying bytes differ from the call-time receivers'),
                              {'config': cfg, 'op': describe(op), 'model_links': model, 'impl_links': links})
            elif sorted(set(model)) != links:
                mism += 1
                ctx.broken.append({'kind': 'correspondence', 'what': kind + ' links', 'config': cfg, 'op': op,
                                   'model': model, 'impl': links})
        ctx.extra['traces_validated_against_impl'] = len(exprs) - mism
        ctx.log('model/implementation disagreements: %d of %d' % (mism, len(exprs)))
    if ctx.broken and not ctx.violations:
        ctx.unproved('C19 model/proof', {'broken': ctx.broken[:5]})
