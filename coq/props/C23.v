(** C23 — placeholder while the theorems are being proved (statements only live here). *)
Require Import MPyC.Gfpx MPyC.Gf2x.
