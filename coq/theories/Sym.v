(** C27 — symmetric groups (mpyc/fingroups.py:208-262).

    A permutation of {0..n-1} is the tuple [p.value]; modelled as [list nat].

        operation(p, q) = tuple(q.value[j] for j in p.value)          ("first p then q")
        inversion(p):  q = [None]*n;  for i in range(n): q[p.value[i]] = i
        equality(p, q) = (p.value == q.value);   identity = tuple(range(n))

    The placeholder None is modelled as 0; for a valid permutation every slot is overwritten
    ([inversion_spec]).  Validity is the constructor's check:
    len(value) == n and set(value) == set(range(n)). *)
From Coq Require Import List Arith Lia PeanoNat Bool.
Import ListNotations.

Definition operation (p q : list nat) : list nat := map (fun j => nth j q 0) p.

Fixpoint upd (l : list nat) (k v : nat) : list nat :=
  match l, k with
  | [], _ => []
  | _ :: r, O => v :: r
  | x :: r, S k' => x :: upd r k' v
  end.

Definition inversion (p : list nat) : list nat :=
  let n := length p in
  fold_left (fun q i => upd q (nth i p 0) i) (seq 0 n) (repeat 0 n).

Definition ident (n : nat) : list nat := seq 0 n.

Definition equality (p q : list nat) : bool := if list_eq_dec Nat.eq_dec p q then true else false.

(** the check in __init__ *)
Definition valid (n : nat) (p : list nat) : Prop :=
  length p = n /\ NoDup p /\ (forall x, In x p -> x < n).

(** executable version of the check, used by the toy enumeration and the harness *)
Definition validb (n : nat) (p : list nat) : bool :=
  (length p =? n) && forallb (fun k => existsb (Nat.eqb k) p) (seq 0 n).

(** ---- basic facts ---- *)
Lemma upd_length l k v : length (upd l k v) = length l.
Proof. revert k; induction l as [|x l IH]; intros [|k]; simpl; auto. Qed.

Lemma nth_upd_same l k v d : k < length l -> nth k (upd l k v) d = v.
Proof. revert k; induction l as [|x l IH]; intros [|k]; simpl; intros; try lia; auto. apply IH; lia. Qed.

Lemma nth_upd_other l k j v d : j <> k -> nth j (upd l k v) d = nth j l d.
Proof.
  revert k j; induction l as [|x l IH]; intros [|k] [|j]; simpl; intros; try lia; auto.
Qed.

Lemma map_nth_seq (p : list nat) : map (fun i => nth i p 0) (seq 0 (length p)) = p.
Proof.
  induction p as [|x p IH]; simpl; auto. f_equal.
  rewrite <- seq_shift, map_map. simpl. exact IH.
Qed.

Lemma valid_ident n : valid n (ident n).
Proof.
  unfold valid, ident. split; [apply seq_length|]. split; [apply seq_NoDup|].
  intros x Hx. apply in_seq in Hx. lia.
Qed.

Lemma valid_surj n p : valid n p -> forall k, k < n -> exists i, i < n /\ nth i p 0 = k.
Proof.
  intros [Hl [Hnd Hr]] k Hk.
  assert (Hin : In k p).
  { apply (NoDup_length_incl Hnd (l' := seq 0 n)).
    - rewrite seq_length; lia.
    - intros x Hx. apply in_seq. specialize (Hr x Hx). lia.
    - apply in_seq; lia. }
  destruct (In_nth p k 0 Hin) as [i [Hi E]]. exists i. split; [lia|exact E].
Qed.

Lemma valid_nth_lt n p i : valid n p -> i < n -> nth i p 0 < n.
Proof. intros [Hl [_ Hr]] Hi. apply Hr. apply nth_In. lia. Qed.

Lemma valid_inj n p i j : valid n p -> i < n -> j < n -> nth i p 0 = nth j p 0 -> i = j.
Proof. intros [Hl [Hnd _]] Hi Hj E. apply (proj1 (NoDup_nth p 0) Hnd); try lia; exact E. Qed.

(** ---- operation ---- *)
Lemma operation_length p q : length (operation p q) = length p.
Proof. apply map_length. Qed.

Lemma nth_operation p q i : i < length p -> nth i (operation p q) 0 = nth (nth i p 0) q 0.
Proof.
  intros Hi. unfold operation.
  rewrite (nth_indep _ 0 ((fun j => nth j q 0) 0)) by (rewrite map_length; exact Hi).
  apply (map_nth (fun j => nth j q 0)).
Qed.

Lemma list_ext (l1 l2 : list nat) :
  length l1 = length l2 -> (forall i, i < length l1 -> nth i l1 0 = nth i l2 0) -> l1 = l2.
Proof.
  revert l2; induction l1 as [|x l1 IH]; intros [|y l2]; simpl; intros Hl H; try discriminate; auto.
  f_equal; [apply (H 0); lia|]. apply IH; [lia|]. intros i Hi. apply (H (S i)). lia.
Qed.

Theorem operation_valid n p q : valid n p -> valid n q -> valid n (operation p q).
Proof.
  intros Hp Hq. pose proof Hp as [Hlp [Hndp Hrp]]. pose proof Hq as [Hlq [Hndq Hrq]].
  split; [rewrite operation_length; exact Hlp|]. split.
  - apply (proj2 (NoDup_nth (operation p q) 0)). rewrite operation_length. intros i j Hi Hj E.
    rewrite !nth_operation in E by assumption.
    apply (valid_inj n p); try lia; auto.
    apply (valid_inj n q); auto; apply (valid_nth_lt n p); auto; lia.
  - intros x Hx. unfold operation in Hx. apply in_map_iff in Hx. destruct Hx as [j [<- Hj]].
    apply Hrq. apply nth_In. rewrite Hlq. apply Hrp, Hj.
Qed.

Theorem operation_assoc n p q r : valid n p -> valid n q ->
  operation (operation p q) r = operation p (operation q r).
Proof.
  intros Hp Hq. pose proof Hp as [Hlp [_ Hrp]]. pose proof Hq as [Hlq _].
  unfold operation at 1 2. rewrite map_map. unfold operation at 1. apply map_ext_in.
  intros j Hj. symmetry. apply nth_operation. rewrite Hlq. apply Hrp, Hj.
Qed.

Theorem operation_ident_l n q : length q = n -> operation (ident n) q = q.
Proof. intros <-. apply map_nth_seq. Qed.

Theorem operation_ident_r n p : (forall x, In x p -> x < n) -> operation p (ident n) = p.
Proof.
  intros Hr. unfold operation, ident. rewrite <- (map_id p) at 2. apply map_ext_in.
  intros j Hj. rewrite seq_nth by (apply Hr, Hj). reflexivity.
Qed.

(** ---- inversion ---- *)
Lemma inversion_inv n p : valid n p -> forall k, k <= n ->
  let q := fold_left (fun q i => upd q (nth i p 0) i) (seq 0 k) (repeat 0 n) in
  length q = n /\ forall i, i < k -> nth (nth i p 0) q 0 = i.
Proof.
  intros Hp k. induction k as [|k IH]; intros Hk.
  - simpl. split; [apply repeat_length|]. intros; lia.
  - rewrite seq_S, fold_left_app. cbn [fold_left plus].
    destruct (IH ltac:(lia)) as [Hl Hq]. clear IH.
    set (q := fold_left (fun q i => upd q (nth i p 0) i) (seq 0 k) (repeat 0 n)) in *.
    cbv zeta. split; [rewrite upd_length; exact Hl|].
    intros i Hi. destruct (Nat.eq_dec i k) as [->|Hne].
    + apply nth_upd_same. rewrite Hl. apply (valid_nth_lt n p); auto.
    + rewrite nth_upd_other; [apply Hq; lia|].
      intros E. apply Hne. apply (valid_inj n p); auto; lia.
Qed.

Lemma inversion_length n p : valid n p -> length (inversion p) = n.
Proof.
  intros Hp. pose proof Hp as [Hl _]. unfold inversion. rewrite Hl.
  apply (inversion_inv n p Hp n (le_n n)).
Qed.

(** every slot p[i] of the result holds i (so no None placeholder survives) *)
Theorem inversion_spec n p : valid n p -> forall i, i < n -> nth (nth i p 0) (inversion p) 0 = i.
Proof.
  intros Hp. pose proof Hp as [Hl _]. unfold inversion. rewrite Hl.
  apply (inversion_inv n p Hp n (le_n n)).
Qed.

Lemma inversion_spec' n p : valid n p -> forall k, k < n -> nth (nth k (inversion p) 0) p 0 = k.
Proof.
  intros Hp k Hk. destruct (valid_surj n p Hp k Hk) as [i [Hi E]].
  rewrite <- E at 1. rewrite (inversion_spec n p Hp i Hi). exact E.
Qed.

Lemma inversion_lt n p : valid n p -> forall k, k < n -> nth k (inversion p) 0 < n.
Proof.
  intros Hp k Hk. destruct (valid_surj n p Hp k Hk) as [i [Hi E]].
  rewrite <- E. rewrite (inversion_spec n p Hp i Hi). exact Hi.
Qed.

Theorem operation_inversion_r n p : valid n p -> operation p (inversion p) = ident n.
Proof.
  intros Hp. pose proof Hp as [Hl _]. apply list_ext.
  - rewrite operation_length. unfold ident. rewrite seq_length. exact Hl.
  - rewrite operation_length. intros i Hi. rewrite nth_operation by exact Hi.
    unfold ident. rewrite seq_nth by lia. apply (inversion_spec n p Hp). lia.
Qed.

Theorem operation_inversion_l n p : valid n p -> operation (inversion p) p = ident n.
Proof.
  intros Hp. pose proof (inversion_length n p Hp) as Hl. apply list_ext.
  - rewrite operation_length. unfold ident. rewrite seq_length. exact Hl.
  - rewrite operation_length. intros i Hi. rewrite nth_operation by exact Hi.
    unfold ident. rewrite seq_nth by lia. apply (inversion_spec' n p Hp). lia.
Qed.

Theorem inversion_valid n p : valid n p -> valid n (inversion p).
Proof.
  intros Hp. pose proof (inversion_length n p Hp) as Hl.
  split; [exact Hl|]. split.
  - apply (proj2 (NoDup_nth (inversion p) 0)). rewrite Hl. intros i j Hi Hj E.
    rewrite <- (inversion_spec' n p Hp i Hi), <- (inversion_spec' n p Hp j Hj). rewrite E. reflexivity.
  - intros x Hx. destruct (In_nth _ _ 0 Hx) as [k [Hk <-]]. apply (inversion_lt n p Hp). lia.
Qed.

Theorem equality_spec p q : equality p q = true <-> p = q.
Proof. unfold equality. destruct (list_eq_dec Nat.eq_dec p q); split; auto; discriminate. Qed.

(** the executable check is the predicate *)
Theorem validb_spec n p : validb n p = true <-> valid n p.
Proof.
  unfold validb. rewrite andb_true_iff, Nat.eqb_eq, forallb_forall. split.
  - intros [Hl Hall].
    assert (Hincl : incl (seq 0 n) p).
    { intros k Hk. specialize (Hall k Hk). apply existsb_exists in Hall.
      destruct Hall as [x [Hx E]]. apply Nat.eqb_eq in E. subst x. exact Hx. }
    assert (Hnd : NoDup p).
    { apply (NoDup_incl_NoDup (l := seq 0 n)); [apply seq_NoDup|rewrite seq_length; lia|exact Hincl]. }
    split; [exact Hl|]. split; [exact Hnd|].
    intros x Hx.
    assert (Hin : In x (seq 0 n)).
    { apply (NoDup_length_incl (seq_NoDup n 0) (l' := p)); [rewrite seq_length; lia|exact Hincl|exact Hx]. }
    apply in_seq in Hin. lia.
  - intros Hp. pose proof Hp as [Hl _]. split; [exact Hl|].
    intros k Hk. apply in_seq in Hk. destruct (valid_surj n p Hp k ltac:(lia)) as [i [Hi E]].
    apply existsb_exists. exists k. split; [|apply Nat.eqb_refl].
    rewrite <- E. apply nth_In. lia.
Qed.
