(** L2: share-vector semantics of the basic protocols (local linear operations, local product,
    GRR resharing as in runtime._reshare, output recombination as in runtime.output) and the
    theorem that every value of the expression language is a consistent degree-t sharing. *)
Require Import MPyC.Base MPyC.Field MPyC.Poly MPyC.Lagrange MPyC.Shamir MPyC.PRSS.
From Coq Require Import ZArith Lia.

Lemma mod_shift_inj (m u j j' : nat) : j < m -> j' < m -> (u + j) mod m = (u + j') mod m -> j = j'.
Proof.
  intros Hj Hj' E.
  assert (Hm : m <> 0) by lia.
  pose proof (Nat.div_mod (u + j) m Hm) as H1. pose proof (Nat.div_mod (u + j') m Hm) as H2.
  rewrite E in H1.
  assert (Hq : (u + j) / m = (u + j') / m \/ (u + j) / m < (u + j') / m \/ (u + j') / m < (u + j) / m) by lia.
  destruct Hq as [Hq|[Hq|Hq]].
  - rewrite Hq in H1. lia.
  - assert (m * ((u + j) / m) + m <= m * ((u + j') / m)) by nia. lia.
  - assert (m * ((u + j') / m) + m <= m * ((u + j) / m)) by nia. lia.
Qed.

(** the 2t+1 dealers of a resharing labelled uci: (uci + j) mod m, j = 0..2t *)
Definition dealers (m t uci : nat) : list nat := map (fun j => (uci + j) mod m) (seq 0 (2 * t + 1)).

Lemma dealers_NoDup m t uci : 2 * t + 1 <= m -> NoDup (dealers m t uci).
Proof.
  intros H. unfold dealers. apply NoDup_map_in; [|apply seq_NoDup].
  intros a b Ha Hb E. apply in_seq in Ha. apply in_seq in Hb. apply (mod_shift_inj m uci a b); [lia|lia|exact E].
Qed.

Lemma dealers_lt m t uci d : 0 < m -> In d (dealers m t uci) -> d < m.
Proof. intros Hm H. unfold dealers in H. apply in_map_iff in H. destruct H as [j [<- _]]. apply Nat.mod_upper_bound. lia. Qed.

(** the t' predecessors of receiver r plus r itself, as used by output: (r - t' + j) mod m, then r *)
Definition out_points (m t' r : nat) : list nat := map (fun j => (r + m - t' + j) mod m) (seq 0 t') ++ [r].

Lemma out_points_NoDup m t' r : t' < m -> r < m -> NoDup (out_points m t' r).
Proof.
  intros Ht Hr. unfold out_points.
  assert (E : map (fun j => (r + m - t' + j) mod m) (seq 0 t') ++ [r]
              = map (fun j => (r + m - t' + j) mod m) (seq 0 (S t'))).
  { rewrite seq_S, map_app. simpl. f_equal. f_equal.
    replace (r + m - t' + t') with (r + 1 * m) by lia. rewrite Nat.mod_add by lia. symmetry. apply Nat.mod_small. exact Hr. }
  rewrite E. apply NoDup_map_in; [|apply seq_NoDup].
  intros a b Ha Hb Eab. apply in_seq in Ha. apply in_seq in Hb. apply (mod_shift_inj m (r + m - t') a b); [lia|lia|exact Eab].
Qed.

Lemma out_points_lt m t' r x : 0 < m -> r < m -> In x (out_points m t' r) -> x < m.
Proof.
  intros Hm Hr H. unfold out_points in H. apply in_app_iff in H. destruct H as [H|[<-|[]]]; [|exact Hr].
  apply in_map_iff in H. destruct H as [j [<- _]]. apply Nat.mod_upper_bound. lia.
Qed.

Section ProtoDefs.
Variable K : Ops.
Variable inj : nat -> K.
Notation "0" := (f0 K).
Infix "+" := (fadd K). Infix "*" := (fmul K). Infix "-" := (fsub K).

Definition pt (i : nat) : K := inj (S i).

(** local (communication-free) operations on share vectors *)
Definition sh_add (s1 s2 : list K) : list K := map (fun ab => fst ab + snd ab) (combine s1 s2).
Definition sh_sub (s1 s2 : list K) : list K := map (fun ab => fst ab - snd ab) (combine s1 s2).
Definition sh_neg (s1 : list K) : list K := map (fopp K) s1.
Definition sh_scal (a : K) (s1 : list K) : list K := map (fun x => a * x) s1.
Definition sh_mul_local (s1 s2 : list K) : list K := map (fun ab => fst ab * snd ab) (combine s1 s2).
Definition sh_const (m : nat) (a : K) : list K := map (fun _ => a) (seq 0 m).

(** runtime._reshare: dealer d splits its own share with its coefficient tape (tape d);
    every party recombines, at 0, the 2t+1 sub-shares it received *)
Definition reshare (m t uci : nat) (tape : nat -> list K) (sigma : list K) : list K :=
  let D := dealers m t uci in
  map (fun i => recombine_at (map pt D) (map (fun d => share_at inj (tape d) (nth d sigma 0) (S i)) D) (inj O))
      (seq 0 m).

(** runtime.mul on two secret operands: local product, then reshare *)
Definition mul_proto (m t uci : nat) (tape : nat -> list K) (s1 s2 : list K) : list K :=
  reshare m t uci tape (sh_mul_local s1 s2).

(** runtime.output at receiver r with threshold t': recombine own share and t' predecessors at 0 *)
Definition output_at (m t' r : nat) (sigma : list K) : K :=
  let P := out_points m t' r in
  recombine_at (map pt P) (map (fun x => nth x sigma 0) P) (inj O).
End ProtoDefs.
Arguments pt {K}. Arguments sh_add {K}. Arguments sh_sub {K}. Arguments sh_neg {K}. Arguments sh_scal {K}.
Arguments sh_mul_local {K}. Arguments sh_const {K}. Arguments reshare {K}. Arguments mul_proto {K}.
Arguments output_at {K}.

Section Proto.
Variable K : FieldT.
Add Field KF : (fth K).
Notation "0" := (f0 K). Notation "1" := (f1 K).
Infix "+" := (fadd K). Infix "*" := (fmul K). Infix "-" := (fsub K). Infix "/" := (fdiv K).
Variable inj : nat -> K.
Variable m : nat.
Hypothesis inj_inj : forall i j, i <= m -> j <= m -> inj i = inj j -> i = j.
Hypothesis inj_0 : inj O = 0.
Notation Sharing := (Sharing inj m).

Lemma pts_NoDup (I : list nat) : NoDup I -> (forall i, In i I -> i < m) -> NoDup (map (pt inj) I).
Proof.
  intros Hnd Hr. unfold pt. rewrite <- (map_map S inj).
  apply (NoDup_map_inj K inj m inj_inj).
  - apply FinFun.Injective_map_NoDup; [intros a b E; injection E; auto|exact Hnd].
  - intros i Hi. apply in_map_iff in Hi. destruct Hi as [x [<- Hx]]. specialize (Hr x Hx). lia.
Qed.

(** recombining the shares of ANY set I of more than d parties of a degree-d sharing gives the secret *)
Theorem sharing_recombine (d : nat) (sigma : list K) (a : K) (I : list nat) :
  Sharing d sigma a -> NoDup I -> (forall i, In i I -> i < m) -> d < length I ->
  recombine_at (map (pt inj) I) (map (fun x => nth x sigma 0) I) (inj O) = a.
Proof.
  intros [Hl [f [Hf [H0 Hs]]]] Hnd Hr Hd.
  rewrite (map_ext_in (fun x => nth x sigma 0) (fun x => eval f (pt inj x))) by (intros x Hx; apply Hs, Hr, Hx).
  rewrite <- (map_map (pt inj) (eval f)).
  rewrite lagrange_eval; [rewrite inj_0; exact H0|apply pts_NoDup; auto|rewrite map_length; lia].
Qed.

(** linear operations and constants preserve / create consistent sharings *)
Lemma sharing_weaken d d' sigma a : d <= d' -> Sharing d sigma a -> Sharing d' sigma a.
Proof. intros Hd [Hl [f [Hf H]]]. split; [exact Hl|]. exists f. split; [lia|exact H]. Qed.

Theorem sharing_const (d : nat) (a : K) : Sharing d (sh_const m a) a.
Proof.
  split; [apply map_seq_length|]. exists [a]. split; [simpl; lia|]. split; [simpl; ring|].
  intros i Hi. unfold sh_const. rewrite nth_map_seq by exact Hi. simpl. ring.
Qed.

Lemma nth_combine_map (g : K * K -> K) (s1 s2 : list K) i :
  length s1 = m -> length s2 = m -> i < m ->
  nth i (map g (combine s1 s2)) 0 = g (nth i s1 0, nth i s2 0).
Proof.
  intros H1 H2 Hi. rewrite (nth_map_in _ _ _ _ (0, 0)) by (rewrite combine_length; lia).
  rewrite combine_nth by lia. reflexivity.
Qed.

Theorem sharing_add d s1 s2 a b : Sharing d s1 a -> Sharing d s2 b -> Sharing d (sh_add s1 s2) (a + b).
Proof.
  intros [Hl1 [f [Hf [Hf0 Hfs]]]] [Hl2 [g [Hg [Hg0 Hgs]]]]. split.
  - unfold sh_add. rewrite map_length, combine_length. lia.
  - exists (padd f g). split; [rewrite len_padd; lia|]. split; [rewrite eval_padd; congruence|].
    intros i Hi. unfold sh_add. rewrite nth_combine_map by auto. simpl.
    rewrite eval_padd, Hfs, Hgs by auto. reflexivity.
Qed.

Theorem sharing_scal d (c : K) s1 a : Sharing d s1 a -> Sharing d (sh_scal c s1) (c * a).
Proof.
  intros [Hl1 [f [Hf [Hf0 Hfs]]]]. split; [unfold sh_scal; rewrite map_length; auto|].
  exists (pscale c f). split; [rewrite len_pscale; auto|]. split; [rewrite eval_pscale; congruence|].
  intros i Hi. unfold sh_scal. rewrite (nth_map_in _ _ _ _ 0) by lia. rewrite eval_pscale, Hfs by auto. reflexivity.
Qed.

Theorem sharing_neg d s1 a : Sharing d s1 a -> Sharing d (sh_neg s1) (fopp K a).
Proof.
  intros H. destruct (sharing_scal d (fopp K 1) s1 a H) as [Hl [f [Hf [Hf0 Hfs]]]]. split.
  - unfold sh_neg. rewrite map_length. destruct H; auto.
  - exists f. split; [auto|]. split; [rewrite Hf0; ring|].
    intros i Hi. rewrite <- Hfs by auto. unfold sh_neg, sh_scal. destruct H as [Hl1 _].
    rewrite !(nth_map_in _ _ _ _ 0) by lia. ring.
Qed.

Theorem sharing_sub d s1 s2 a b : Sharing d s1 a -> Sharing d s2 b -> Sharing d (sh_sub s1 s2) (a - b).
Proof.
  intros [Hl1 [f [Hf [Hf0 Hfs]]]] [Hl2 [g [Hg [Hg0 Hgs]]]]. split.
  - unfold sh_sub. rewrite map_length, combine_length. lia.
  - exists (padd f (pscale (fopp K 1) g)). split; [rewrite len_padd, len_pscale; lia|].
    split; [rewrite eval_padd, eval_pscale, Hf0, Hg0; ring|].
    intros i Hi. unfold sh_sub. rewrite nth_combine_map by auto. simpl.
    rewrite eval_padd, eval_pscale, Hfs, Hgs by auto. ring.
Qed.

Lemma len_pmul_nil_r (p : list K) : length (pmul p (@nil K)) = length p.
Proof. induction p as [|x l IH]; simpl; [reflexivity|]. rewrite IH. reflexivity. Qed.

(** affine combinations with PUBLIC coefficients of consistent sharings are consistent sharings:
    this is why every masked-opening protocol (sgn, trunc, lsb, _mod, to_bits, _convert, ...),
    whose result is  c0 + sum_k c_k * sigma_k  with c0, c_k computed from opened values, again
    yields a degree-t sharing of the corresponding combination of values *)
Fixpoint sh_lincomb (c0 : K) (terms : list (K * list K)) : list K :=
  match terms with
  | [] => sh_const m c0
  | (c, s) :: rest => sh_add (sh_scal c s) (sh_lincomb c0 rest)
  end.
Fixpoint val_lincomb (c0 : K) (terms : list (K * K)) : K :=
  match terms with [] => c0 | (c, a) :: rest => c * a + val_lincomb c0 rest end.

Theorem sharing_lincomb d (c0 : K) (terms : list (K * list K * K)) :
  (forall c s a, In (c, s, a) terms -> Sharing d s a) ->
  Sharing d (sh_lincomb c0 (map (fun x => (fst (fst x), snd (fst x))) terms))
            (val_lincomb c0 (map (fun x => (fst (fst x), snd x)) terms)).
Proof.
  induction terms as [|[[c s] a] rest IH]; intros H; simpl.
  - apply sharing_const.
  - apply sharing_add.
    + apply sharing_scal. apply (H c s a). left; reflexivity.
    + apply IH. intros c' s' a' Hin. apply (H c' s' a'). right; exact Hin.
Qed.

(** local product: degree doubles *)
Theorem sharing_mul_local d s1 s2 a b : Sharing d s1 a -> Sharing d s2 b ->
  Sharing (2 * d) (sh_mul_local s1 s2) (a * b).
Proof.
  intros [Hl1 [f [Hf [Hf0 Hfs]]]] [Hl2 [g [Hg [Hg0 Hgs]]]]. split.
  - unfold sh_mul_local. rewrite map_length, combine_length. lia.
  - exists (pmul f g). split; [|split].
    + destruct f as [|f1 f']; [simpl; lia|]. destruct g as [|g1 g'].
      * rewrite len_pmul_nil_r. simpl in *. lia.
      * rewrite len_pmul by congruence. simpl in *. lia.
    + rewrite eval_pmul. congruence.
    + intros i Hi. unfold sh_mul_local. rewrite nth_combine_map by auto. simpl.
      rewrite eval_pmul, Hfs, Hgs by auto. reflexivity.
Qed.

(** C11 core: resharing turns a degree-2t sharing into a degree-t sharing of the SAME value, for
    every label uci and every dealer randomness *)
Theorem reshare_sharing (t uci : nat) (tape : nat -> list K) (sigma : list K) (a : K) :
  2 * t + 1 <= m -> (forall d, length (tape d) <= t) ->
  Sharing (2 * t) sigma a -> Sharing t (reshare inj m t uci tape sigma) a.
Proof.
  intros Hm Htape Hs. split; [apply map_seq_length|].
  set (D := dealers m t uci).
  assert (HD : NoDup D) by (apply dealers_NoDup; exact Hm).
  assert (HDlt : forall d, In d D -> d < m) by (intros d Hd; eapply dealers_lt; eauto; lia).
  set (xs := map (pt inj) D).
  assert (Hlx : length xs = length D) by (unfold xs; apply map_length).
  exists (psum (map (fun k => pscale (lam xs (inj O) k) (nth (nth k D O) sigma 0 :: rev (tape (nth k D O))))
                    (seq 0 (length D)))).
  split; [|split].
  - apply len_psum. intros p Hp. apply in_map_iff in Hp. destruct Hp as [k [<- _]].
    rewrite len_pscale. simpl. rewrite rev_length. specialize (Htape (nth k D O)). lia.
  - rewrite eval_psum, map_map.
    rewrite <- (sharing_recombine (2 * t) sigma a D Hs HD HDlt) by (unfold D, dealers; rewrite map_length, seq_length; lia).
    unfold recombine_at. fold xs. rewrite Hlx. apply fsum_map_ext. intros k Hk. apply in_seq in Hk.
    rewrite eval_pscale. simpl. rewrite (nth_map_in _ _ _ _ O) by lia. ring.
  - intros i Hi. unfold reshare. rewrite nth_map_seq by exact Hi. fold D. fold xs. cbn [Nat.add].
    rewrite eval_psum, map_map. unfold recombine_at. rewrite Hlx.
    apply fsum_map_ext. intros k Hk. apply in_seq in Hk.
    rewrite eval_pscale. rewrite (nth_map_in _ _ _ _ O) by lia.
    rewrite share_at_eval. unfold pt. ring.
Qed.

Theorem mul_correct (t uci : nat) (tape : nat -> list K) (s1 s2 : list K) (a b : K) :
  2 * t + 1 <= m -> (forall d, length (tape d) <= t) ->
  Sharing t s1 a -> Sharing t s2 b -> Sharing t (mul_proto inj m t uci tape s1 s2) (a * b).
Proof.
  intros Hm Ht H1 H2. unfold mul_proto. apply reshare_sharing; auto. apply sharing_mul_local; auto.
Qed.

(** output: every receiver r, with any threshold t' >= the degree, obtains the secret *)
Theorem output_correct (d t' r : nat) (sigma : list K) (a : K) :
  Sharing d sigma a -> d <= t' -> t' < m -> r < m -> output_at inj m t' r sigma = a.
Proof.
  intros Hs Hd Ht Hr. unfold output_at.
  apply (sharing_recombine d); auto.
  - apply out_points_NoDup; auto.
  - intros x Hx. eapply out_points_lt; eauto. lia.
  - unfold out_points. rewrite app_length, map_length, seq_length. simpl. lia.
Qed.

(** ---- the expression language: every reachable value is a consistent degree-t sharing ---- *)
Inductive expr : Type :=
| EInput (s : K) (c : list K)                  (* input by some sender: secret s, coefficient tape c *)
| EConst (a : K)                               (* public constant *)
| ERand (subsets : list (list nat)) (r : list nat -> K)        (* PRSS random value *)
| EAdd (e1 e2 : expr) | ESub (e1 e2 : expr) | ENeg (e : expr) | EScal (a : K) (e : expr)
| EMul (e1 e2 : expr) (uci : nat) (tape : nat -> list K).

Variable t : nat.

Fixpoint shares (e : expr) : list K :=
  match e with
  | EInput s c => split_col inj c s m
  | EConst a => sh_const m a
  | ERand subsets r => map (fun i => prss_share inj m i subsets r) (seq 0 m)
  | EAdd e1 e2 => sh_add (shares e1) (shares e2)
  | ESub e1 e2 => sh_sub (shares e1) (shares e2)
  | ENeg e => sh_neg (shares e)
  | EScal a e => sh_scal a (shares e)
  | EMul e1 e2 uci tape => mul_proto inj m t uci tape (shares e1) (shares e2)
  end.

Fixpoint value (e : expr) : K :=
  match e with
  | EInput s _ => s
  | EConst a => a
  | ERand subsets r => fsum (map r subsets)
  | EAdd e1 e2 => value e1 + value e2
  | ESub e1 e2 => value e1 - value e2
  | ENeg e => fopp K (value e)
  | EScal a e => a * value e
  | EMul e1 e2 _ _ => value e1 * value e2
  end.

Fixpoint wf (e : expr) : Prop :=
  match e with
  | EInput _ c => length c <= t
  | EConst _ => True
  | ERand subsets _ => forall S, In S subsets -> length (compl m S) <= t
  | EAdd e1 e2 | ESub e1 e2 => wf e1 /\ wf e2
  | ENeg e | EScal _ e => wf e
  | EMul e1 e2 _ tape => wf e1 /\ wf e2 /\ forall d, length (tape d) <= t
  end.

Theorem reachable_sharing (e : expr) : 2 * t + 1 <= m -> wf e -> Sharing t (shares e) (value e).
Proof.
  intros Hm. induction e as [s c|a|subsets r|e1 IH1 e2 IH2|e1 IH1 e2 IH2|e IH|a e IH|e1 IH1 e2 IH2 uci tape];
    simpl; intros Hwf.
  - split; [unfold split_col; apply map_seq_length|].
    exists (s :: rev c). split; [simpl; rewrite rev_length; lia|]. split; [simpl; ring|].
    intros i Hi. rewrite (nth_split_col K inj m) by exact Hi. apply share_at_eval.
  - apply sharing_const.
  - apply prss_sharing; auto.
  - destruct Hwf. apply sharing_add; auto.
  - destruct Hwf. apply sharing_sub; auto.
  - apply sharing_neg; auto.
  - apply sharing_scal; auto.
  - destruct Hwf as [H1 [H2 H3]]. apply mul_correct; auto.
Qed.

(** ... and every receiver of an output of a reachable value obtains exactly that value *)
Corollary reachable_output (e : expr) (t' r : nat) : 2 * t + 1 <= m -> wf e -> t <= t' -> t' < m -> r < m ->
  output_at inj m t' r (shares e) = value e.
Proof. intros Hm Hwf Ht Ht' Hr. eapply output_correct; eauto. apply reachable_sharing; auto. Qed.

End Proto.
