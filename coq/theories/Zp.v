(** Integers modulo p as an executable [Ops] instance (no hypothesis on p) and, for prime p,
    as a [FieldT] instance.  The carrier is {z | z mod p = z} (as a boolean equation, so that
    equality of elements is equality of representatives, without axioms). *)
Require Import MPyC.Field.
From Coq Require Import Znumtheory Eqdep_dec Bool.
Local Open Scope Z_scope.

(** extended Euclid with fuel: returns (g, u, v) with u*a + v*b = g for ANY fuel *)
Fixpoint egcd (fuel : nat) (a b : Z) : Z * Z * Z :=
  match fuel with
  | O => (a, 1, 0)
  | S f => if b =? 0 then (a, 1, 0)
           else let '(g, u, v) := egcd f b (a mod b) in (g, v, u - (a / b) * v)
  end.

Definition egcd_fuel (p : Z) : nat := (2 * Z.to_nat (Z.log2_up p) + 2)%nat.

Definition inv_raw (p a : Z) : Z :=
  let '(g, u, v) := egcd (egcd_fuel p) p (a mod p) in v mod p.

Lemma egcd_bezout fuel : forall a b g u v, egcd fuel a b = (g, u, v) -> u * a + v * b = g.
Proof.
  induction fuel as [|f IH]; intros a b g u v; simpl.
  - intros E; inversion E; subst; ring.
  - destruct (b =? 0) eqn:E; [intros E'; inversion E'; subst; ring|].
    destruct (egcd f b (a mod b)) as [[g' u'] v'] eqn:EE. intros E'; inversion E'; subst.
    apply IH in EE. apply Z.eqb_neq in E. rewrite <- EE.
    rewrite (Z.mod_eq a b E). ring.
Qed.

Lemma egcd_g_S f a b : b <> 0 -> fst (fst (egcd (S f) a b)) = fst (fst (egcd f b (a mod b))).
Proof.
  intros Hb. cbn [egcd]. apply Z.eqb_neq in Hb. rewrite Hb.
  destruct (egcd f b (a mod b)) as [[g u] v]. reflexivity.
Qed.

Lemma egcd_g_0 f a : fst (fst (egcd f a 0)) = a.
Proof. destruct f; reflexivity. Qed.

Lemma egcd_gcd : forall (k : nat) fuel a b, 0 <= b < a -> a < 2 ^ Z.of_nat k -> (2 * k <= fuel)%nat ->
  fst (fst (egcd fuel a b)) = Z.gcd a b.
Proof.
  induction k as [|k IH]; intros fuel a b Hab Ha Hf.
  - simpl in Ha. lia.
  - destruct fuel as [|[|fuel]]; try lia.
    destruct (Z.eq_dec b 0) as [E|E].
    { subst. rewrite egcd_g_0, Z.gcd_0_r. lia. }
    rewrite egcd_g_S by exact E.
    assert (Hr1 : 0 <= a mod b < b) by (apply Z.mod_pos_bound; lia).
    assert (G1 : Z.gcd a b = Z.gcd b (a mod b)).
    { rewrite (Z.gcd_comm a b), (Z.gcd_comm b (a mod b)). symmetry. apply Z.gcd_mod. exact E. }
    destruct (Z.eq_dec (a mod b) 0) as [E1|E1].
    { rewrite E1, egcd_g_0. rewrite G1, E1, Z.gcd_0_r. lia. }
    rewrite egcd_g_S by exact E1.
    assert (G2 : Z.gcd b (a mod b) = Z.gcd (a mod b) (b mod (a mod b))).
    { rewrite (Z.gcd_comm b), (Z.gcd_comm (a mod b) (b mod _)). symmetry. apply Z.gcd_mod. exact E1. }
    rewrite G1, G2. apply IH.
    + apply Z.mod_pos_bound; lia.
    + assert (2 * (a mod b) < a).
      { destruct (Z_le_gt_dec (2 * b) a).
        - lia.
        - assert (a / b = 1). { symmetry. apply Z.div_unique with (a - b); lia. }
          pose proof (Z.div_mod a b E). lia. }
      rewrite Nat2Z.inj_succ, Z.pow_succ_r in Ha by lia. lia.
    + lia.
Qed.

Lemma log2_up_fuel p a : 0 <= a < p -> a < 2 ^ Z.of_nat (Z.to_nat (Z.log2_up p)).
Proof.
  intros H. rewrite Z2Nat.id by apply Z.log2_up_nonneg.
  destruct (Z.eq_dec p 1); [subst; simpl; lia|].
  pose proof (Z.log2_up_spec p ltac:(lia)). lia.
Qed.

Lemma inv_raw_spec p a : prime p -> a mod p <> 0 -> (a * inv_raw p a) mod p = 1.
Proof.
  intros Hp Ha. unfold inv_raw.
  pose proof (prime_ge_2 p Hp) as Hp2.
  assert (Hr : 0 <= a mod p < p) by (apply Z.mod_pos_bound; lia).
  pose proof (egcd_gcd (S (Z.to_nat (Z.log2_up p))) (egcd_fuel p) p (a mod p)) as Hg.
  destruct (egcd (egcd_fuel p) p (a mod p)) as [[g u] v] eqn:EE. cbn [fst] in Hg.
  pose proof (egcd_bezout _ _ _ _ _ _ EE) as Hb.
  assert (Hg1 : g = 1).
  { rewrite Hg.
    - apply Zgcd_1_rel_prime. apply prime_rel_prime; auto.
      intros Hd. apply Ha. apply Zdivide_mod in Hd. rewrite Z.mod_mod in Hd by lia. exact Hd.
    - lia.
    - rewrite Nat2Z.inj_succ, Z.pow_succ_r by lia.
      rewrite Z2Nat.id by apply Z.log2_up_nonneg.
      pose proof (Z.log2_up_spec p ltac:(lia)). lia.
    - unfold egcd_fuel. lia. }
  subst g.
  rewrite Z.mul_mod_idemp_r by lia.
  rewrite <- (Z.mul_mod_idemp_l a) by lia.
  replace (a mod p * v) with (1 + (- u) * p) by lia.
  rewrite Z.mod_add by lia. apply Z.mod_1_l. lia.
Qed.

(** ---- the carrier ---- *)
Definition inZp (p z : Z) : bool := z mod p =? z.
Definition Zp (p : Z) : Type := { z : Z | inZp p z = true }.
Definition zval {p} (a : Zp p) : Z := proj1_sig a.

Lemma inZp_mod p z : inZp p (z mod p) = true.
Proof. unfold inZp. apply Z.eqb_eq. destruct (Z.eq_dec p 0); [subst; now rewrite !Zmod_0_r|]. apply Z.mod_mod; auto. Qed.

Definition mkZp (p z : Z) : Zp p := exist _ (z mod p) (inZp_mod p z).

Lemma Zp_eq p (a b : Zp p) : zval a = zval b -> a = b.
Proof.
  destruct a as [a Ha], b as [b Hb]; simpl; intros E. subst b.
  f_equal. apply UIP_dec. apply bool_dec.
Qed.

Lemma zval_mkZp p z : zval (mkZp p z) = z mod p.
Proof. reflexivity. Qed.

Lemma zval_red p (a : Zp p) : zval a mod p = zval a.
Proof. destruct a as [a Ha]; simpl. apply Z.eqb_eq, Ha. Qed.

Definition ZpOps (p : Z) : Ops :=
  {| car := Zp p;
     f0 := mkZp p 0; f1 := mkZp p 1;
     fadd := fun a b => mkZp p (zval a + zval b);
     fmul := fun a b => mkZp p (zval a * zval b);
     fsub := fun a b => mkZp p (zval a - zval b);
     fopp := fun a => mkZp p (- zval a);
     fdiv := fun a b => mkZp p (zval a * inv_raw p (zval b));
     finv := fun a => mkZp p (inv_raw p (zval a)) |}.

Lemma Zp_dec p (a b : Zp p) : {a = b} + {a <> b}.
Proof.
  destruct (Z.eq_dec (zval a) (zval b)) as [E|E]; [left; apply Zp_eq, E|right; intros ->; auto].
Defined.

Lemma Zp_field_theory p : prime p ->
  field_theory (f0 (ZpOps p)) (f1 (ZpOps p)) (fadd (ZpOps p)) (fmul (ZpOps p)) (fsub (ZpOps p))
               (fopp (ZpOps p)) (fdiv (ZpOps p)) (finv (ZpOps p)) (@eq (Zp p)).
Proof.
  intros Hp. pose proof (prime_ge_2 p Hp) as Hp2.
  assert (Hn : p <> 0) by lia.
  constructor; [constructor| | |]; simpl; intros;
    try (apply Zp_eq; rewrite !zval_mkZp).
  - apply zval_red.
  - f_equal; ring.
  - rewrite Z.add_mod_idemp_l, Z.add_mod_idemp_r by lia. f_equal; ring.
  - rewrite Z.mod_1_l, Z.mul_1_l by lia. apply zval_red.
  - f_equal; ring.
  - rewrite Z.mul_mod_idemp_l, Z.mul_mod_idemp_r by lia. f_equal; ring.
  - rewrite Z.mul_mod_idemp_l by lia. rewrite <- Z.add_mod by lia. f_equal; ring.
  - rewrite Z.add_mod_idemp_r by lia. f_equal; ring.
  - rewrite Z.add_mod_idemp_r by lia. f_equal; ring.
  - intros E. apply (f_equal zval) in E. rewrite !zval_mkZp in E.
    rewrite Z.mod_1_l, Z.mod_0_l in E by lia. lia.
  - rewrite Z.mul_mod_idemp_r by lia. reflexivity.
  - rewrite Z.mul_mod_idemp_l by lia. rewrite Z.mod_1_l by lia.
    rewrite Z.mul_comm. apply inv_raw_spec; auto.
    rewrite zval_red. intros E. apply H. apply Zp_eq. rewrite zval_mkZp, Z.mod_0_l by lia. exact E.
Qed.

Definition ZpField (p : Z) (Hp : prime p) : FieldT :=
  {| fops := ZpOps p; fth := Zp_field_theory p Hp; feq_dec := Zp_dec p |}.

(** field image of the nonnegative integer n (party i has x-coordinate zp_of_nat (i+1)) *)
Definition zp_of_nat (p : Z) (n : nat) : Zp p := mkZp p (Z.of_nat n).

Lemma zp_of_nat_inj p (i j : nat) : Z.of_nat i < p -> Z.of_nat j < p ->
  zp_of_nat p i = zp_of_nat p j -> i = j.
Proof.
  intros Hi Hj E. apply (f_equal zval) in E. unfold zp_of_nat in E. rewrite !zval_mkZp in E.
  rewrite !Z.mod_small in E by lia. lia.
Qed.

(** a boolean primality test by trial division, to discharge [prime p] for small concrete p *)
Fixpoint no_divisor (fuel : nat) (d p : Z) : bool :=
  match fuel with
  | O => true
  | S f => if p mod d =? 0 then false else no_divisor f (d + 1) p
  end.
Definition is_prime_small (p : Z) : bool := (2 <=? p) && no_divisor (Z.to_nat (p - 2)) 2 p.

Lemma no_divisor_spec fuel : forall d p, 0 < d -> no_divisor fuel d p = true ->
  forall x, d <= x < d + Z.of_nat fuel -> p mod x <> 0.
Proof.
  induction fuel as [|f IH]; intros d p Hd H x Hx; [lia|].
  simpl in H. destruct (p mod d =? 0) eqn:E; [discriminate|]. apply Z.eqb_neq in E.
  destruct (Z.eq_dec x d); [subst; exact E|].
  apply (IH (d + 1) p); auto; lia.
Qed.

Lemma is_prime_small_correct p : is_prime_small p = true -> prime p.
Proof.
  unfold is_prime_small. intros H. apply andb_true_iff in H. destruct H as [H2 Hn].
  apply Z.leb_le in H2.
  apply prime_intro; [lia|]. intros n Hn1.
  apply Zgcd_1_rel_prime.
  pose proof (Z.gcd_divide_l n p) as Hdn. pose proof (Z.gcd_divide_r n p) as Hdp.
  pose proof (Z.gcd_nonneg n p) as Hnn.
  remember (Z.gcd n p) as g eqn:Eg.
  assert (Hg0 : g <> 0).
  { intros E. subst g. apply Z.gcd_eq_0_r in E. lia. }
  assert (Hgn : g <= n) by (apply Z.divide_pos_le; [lia|exact Hdn]).
  destruct (Z.eq_dec g 1) as [E1|E1]; [exact E1|].
  exfalso. apply (no_divisor_spec _ 2 p ltac:(lia) Hn g); [lia|].
  apply Zdivide_mod. exact Hdp.
Qed.
