(** Value-level model of runtime._convert: masked conversion between secure types with the SAME
    random integer r embedded in the source and the target field.  Integers modulo the source
    prime [ps] and the target prime [pt]; tapes explicit.  Sub-protocols trunc and _mod are the
    models of Masked.v. *)
From Coq Require Import ZArith List Lia Znumtheory Bool.
Require Import MPyC.Zp MPyC.Masked.
Import ListNotations.
Local Open Scope Z_scope.

(** ** non-field source (SecInt / SecFxp): [ls] = source bit length, [l] = min(ls, lt),
    [d] = target frac_length - source frac_length; tape: [r] (the shared random integer, at most
    2^(k+l): sum of t+1 dealt values below 2^(k+l)/(t+1)+1, or of comb(m,t) PRSS values below
    2^(k+l)/comb(m,t)+1), and the trunc tape [rbits], [rdiv] when d < 0 *)
Definition convert_v (ps pt ls l d x r : Z) (rbits : list Z) (rdiv : Z) : Z :=
  let x1 := if d <? 0 then trunc_v ps ls (- d) x rbits rdiv else x in   (* trunc(x, f=-d, l=s.bit_length) *)
  let offset := 2 ^ (l - 1) in                                           (* signed source field *)
  let y := (x1 + offset + r mod ps) mod ps in                            (* opened: x + offset + s_r *)
  let z := (((y - r mod pt) mod pt) - offset) mod pt in                  (* y - t_r - offset in the target *)
  if 0 <? d then (z * 2 ^ d) mod pt else z.                              (* x <<= d *)

Lemma convert_core ps pt off q r :
  0 <= q + off + r < ps ->
  ((((q mod ps + off + r mod ps) mod ps - r mod pt) mod pt) - off) mod pt = q mod pt.
Proof.
  intros H.
  assert (E : (q mod ps + off + r mod ps) mod ps = q + off + r).
  { modsmall (q + off + r) ps. exact H. }
  rewrite E. modring.
Qed.

Theorem convert_int_correct ps pt ls l k d a r rbits rdiv :
  1 <= k -> 1 <= l -> 0 <= d -> 2 ^ (k + l + 1) < ps ->
  - 2 ^ (l - 1) <= a < 2 ^ (l - 1) -> 0 <= r <= 2 ^ (k + l) ->
  convert_v ps pt ls l d (a mod ps) r rbits rdiv = (a * 2 ^ d) mod pt.
Proof.
  intros Hk Hl Hd Hps Ha Hr. unfold convert_v.
  replace (d <? 0) with false by (symmetry; apply Z.ltb_ge; lia).
  assert (E1 : 2 ^ l = 2 * 2 ^ (l - 1)) by (rewrite <- Z.pow_succ_r by lia; f_equal; lia).
  assert (E2 : 2 ^ (k + l + 1) = 2 * 2 ^ (k + l)) by (rewrite <- Z.pow_succ_r by lia; f_equal; lia).
  assert (E3 : 2 ^ l < 2 ^ (k + l)) by (apply Z.pow_lt_mono_r; lia).
  rewrite convert_core by lia.
  destruct (0 <? d) eqn:E; [|apply Z.ltb_ge in E; replace d with 0 by lia; f_equal; simpl; ring].
  modring.
Qed.

(** int -> fxp is the case d = f_t > 0 : the scaled integer is exactly a * 2^f_t *)
Corollary int_to_fxp_exact ps pt ls l k f a r :
  1 <= k -> 1 <= l -> 0 < f -> 2 ^ (k + l + 1) < ps ->
  - 2 ^ (l - 1) <= a < 2 ^ (l - 1) -> 0 <= r <= 2 ^ (k + l) ->
  convert_v ps pt ls l f (a mod ps) r [] 0 = (a * 2 ^ f) mod pt.
Proof. intros. apply (convert_int_correct ps pt ls l k); auto; lia. Qed.

(** fxp -> int (and fxp -> fxp with fewer fractional bits): floor or floor + 1, for every tape *)
Theorem convert_fxp_to_int_rounds ps pt ls l k f a r rbits rdiv :
  prime ps -> 1 <= k -> 1 <= l -> 0 < f < ls -> 2 ^ (ls + k + 1) < ps -> 2 ^ (k + l + 1) < ps ->
  - 2 ^ (ls - 1) <= a < 2 ^ (ls - 1) ->
  - 2 ^ (l - 1) <= a / 2 ^ f -> a / 2 ^ f + 1 < 2 ^ (l - 1) ->     (* both neighbours fit l bits *)
  Forall bit rbits -> Z.of_nat (length rbits) = f -> 0 <= rdiv < 2 ^ (k + ls - f) ->
  0 <= r <= 2 ^ (k + l) ->
  convert_v ps pt ls l (- f) (a mod ps) r rbits rdiv = (a / 2 ^ f) mod pt \/
  convert_v ps pt ls l (- f) (a mod ps) r rbits rdiv = (a / 2 ^ f + 1) mod pt.
Proof.
  intros Hp Hk Hl Hf Hps1 Hps2 Ha Hq1 Hq2 Hb Hlen Hrd Hr. unfold convert_v.
  replace (- f <? 0) with true by (symmetry; apply Z.ltb_lt; lia).
  replace (0 <? - f) with false by (symmetry; apply Z.ltb_ge; lia).
  rewrite Z.opp_involutive.
  assert (E1 : 2 ^ l = 2 * 2 ^ (l - 1)) by (rewrite <- Z.pow_succ_r by lia; f_equal; lia).
  assert (E2 : 2 ^ (k + l + 1) = 2 * 2 ^ (k + l)) by (rewrite <- Z.pow_succ_r by lia; f_equal; lia).
  assert (E3 : 2 ^ l < 2 ^ (k + l)) by (apply Z.pow_lt_mono_r; lia).
  destruct (trunc_floor_or_ceil ps ls k f a rbits rdiv) as [E | E]; auto; try lia; rewrite E;
    [left|right]; apply convert_core; lia.
Qed.

(** ** prime-field source (SecFld -> SecInt(lt), the first half of field -> field in runtime.convert):
    [r] below the source order times the number of dealers; the opened value is reduced by the
    secure [_mod] with the source modulus; tape of that _mod: [rbits], [rdiv], [ssign], [rz] *)
Definition convert_fld_v (ps pt lt : Z) (signed : bool) (x r : Z) (rbits : list Z) (rdiv ssign rz : Z) : Z :=
  let offset := if signed then ps / 2 else 0 in
  let y := (x + offset + r mod ps) mod ps in
  let z := (y - r mod pt) mod pt in
  ((mod_v pt lt ps z rbits rdiv ssign rz) - offset) mod pt.

(** canonical representative: signed_() maps v > p>>1 to v - p *)
Definition canon (p : Z) (signed : bool) (v : Z) : Z :=
  if signed && (p / 2 <? v mod p) then v mod p - p else v mod p.

Theorem convert_fld_correct ps pt lt k signed v r rbits rdiv ssign rz :
  prime pt -> 2 <= k -> 1 <= lt -> 2 ^ (lt + k + 1) < pt -> 2 < ps < 2 ^ lt -> ps mod 2 = 1 -> 0 <= r ->
  Forall bit rbits -> bits_val rbits < ps -> ps <= 2 ^ Z.of_nat (length rbits) ->
  3 * Z.of_nat (length rbits) + 3 < pt ->
  0 <= rdiv < 2 ^ k -> (ssign = 1 \/ ssign = pt - 1) -> rz mod pt <> 0 ->
  (* good tape: the masked opening inside _mod does not wrap (true whenever rdiv * ps > r) *)
  (forall y, 0 <= y < ps -> 0 <= y - r + 2 ^ lt - (2 ^ lt) mod ps + ps * rdiv - bits_val rbits) ->
  convert_fld_v ps pt lt signed (v mod ps) r rbits rdiv ssign rz = (canon ps signed v) mod pt.
Proof.
  intros Hp Hk Hl Hpt Hps Hodd Hr Hb HRb Hblen Hp3 Hrd Hs Hrz Hnw. unfold convert_fld_v.
  set (offset := if signed then ps / 2 else 0).
  set (y := (v mod ps + offset + r mod ps) mod ps).
  assert (Hy : 0 <= y < ps) by (apply Z.mod_pos_bound; lia).
  assert (Ez : (y - r mod pt) mod pt = (y - r) mod pt) by apply Zminus_mod_idemp_r.
  rewrite Ez.
  assert (H2l : 2 ^ lt <= 2 ^ (lt + k + 1)) by (apply Z.pow_le_mono_r; lia).
  rewrite (mod_correct pt lt k ps (y - r)); auto; try lia; try (apply (Hnw y Hy)).
  assert (Ey : (y - r) mod ps = (v mod ps + offset) mod ps).
  { unfold y. clear. modring. }
  rewrite Ey.
  pose proof (Z.mod_pos_bound v ps ltac:(lia)) as Hv.
  assert (Hhalf : 0 <= ps / 2 /\ ps = 2 * (ps / 2) + 1).
  { pose proof (Z.div_mod ps 2 ltac:(lia)). lia. }
  unfold canon, offset. destruct signed; cbn [andb].
  - destruct (ps / 2 <? v mod ps) eqn:E; [apply Z.ltb_lt in E|apply Z.ltb_ge in E].
    + replace (v mod ps + ps / 2) with ((v mod ps + ps / 2 - ps) + 1 * ps) by ring.
      rewrite Z_mod_plus_full, (Z.mod_small (v mod ps + ps / 2 - ps)) by lia. modring.
    + rewrite (Z.mod_small (v mod ps + ps / 2)) by lia. modring.
  - rewrite Z.add_0_r, Zmod_mod. modring.
Qed.
