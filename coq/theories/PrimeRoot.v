(** Model of finfields.find_prime_root and sectypes._pfield (field selection for SecInt/SecFxp),
    over the models of the gmpy stubs in Gmpy.v, followed by the arithmetic facts behind C26.

    The primality test [gmpy2.is_prime] is a parameter [isp] (instantiated with the Miller-Rabin
    model [is_prime] for the correspondence runs); the prime searches take explicit fuel. *)
Require Import MPyC.Gmpy.
From Coq Require Import ZArith Znumtheory Lia List Bool Zpow_facts Permutation.
Import ListNotations.
Local Open Scope Z_scope.

Definition rerr {A B} (e : res A) : res B :=
  match e with Ok _ => EFuel | EValue => EValue | EZeroDiv => EZeroDiv | EAssert => EAssert | EFuel => EFuel end.

Section FPR.
  Variable isp : tape -> Z -> bool * tape.

  (** while p%4 != 3: p = gmpy2.prev_prime(p) *)
  Fixpoint blum_loop (fuel sf : nat) (tp : tape) (p : Z) : res Z * tape :=
    match fuel with
    | O => (EFuel, tp)
    | S f => if negb (p mod 4 =? 3) then
               match prev_prime_gen isp sf tp p with
               | (Ok p', tp') => blum_loop f sf tp' p'
               | (e, tp') => (e, tp')
               end
             else (Ok p, tp)
    end.

  (** a = 2; while (w := powmod(a, e, p)) == 1: a += 1 *)
  Fixpoint root_loop (fuel : nat) (a e p : Z) : res Z :=
    match fuel with
    | O => EFuel
    | S f => match powmod a e p with
             | Ok w => if w =? 1 then root_loop f (a + 1) e p else Ok w
             | err => err
             end
    end.

  (** first candidate of the n > 2 branch *)
  Definition first_candidate (l n : Z) : Z := 1 + 2 * n * (3 + 2 * (Z.shiftl 1 (l - 3) / n)).

  Definition find_prime_root_gen (fuel : nat) (tp : tape) (l : Z) (blum : bool) (n : Z)
    : res (Z * Z * Z) * tape :=
    if l <=? 2 then
      if negb blum then ((if n =? 1 then Ok (2, n, 1) else EAssert), tp)
      else (Ok (3, 2, 2), tp)
    else if n <=? 2 then
      match prev_prime_gen isp fuel tp (Z.shiftl 1 l) with
      | (Ok p, tp1) =>
          match (if blum then blum_loop fuel fuel tp1 p else (Ok p, tp1)) with
          | (Ok p, tp2) => (Ok (p, n, if n =? 2 then p - 1 else 1), tp2)
          | (e, tp2) => (rerr e, tp2)
          end
      | (e, tp1) => (rerr e, tp1)
      end
    else if negb blum then (EAssert, tp)
    else
      let '(b, tp1) := isp tp n in
      match (if negb b then next_prime_gen isp fuel tp1 n else (Ok n, tp1)) with
      | (Ok n, tp2) =>
          match search_loop isp (4 * n) fuel tp2 (first_candidate l n) with
          | (Ok p, tp3) =>
              match root_loop fuel 2 ((p - 1) / n) p with
              | Ok w => (Ok (p, n, w), tp3)
              | e => (rerr e, tp3)
              end
          | (e, tp3) => (rerr e, tp3)
          end
      | (e, tp2) => (rerr e, tp2)
      end.

  (** sectypes._pfield(l, f, p, n) with k = options.sec_param, m = len(parties), t = threshold;
      finfields.GF(p) -> pGF raises ValueError unless is_prime(p).  Returns the field modulus. *)
  Definition pfield_gen (fuel : nat) (tp : tape) (l f k : Z) (p : option Z) (n m t : Z) : res Z * tape :=
    let sel :=
      match p with
      | None => match find_prime_root_gen fuel tp (l + f + k + 2) true n with
                | (Ok (p, _, _), tp1) => (Ok p, tp1)
                | (e, tp1) => (rerr e, tp1)
                end
      | Some p => if bit_length p <=? l + f + k + 1 then (EValue, tp) else (Ok p, tp)
      end in
    match sel with
    | (Ok p, tp1) =>
        let '(b, tp2) := isp tp1 p in
        if negb b then (EValue, tp2)
        else if negb ((t =? 0) || (m <? p)) then (EAssert, tp2)
        else (Ok p, tp2)
    | (e, tp1) => (e, tp1)
    end.
End FPR.

Definition find_prime_root := find_prime_root_gen is_prime.
Definition pfield := pfield_gen is_prime.

Definition run_fpr (fuel : nat) (M seed l : Z) (blum : bool) (n : Z) :=
  used (find_prime_root fuel (gen_tape M seed (l * 1000 + n)) l blum n).
Definition run_pfield (fuel : nat) (M seed l f k : Z) (p : option Z) (n m t : Z) :=
  used (pfield fuel (gen_tape M seed (l * 1000 + f)) l f k p n m t).


(** ======================= specifications and proofs ======================= *)

Module PG.
Local Open Scope Z_scope.

(* Copied (with proofs) from /tmp/w1-gmpy/P_D.v: zprod, zprod_perm, zprod_map_mulmod, zprod_not_div,
   NoDup_map_inj_in, range1, range1_In, range1_NoDup, range1_length, small_not_div, small_div_zero,
   mod_eq_divide_sub, fermat_little, prime_div_eq, search_loop_spec, even_not_prime. *)
Module Import Aux.
Definition zprod (l : list Z) : Z := fold_right Z.mul 1 l.

Lemma zprod_perm : forall l l', Permutation l l' -> zprod l = zprod l'.
Proof.
  intros l l' H; induction H; simpl in *.
  - reflexivity.
  - rewrite IHPermutation; reflexivity.
  - ring.
  - congruence.
Qed.

Lemma zprod_map_mulmod : forall a p l, 0 < p ->
  zprod (map (fun i => (a * i) mod p) l) mod p
  = (a ^ Z.of_nat (length l) * zprod l) mod p.
Proof.
  intros a p l Hp; induction l as [|x l IH]; simpl zprod; simpl length.
  - reflexivity.
  - simpl map. simpl fold_right.
    fold (zprod (map (fun i => (a * i) mod p) l)).
    fold (zprod l).
    rewrite Zmult_mod_idemp_l.
    rewrite <- Zmult_mod_idemp_r.
    rewrite IH.
    rewrite Zmult_mod_idemp_r.
    f_equal.
    rewrite Nat2Z.inj_succ, Z.pow_succ_r by lia.
    ring.
Qed.

Lemma zprod_not_div : forall p l, prime p ->
  (forall x, In x l -> ~ (p | x)) -> ~ (p | zprod l).
Proof.
  intros p l Hpr; induction l as [|x l IH]; intros Hall Hd; simpl in Hd.
  - pose proof (prime_ge_2 p Hpr) as Hp2.
    apply Z.divide_pos_le in Hd; lia.
  - fold (zprod l) in Hd.
    apply prime_mult in Hd; [|assumption].
    destruct Hd as [Hd|Hd].
    + apply (Hall x); [left; reflexivity | assumption].
    + apply IH; [|assumption].
      intros y Hy; apply Hall; right; assumption.
Qed.

Lemma NoDup_map_inj_in : forall (A B : Type) (f : A -> B) (l : list A),
  (forall x y, In x l -> In y l -> f x = f y -> x = y) ->
  NoDup l -> NoDup (map f l).
Proof.
  intros A B f l; induction l as [|x l IH]; intros Hinj Hnd; simpl.
  - constructor.
  - inversion Hnd as [|x' l' Hnotin Hnd']; subst.
    constructor.
    + intro Hin. apply in_map_iff in Hin.
      destruct Hin as [y [Hfy Hy]].
      assert (y = x) as Heq.
      { apply Hinj; [right; assumption | left; reflexivity | assumption]. }
      subst y. contradiction.
    + apply IH; [|assumption].
      intros a b Ha Hb; apply Hinj; right; assumption.
Qed.

(* ------------------------------------------------------------------ *)
(* The list 1 .. p-1                                                   *)
(* ------------------------------------------------------------------ *)

Definition range1 (p : Z) : list Z := map Z.of_nat (seq 1 (Z.to_nat (p - 1))).

Lemma range1_In : forall p x, 1 <= p -> (In x (range1 p) <-> 1 <= x < p).
Proof.
  intros p x Hp; unfold range1; rewrite in_map_iff; split.
  - intros [k [Hk Hin]]. apply in_seq in Hin. lia.
  - intros Hx. exists (Z.to_nat x). split; [lia|].
    apply in_seq. lia.
Qed.

Lemma range1_NoDup : forall p, NoDup (range1 p).
Proof.
  intros p; unfold range1.
  apply NoDup_map_inj_in.
  - intros x y _ _ H. apply Nat2Z.inj; assumption.
  - apply seq_NoDup.
Qed.

Lemma range1_length : forall p, 1 <= p -> Z.of_nat (length (range1 p)) = p - 1.
Proof.
  intros p Hp; unfold range1. rewrite map_length, seq_length. lia.
Qed.

(* ------------------------------------------------------------------ *)
(* Small divisibility facts                                            *)
(* ------------------------------------------------------------------ *)

Lemma small_not_div : forall p x, 1 <= x < p -> ~ (p | x).
Proof.
  intros p x Hx Hd. apply Z.divide_pos_le in Hd; lia.
Qed.

Lemma small_div_zero : forall p d, 0 < p -> - p < d < p -> (p | d) -> d = 0.
Proof.
  intros p d Hp Hd [k Hk].
  assert (k = 0) as Hk0.
  { destruct (Z_lt_le_dec k 0) as [Hneg|Hnn].
    - assert (k * p <= -1 * p) by (apply Z.mul_le_mono_nonneg_r; lia). lia.
    - destruct (Z_lt_le_dec 0 k) as [Hpos|Hz]; [|lia].
      assert (1 * p <= k * p) by (apply Z.mul_le_mono_nonneg_r; lia). lia. }
  subst k. lia.
Qed.

Lemma mod_eq_divide_sub : forall p x y, 0 < p -> x mod p = y mod p -> (p | x - y).
Proof.
  intros p x y Hp H.
  apply Zmod_divide; [lia|].
  rewrite Zminus_mod, H, Z.sub_diag. apply Zmod_0_l.
Qed.

(* ------------------------------------------------------------------ *)
(* Fermat's little theorem                                             *)
(* ------------------------------------------------------------------ *)

Theorem fermat_little : forall p a : Z,
  prime p -> ~ (p | a) -> a ^ (p - 1) mod p = 1.
Proof.
  intros p a Hpr Hna.
  pose proof (prime_ge_2 p Hpr) as Hp2.
  set (L := range1 p).
  set (f := fun i => (a * i) mod p).
  (* f maps L into L *)
  assert (Hincl : incl (map f L) L).
  { intros y Hy. apply in_map_iff in Hy. destruct Hy as [i [Hfi Hi]].
    apply range1_In in Hi; [|lia].
    apply range1_In; [lia|].
    subst y; unfold f.
    pose proof (Z.mod_pos_bound (a * i) p ltac:(lia)) as Hb.
    assert ((a * i) mod p <> 0) as Hnz.
    { intro H0. apply Zmod_divide in H0; [|lia].
      apply prime_mult in H0; [|assumption].
      destruct H0 as [H0|H0]; [contradiction|].
      revert H0. apply small_not_div; lia. }
    lia. }
  (* f is injective on L *)
  assert (Hnd : NoDup (map f L)).
  { apply NoDup_map_inj_in; [|apply range1_NoDup].
    intros i j Hi Hj Hij.
    apply range1_In in Hi; [|lia].
    apply range1_In in Hj; [|lia].
    unfold f in Hij.
    apply mod_eq_divide_sub in Hij; [|lia].
    replace (a * i - a * j) with (a * (i - j)) in Hij by ring.
    apply prime_mult in Hij; [|assumption].
    destruct Hij as [Hij|Hij]; [contradiction|].
    apply small_div_zero in Hij; lia. }
  assert (Hperm : Permutation (map f L) L).
  { apply NoDup_Permutation_bis.
    - assumption.
    - rewrite map_length. apply Nat.le_refl.
    - assumption. }
  apply zprod_perm in Hperm.
  pose proof (zprod_map_mulmod a p L ltac:(lia)) as Hmul.
  fold f in Hmul.
  rewrite Hperm in Hmul.
  unfold L in Hmul at 2. rewrite range1_length in Hmul by lia.
  fold L in Hmul.
  (* p | (a^(p-1) - 1) * prod L *)
  symmetry in Hmul.
  apply mod_eq_divide_sub in Hmul; [|lia].
  replace (a ^ (p - 1) * zprod L - zprod L)
    with ((a ^ (p - 1) - 1) * zprod L) in Hmul by ring.
  apply prime_mult in Hmul; [|assumption].
  destruct Hmul as [Hd|Hd].
  - apply Zdivide_mod_minus; [lia | assumption].
  - exfalso. revert Hd. apply zprod_not_div; [assumption|].
    intros x Hx. apply range1_In in Hx; [|lia].
    apply small_not_div; assumption.
Qed.

Lemma prime_div_eq : forall x p, prime x -> 1 < p -> (p | x) -> p = x.
Proof.
  intros x p Hx Hp Hd.
  pose proof (prime_ge_2 x Hx) as Hx2.
  destruct (prime_divisors x Hx p Hd) as [H | [H | [H | H]]]; lia.
Qed.

Theorem search_loop_spec : forall (isp : tape -> Z -> bool * tape) step fuel tp c p tp',
  search_loop isp step fuel tp c = (Ok p, tp') ->
  exists k, 0 <= k /\ p = c + step * k /\ (exists t, isp t p = (true, tp')) /\
            forall i, 0 <= i < k -> exists t, fst (isp t (c + step * i)) = false.
Proof.
  intros isp step. induction fuel as [|f IH]; intros tp c p tp' H; cbn [search_loop] in H.
  - discriminate.
  - destruct (isp tp c) as [b t1] eqn:E. destruct b.
    + inversion H; subst. exists 0. split; [lia|]. split; [lia|].
      split; [exists tp; exact E|]. intros i Hi. lia.
    + destruct (IH t1 (c + step) p tp' H) as [k [Hk [Hp [Hacc Hrej]]]].
      exists (k + 1). split; [lia|]. split; [rewrite Hp; ring|].
      split; [exact Hacc|].
      intros i Hi. destruct (Z.eq_dec i 0) as [Hi0 | Hi0].
      * subst i. exists tp. replace (c + step * 0) with c by ring. rewrite E. reflexivity.
      * destruct (Hrej (i - 1) ltac:(lia)) as [t Ht]. exists t.
        replace (c + step * i) with (c + step + step * (i - 1)) by ring. exact Ht.
Qed.

Lemma even_not_prime : forall q, 2 < q -> q mod 2 = 0 -> ~ prime q.
Proof.
  intros q Hq Hm Hp. apply Zmod_divide in Hm; [|lia].
  pose proof (prime_div_eq q 2 Hp ltac:(lia) Hm). lia.
Qed.
End Aux.

(* ================================================================== *)
(* arithmetic of the candidate sequence                                *)
(* ================================================================== *)

Lemma shiftl1 : forall m, 0 <= m -> Z.shiftl 1 m = 2 ^ m.
Proof. intros m Hm. rewrite Z.shiftl_mul_pow2 by lia. apply Z.mul_1_l. Qed.

Theorem candidate_big : forall l n k, 3 <= l -> 0 < n -> 0 <= k -> 2 ^ (l - 1) < first_candidate l n + 4 * n * k.
Proof.
  intros l n k Hl Hn Hk. unfold first_candidate. rewrite shiftl1 by lia.
  replace (l - 1) with (2 + (l - 3)) by lia. rewrite Z.pow_add_r by lia.
  change (2 ^ 2) with 4.
  set (P := 2 ^ (l - 3)).
  pose proof (Z.mul_succ_div_gt P n Hn) as H.
  set (q := P / n) in *.
  assert (Hnk : 0 <= n * k) by (apply Z.mul_nonneg_nonneg; lia).
  assert (Hs : n * Z.succ q = n * q + n) by ring.
  rewrite Hs in H.
  replace (1 + 2 * n * (3 + 2 * q) + 4 * n * k) with (1 + 6 * n + 4 * (n * q) + 4 * (n * k)) by ring.
  lia.
Qed.

Theorem candidate_blum : forall l n k, Z.odd n = true -> (first_candidate l n + 4 * n * k) mod 4 = 3.
Proof.
  intros l n k Hodd. unfold first_candidate.
  set (q := Z.shiftl 1 (l - 3) / n).
  apply Z.odd_spec in Hodd. destruct Hodd as [a Ha].
  replace (1 + 2 * n * (3 + 2 * q) + 4 * n * k) with (3 + (1 + 3 * a + n * q + n * k) * 4)
    by (rewrite Ha; ring).
  rewrite Z.mod_add by lia. reflexivity.
Qed.

Theorem candidate_div : forall l n k, (n | first_candidate l n + 4 * n * k - 1).
Proof.
  intros l n k. unfold first_candidate.
  exists (2 * (3 + 2 * (Z.shiftl 1 (l - 3) / n)) + 4 * k). ring.
Qed.

Lemma bit_length_pos : forall p, 0 < p -> bit_length p = Z.log2 p + 1.
Proof.
  intros p Hp. unfold bit_length.
  destruct (p =? 0) eqn:E; [apply Z.eqb_eq in E; lia|].
  rewrite Z.abs_eq by lia. reflexivity.
Qed.

Theorem bit_length_ge : forall p l, 0 < l -> 2 ^ (l - 1) <= p -> l <= bit_length p.
Proof.
  intros p l Hl H.
  assert (Hpos : 0 < 2 ^ (l - 1)) by (apply Z.pow_pos_nonneg; lia).
  assert (Hp : 0 < p) by lia.
  rewrite bit_length_pos by exact Hp.
  apply Z.log2_le_pow2 in H; [lia | exact Hp].
Qed.

Theorem bit_length_gt : forall p L, 0 < p -> 0 <= L -> L < bit_length p -> 2 ^ L <= p.
Proof.
  intros p L Hp HL H. rewrite bit_length_pos in H by exact Hp.
  apply Z.log2_le_pow2; [exact Hp | lia].
Qed.

(* ================================================================== *)
(* order of the root                                                   *)
(* ================================================================== *)

Lemma pow_one_mod : forall x c p, 1 < p -> 0 <= c -> x mod p = 1 -> x ^ c mod p = 1.
Proof.
  intros x c p Hp Hc Hx. rewrite Zpower_mod by lia. rewrite Hx.
  rewrite Z.pow_1_l by exact Hc. apply Z.mod_small. lia.
Qed.

Theorem order_prime : forall p w n, 1 < p -> prime n -> w ^ n mod p = 1 -> w mod p <> 1 ->
  forall k, 0 < k < n -> w ^ k mod p <> 1.
Proof.
  intros p w n Hp Hn Hwn Hw k Hk Hwk.
  pose proof (prime_ge_2 n Hn) as Hn2.
  assert (Hrp : rel_prime k n).
  { destruct Hn as [_ Hn]. apply Hn. lia. }
  destruct (rel_prime_bezout k n Hrp) as [u v Huv].
  pose proof (Z.mod_pos_bound u n ltac:(lia)) as Hu'.
  pose proof (Z.div_mod u n ltac:(lia)) as Hdm.
  remember (u mod n) as u' eqn:Eu'. remember (u / n) as d eqn:Ed.
  assert (Hlin : u' * k = 1 + (- (v + d * k)) * n).
  { rewrite Hdm in Huv. lia. }
  assert (Hmod : (u' * k) mod n = 1).
  { rewrite Hlin. rewrite Z.mod_add by lia. apply Z.mod_small. lia. }
  pose proof (Z.div_mod (u' * k) n ltac:(lia)) as Hdm2.
  rewrite Hmod in Hdm2.
  assert (Hc : 0 <= (u' * k) / n) by (apply Z.div_pos; [apply Z.mul_nonneg_nonneg; lia | lia]).
  remember ((u' * k) / n) as c eqn:Ec.
  (* w^(u'*k) = 1 mod p *)
  assert (H1 : w ^ (u' * k) mod p = 1).
  { rewrite (Z.mul_comm u' k). rewrite Z.pow_mul_r by lia.
    apply pow_one_mod; [exact Hp | lia | exact Hwk]. }
  (* w^(n*c+1) = w mod p *)
  assert (H2 : w ^ (n * c + 1) mod p = w mod p).
  { rewrite Z.pow_add_r by (try apply Z.mul_nonneg_nonneg; lia).
    rewrite Z.pow_1_r. rewrite Z.pow_mul_r by lia.
    rewrite Z.mul_mod by lia.
    rewrite (pow_one_mod (w ^ n) c p Hp Hc Hwn).
    rewrite Z.mul_1_l. apply Z.mod_mod. lia. }
  rewrite Hdm2 in H1. rewrite H2 in H1. contradiction.
Qed.

Theorem root_pow : forall p n a, prime p -> 0 < n -> (n | p - 1) -> ~ (p | a) ->
  (a ^ ((p - 1) / n) mod p) ^ n mod p = 1.
Proof.
  intros p n a Hp Hn Hd Ha. pose proof (prime_ge_2 p Hp) as Hp2.
  assert (He : 0 <= (p - 1) / n) by (apply Z.div_pos; lia).
  rewrite <- Zpower_mod by lia.
  rewrite <- Z.pow_mul_r by lia.
  replace ((p - 1) / n * n) with (p - 1).
  - apply fermat_little; assumption.
  - destruct Hd as [c Hc]. rewrite Hc. rewrite Z.div_mul by lia. reflexivity.
Qed.

Theorem root_loop_spec : forall fuel a0 e p w, p <> 0 -> 0 <= e -> root_loop fuel a0 e p = Ok w ->
  exists a, a0 <= a /\ w = a ^ e mod p /\ w <> 1.
Proof.
  induction fuel as [|f IH]; intros a0 e p w Hp He H; cbn [root_loop] in H.
  - discriminate.
  - rewrite powmod_spec in H by assumption.
    destruct (a0 ^ e mod p =? 1) eqn:E.
    + destruct (IH (a0 + 1) e p w Hp He H) as [a [Ha [Hw Hw1]]].
      exists a. split; [lia|]. split; assumption.
    + apply Z.eqb_neq in E. injection H as Hw.
      exists a0. split; [lia|]. split; [symmetry; exact Hw|]. rewrite <- Hw. exact E.
Qed.

(* ================================================================== *)
(* the n > 2 branch                                                    *)
(* ================================================================== *)

Lemma prime_odd : forall q, prime q -> 2 < q -> Z.odd q = true.
Proof.
  intros q Hq H2. destruct (Z.odd q) eqn:E; [reflexivity|].
  exfalso. apply (even_not_prime q); [lia| |exact Hq].
  rewrite Zmod_odd. rewrite E. reflexivity.
Qed.

Theorem find_prime_root_big_n : forall (isp : tape -> Z -> bool * tape),
  (forall tp z, fst (isp tp z) = true -> prime z) ->
  forall fuel tp l blum n p n' w tp', 2 < l -> 2 < n ->
    find_prime_root_gen isp fuel tp l blum n = (Ok (p, n', w), tp') ->
    blum = true /\ prime p /\ prime n' /\ n <= n' /\ 2 ^ (l - 1) < p /\ l <= bit_length p /\ p mod 4 = 3 /\ (n' | p - 1) /\
    0 <= w < p /\ w <> 1 /\
    exists a, 2 <= a /\ w = a ^ ((p - 1) / n') mod p /\
      (~ (p | a) -> w ^ n' mod p = 1 /\ forall k, 0 < k < n' -> w ^ k mod p <> 1).
Proof.
  intros isp Hor fuel tp l blum n p n' w tp' Hl Hn H.
  unfold find_prime_root_gen in H.
  destruct (l <=? 2) eqn:El; [apply Z.leb_le in El; lia|].
  destruct (n <=? 2) eqn:En; [apply Z.leb_le in En; lia|].
  destruct blum; cbn [negb] in H; [|discriminate].
  split; [reflexivity|].
  destruct (isp tp n) as [b tp1] eqn:Eb.
  destruct (if negb b then next_prime_gen isp fuel tp1 n else (Ok n, tp1)) as [r1 tp2] eqn:En1.
  destruct r1 as [n1| | | |]; try (cbn in H; discriminate).
  assert (Hn1 : prime n1 /\ n <= n1).
  { destruct b; cbn [negb] in En1.
    - injection En1 as En1a En1b. subst n1.
      split; [|lia]. apply (Hor tp n). rewrite Eb. reflexivity.
    - unfold next_prime_gen in En1.
      destruct (n <=? 1) eqn:E1; [apply Z.leb_le in E1; lia|].
      destruct (search_loop_spec isp 2 fuel tp1 _ n1 tp2 En1) as [k0 [Hk0 [Hp0 [[t Hacc] _]]]].
      split.
      + apply (Hor t n1). rewrite Hacc. reflexivity.
      + pose proof (Z.mod_pos_bound n 2 ltac:(lia)). lia. }
  destruct Hn1 as [Hn1p Hn1n].
  destruct (search_loop isp (4 * n1) fuel tp2 (first_candidate l n1)) as [r2 tp3] eqn:Ep.
  destruct r2 as [p1| | | |]; try (cbn in H; discriminate).
  destruct (root_loop fuel 2 ((p1 - 1) / n1) p1) as [w1| | | |] eqn:Ew; try (cbn in H; discriminate).
  injection H as Hpe Hne Hwe Htpe. subst p1 n1 w1.
  destruct (search_loop_spec isp (4 * n') fuel tp2 _ p tp3 Ep) as [k [Hk [Hp [[t Hacc] _]]]].
  assert (Hpp : prime p) by (apply (Hor t p); rewrite Hacc; reflexivity).
  pose proof (prime_ge_2 p Hpp) as Hp2.
  assert (Hodd : Z.odd n' = true) by (apply prime_odd; [exact Hn1p | lia]).
  assert (Hbig : 2 ^ (l - 1) < p) by (rewrite Hp; apply candidate_big; lia).
  assert (Hblum : p mod 4 = 3) by (rewrite Hp; apply candidate_blum; exact Hodd).
  assert (Hdiv : (n' | p - 1)) by (rewrite Hp; apply candidate_div).
  assert (Hbl : l <= bit_length p) by (apply bit_length_ge; lia).
  assert (He : 0 <= (p - 1) / n') by (apply Z.div_pos; lia).
  destruct (root_loop_spec fuel 2 _ p w ltac:(lia) He Ew) as [a [Ha [Hw Hw1]]].
  assert (Hwb : 0 <= w < p) by (rewrite Hw; apply Z.mod_pos_bound; lia).
  split; [exact Hpp|]. split; [exact Hn1p|]. split; [exact Hn1n|].
  split; [exact Hbig|]. split; [exact Hbl|]. split; [exact Hblum|]. split; [exact Hdiv|].
  split; [exact Hwb|]. split; [exact Hw1|].
  exists a. split; [exact Ha|]. split; [exact Hw|].
  intros Hna.
  assert (Hwn : w ^ n' mod p = 1).
  { rewrite Hw. apply root_pow; [exact Hpp | lia | exact Hdiv | exact Hna]. }
  split; [exact Hwn|].
  apply (order_prime p w n'); [lia | exact Hn1p | exact Hwn |].
  rewrite Z.mod_small by exact Hwb. exact Hw1.
Qed.

Theorem find_prime_root_noblum_assert : forall isp fuel tp l n, 2 < l -> 2 < n ->
  fst (find_prime_root_gen isp fuel tp l false n) = EAssert.
Proof.
  intros isp fuel tp l n Hl Hn. unfold find_prime_root_gen.
  destruct (l <=? 2) eqn:El; [apply Z.leb_le in El; lia|].
  destruct (n <=? 2) eqn:En; [apply Z.leb_le in En; lia|].
  reflexivity.
Qed.

(* ================================================================== *)
(* _pfield                                                             *)
(* ================================================================== *)

Theorem pfield_user_modulus : forall (isp : tape -> Z -> bool * tape),
  (forall tp z, fst (isp tp z) = true -> prime z) ->
  forall fuel tp l f k p0 n m t p tp', 0 <= l + f + k + 1 ->
    pfield_gen isp fuel tp l f k (Some p0) n m t = (Ok p, tp') ->
    p = p0 /\ prime p /\ 2 ^ (l + f + k + 1) <= p /\ (1 <= l + f + k -> 2 ^ (l + f + k + 1) < p) /\ (t = 0 \/ m < p).
Proof.
  intros isp Hor fuel tp l f k p0 n m t p tp' HL H.
  unfold pfield_gen in H.
  destruct (bit_length p0 <=? l + f + k + 1) eqn:Eb; cbv beta iota zeta in H; [discriminate|].
  apply Z.leb_gt in Eb.
  destruct (isp tp p0) as [b tp2] eqn:Ei.
  destruct b; cbn [negb] in H; [|discriminate].
  destruct ((t =? 0) || (m <? p0)) eqn:Et; cbn [negb] in H; [|discriminate].
  injection H as Hp Htp. subst p0.
  assert (Hpp : prime p) by (apply (Hor tp p); rewrite Ei; reflexivity).
  pose proof (prime_ge_2 p Hpp) as Hp2.
  assert (Hle : 2 ^ (l + f + k + 1) <= p) by (apply bit_length_gt; lia).
  split; [reflexivity|]. split; [exact Hpp|]. split; [exact Hle|]. split.
  - intros H1.
    destruct (Z.eq_dec (2 ^ (l + f + k + 1)) p) as [Heq | Hneq]; [|lia].
    exfalso.
    replace (l + f + k + 1) with (1 + (1 + (l + f + k - 1))) in Heq by lia.
    rewrite Z.pow_add_r in Heq by lia. rewrite Z.pow_1_r in Heq.
    rewrite Z.pow_add_r in Heq by lia. rewrite Z.pow_1_r in Heq.
    assert (Hpos : 0 < 2 ^ (l + f + k - 1)) by (apply Z.pow_pos_nonneg; lia).
    apply (even_not_prime p); [lia | | exact Hpp].
    rewrite <- Heq. rewrite Z.mul_comm. apply Z.mod_mul. lia.
  - apply orb_true_iff in Et. destruct Et as [Et | Et].
    + left. apply Z.eqb_eq. exact Et.
    + right. apply Z.ltb_lt. exact Et.
Qed.

Theorem pfield_small_refused : forall isp fuel tp l f k p0 n m t,
  bit_length p0 <= l + f + k + 1 -> fst (pfield_gen isp fuel tp l f k (Some p0) n m t) = EValue.
Proof.
  intros isp fuel tp l f k p0 n m t H. unfold pfield_gen.
  apply Z.leb_le in H. rewrite H. reflexivity.
Qed.

Theorem pfield_parties_refused : forall isp fuel tp l f k p n m t r tp',
  pfield_gen isp fuel tp l f k p n m t = (r, tp') -> t <> 0 -> (forall q, r = Ok q -> m < q).
Proof.
  intros isp fuel tp l f k p n m t r tp' H Ht q Hq. subst r.
  unfold pfield_gen in H. cbv zeta in H.
  match type of H with
  | (match ?s with pair _ _ => _ end) = _ => destruct s as [r1 tp1] eqn:Es
  end.
  destruct r1 as [z| | | |]; try discriminate.
  destruct (isp tp1 z) as [b tp2] eqn:Ei.
  destruct b; cbn [negb] in H; [|discriminate].
  destruct ((t =? 0) || (m <? z)) eqn:Et; cbn [negb] in H; [|discriminate].
  injection H as Hz Htp. subst z.
  apply orb_true_iff in Et. destruct Et as [Et | Et].
  - apply Z.eqb_eq in Et. contradiction.
  - apply Z.ltb_lt. exact Et.
Qed.


End PG.

Definition candidate_big := PG.candidate_big.
Definition candidate_blum := PG.candidate_blum.
Definition candidate_div := PG.candidate_div.
Definition bit_length_ge := PG.bit_length_ge.
Definition bit_length_gt := PG.bit_length_gt.
Definition order_prime := PG.order_prime.
Definition root_pow := PG.root_pow.
Definition root_loop_spec := PG.root_loop_spec.
Definition find_prime_root_big_n := PG.find_prime_root_big_n.
Definition find_prime_root_noblum_assert := PG.find_prime_root_noblum_assert.
Definition pfield_user_modulus := PG.pfield_user_modulus.
Definition pfield_small_refused := PG.pfield_small_refused.
Definition pfield_parties_refused := PG.pfield_parties_refused.

Module PF.
Local Open Scope Z_scope.

(* ================================================================== *)
(* Lemmas copied verbatim from /tmp/w1-gmpy/P_D.v                      *)
(* ================================================================== *)
Module Import Aux.

Lemma prime_div_eq : forall x p, prime x -> 1 < p -> (p | x) -> p = x.
Proof.
  intros x p Hx Hp Hd.
  pose proof (prime_ge_2 x Hx) as Hx2.
  destruct (prime_divisors x Hx p Hd) as [H | [H | [H | H]]]; lia.
Qed.

Theorem search_loop_spec : forall (isp : tape -> Z -> bool * tape) step fuel tp c p tp',
  search_loop isp step fuel tp c = (Ok p, tp') ->
  exists k, 0 <= k /\ p = c + step * k /\ (exists t, isp t p = (true, tp')) /\
            forall i, 0 <= i < k -> exists t, fst (isp t (c + step * i)) = false.
Proof.
  intros isp step. induction fuel as [|f IH]; intros tp c p tp' H; cbn [search_loop] in H.
  - discriminate.
  - destruct (isp tp c) as [b t1] eqn:E. destruct b.
    + inversion H; subst. exists 0. split; [lia|]. split; [lia|].
      split; [exists tp; exact E|]. intros i Hi. lia.
    + destruct (IH t1 (c + step) p tp' H) as [k [Hk [Hp [Hacc Hrej]]]].
      exists (k + 1). split; [lia|]. split; [rewrite Hp; ring|].
      split; [exact Hacc|].
      intros i Hi. destruct (Z.eq_dec i 0) as [Hi0 | Hi0].
      * subst i. exists tp. replace (c + step * 0) with c by ring. rewrite E. reflexivity.
      * destruct (Hrej (i - 1) ltac:(lia)) as [t Ht]. exists t.
        replace (c + step * i) with (c + step + step * (i - 1)) by ring. exact Ht.
Qed.

Lemma even_not_prime : forall q, 2 < q -> q mod 2 = 0 -> ~ prime q.
Proof.
  intros q Hq Hm Hp. apply Zmod_divide in Hm; [|lia].
  pose proof (prime_div_eq q 2 Hp ltac:(lia) Hm). lia.
Qed.

Theorem next_prime_spec : forall (isp : tape -> Z -> bool * tape),
  (forall tp z, fst (isp tp z) = true <-> prime z) ->
  forall fuel tp x p tp', next_prime_gen isp fuel tp x = (Ok p, tp') ->
    prime p /\ x < p /\ forall q, x < q < p -> ~ prime q.
Proof.
  intros isp Hor fuel tp x p tp' H. unfold next_prime_gen in H.
  destruct (x <=? 1) eqn:E.
  - apply Z.leb_le in E. inversion H; subst.
    split; [exact prime_2|]. split; [lia|].
    intros q Hq Hp. pose proof (prime_ge_2 q Hp). lia.
  - apply Z.leb_gt in E.
    destruct (search_loop_spec isp 2 fuel tp _ p tp' H) as [k [Hk [Hp [[t Hacc] Hrej]]]].
    pose proof (Z.mod_pos_bound x 2 ltac:(lia)) as Hm.
    set (c0 := x + (1 + x mod 2)) in *.
    assert (Hpp : prime p).
    { apply (Hor t p). rewrite Hacc. reflexivity. }
    split; [exact Hpp|]. split; [unfold c0 in Hp; lia|].
    intros q Hq Hqp.
    pose proof (Z.mod_pos_bound q 2 ltac:(lia)) as Hqm.
    destruct (Z.eq_dec (q mod 2) 0) as [Hq0 | Hq0].
    + apply (even_not_prime q); [lia|exact Hq0|exact Hqp].
    + set (i := (q - c0) / 2).
      assert (Hi : q = c0 + 2 * i /\ 0 <= i < k).
      { unfold i, c0 in *. clear Hrej Hacc H Hpp Hqp. Z.div_mod_to_equations. lia. }
      destruct Hi as [Hqi Hik].
      destruct (Hrej i Hik) as [t2 Ht2]. rewrite <- Hqi in Ht2.
      apply (Hor t2 q) in Hqp. rewrite Hqp in Ht2. discriminate.
Qed.

Theorem prev_prime_spec : forall (isp : tape -> Z -> bool * tape),
  (forall tp z, fst (isp tp z) = true <-> prime z) ->
  forall fuel tp x p tp', prev_prime_gen isp fuel tp x = (Ok p, tp') ->
    prime p /\ p < x /\ forall q, p < q < x -> ~ prime q.
Proof.
  intros isp Hor fuel tp x p tp' H. unfold prev_prime_gen in H.
  destruct (x <? 3) eqn:E; [discriminate|].
  apply Z.ltb_ge in E.
  destruct (x =? 3) eqn:E3.
  - apply Z.eqb_eq in E3. inversion H; subst.
    split; [exact prime_2|]. split; [lia|]. intros q Hq. lia.
  - apply Z.eqb_neq in E3.
    destruct (search_loop_spec isp (-2) fuel tp _ p tp' H) as [k [Hk [Hp [[t Hacc] Hrej]]]].
    pose proof (Z.mod_pos_bound x 2 ltac:(lia)) as Hm.
    set (c0 := x - (1 + x mod 2)) in *.
    assert (Hpp : prime p).
    { apply (Hor t p). rewrite Hacc. reflexivity. }
    pose proof (prime_ge_2 p Hpp) as Hp2.
    split; [exact Hpp|]. split; [unfold c0 in Hp; lia|].
    intros q Hq Hqp.
    pose proof (Z.mod_pos_bound q 2 ltac:(lia)) as Hqm.
    destruct (Z.eq_dec (q mod 2) 0) as [Hq0 | Hq0].
    + apply (even_not_prime q); [lia|exact Hq0|exact Hqp].
    + set (i := (c0 - q) / 2).
      assert (Hi : q = c0 + -2 * i /\ 0 <= i < k).
      { unfold i, c0 in *. clear Hrej Hacc H Hpp Hqp. Z.div_mod_to_equations. lia. }
      destruct Hi as [Hqi Hik].
      destruct (Hrej i Hik) as [t2 Ht2]. rewrite <- Hqi in Ht2.
      apply (Hor t2 q) in Hqp. rewrite Hqp in Ht2. discriminate.
Qed.

End Aux.

(* ================================================================== *)
(* find_prime_root: the l <= 2 branch                                  *)
(* ================================================================== *)

Theorem find_prime_root_tiny : forall isp fuel tp l blum n r tp', l <= 2 ->
  find_prime_root_gen isp fuel tp l blum n = (r, tp') ->
  tp' = tp /\ (blum = true -> r = Ok (3, 2, 2)) /\ (blum = false -> n = 1 -> r = Ok (2, 1, 1)) /\ (blum = false -> n <> 1 -> r = EAssert).
Proof.
  intros isp fuel tp l blum n r tp' Hl H. unfold find_prime_root_gen in H.
  destruct (l <=? 2) eqn:E; [|apply Z.leb_gt in E; lia].
  destruct blum; cbn [negb] in H.
  - inversion H; subst. split; [reflexivity|].
    split; [intros _; reflexivity|]. split; intros Hb; discriminate.
  - destruct (n =? 1) eqn:En.
    + apply Z.eqb_eq in En. subst n. inversion H; subst.
      split; [reflexivity|]. split; [intros Hb; discriminate|].
      split; [intros _ _; reflexivity|]. intros _ Hn. exfalso. apply Hn. reflexivity.
    + apply Z.eqb_neq in En. inversion H; subst.
      split; [reflexivity|]. split; [intros Hb; discriminate|].
      split; [intros _ Hn; contradiction|]. intros _ _. reflexivity.
Qed.

(* ================================================================== *)
(* w = p - 1 has order 2                                               *)
(* ================================================================== *)

Theorem minus_one_order_2 : forall p, 2 < p -> (p - 1) ^ 2 mod p = 1 /\ (p - 1) mod p <> 1.
Proof.
  intros p Hp. split.
  - rewrite Z.pow_2_r.
    replace ((p - 1) * (p - 1)) with (1 + (p - 2) * p) by ring.
    rewrite Z.mod_add by lia. apply Z.mod_small. lia.
  - rewrite Z.mod_small by lia. lia.
Qed.

(* ================================================================== *)
(* the Blum loop                                                       *)
(* ================================================================== *)

Theorem blum_loop_spec : forall (isp : tape -> Z -> bool * tape),
  (forall tp z, fst (isp tp z) = true <-> prime z) ->
  forall fuel sf tp p0 p tp', prime p0 -> blum_loop isp fuel sf tp p0 = (Ok p, tp') ->
    prime p /\ p mod 4 = 3 /\ p <= p0 /\ forall q, p < q <= p0 -> prime q -> q mod 4 <> 3.
Proof.
  intros isp Hor. induction fuel as [|f IH]; intros sf tp p0 p tp' Hp0 H; cbn [blum_loop] in H.
  - discriminate.
  - destruct (p0 mod 4 =? 3) eqn:E; cbn [negb] in H.
    + apply Z.eqb_eq in E. inversion H; subst.
      split; [exact Hp0|]. split; [exact E|]. split; [lia|]. intros q Hq. lia.
    + apply Z.eqb_neq in E.
      destruct (prev_prime_gen isp sf tp p0) as [r tp1] eqn:Epp.
      destruct r as [p1| | | |]; try discriminate.
      destruct (prev_prime_spec isp Hor sf tp p0 p1 tp1 Epp) as [Hp1 [Hlt Hno]].
      destruct (IH sf tp1 p1 p tp' Hp1 H) as [Hp [Hm [Hle Hmax]]].
      split; [exact Hp|]. split; [exact Hm|]. split; [lia|].
      intros q Hq Hqp.
      destruct (Z.eq_dec q p0) as [Hq0 | Hq0]; [subst q; exact E|].
      destruct (Z_lt_le_dec p1 q) as [Hq1 | Hq1].
      * exfalso. apply (Hno q); [lia|exact Hqp].
      * apply Hmax; [lia|exact Hqp].
Qed.

(* ================================================================== *)
(* find_prime_root: the n <= 2 branch                                  *)
(* ================================================================== *)

Lemma rerr_not_ok : forall (A B : Type) (e : res A) (v : B), rerr e = Ok v -> False.
Proof. intros A B e v H. destruct e; cbn [rerr] in H; discriminate. Qed.

Lemma bit_length_exact : forall p l, 0 < l -> 2 ^ (l - 1) <= p < 2 ^ l -> bit_length p = l.
Proof.
  intros p l Hl Hp.
  assert (Hpos : 0 < 2 ^ (l - 1)) by (apply Z.pow_pos_nonneg; lia).
  unfold bit_length.
  destruct (p =? 0) eqn:E; [apply Z.eqb_eq in E; lia|].
  rewrite Z.abs_eq by lia.
  rewrite (Z.log2_unique p (l - 1)); [lia|lia|].
  replace (Z.succ (l - 1)) with l by lia. exact Hp.
Qed.

Theorem find_prime_root_small_n : forall (isp : tape -> Z -> bool * tape),
  (forall tp z, fst (isp tp z) = true <-> prime z) ->
  forall fuel tp l blum n p n' w tp', 2 < l -> n <= 2 ->
    find_prime_root_gen isp fuel tp l blum n = (Ok (p, n', w), tp') ->
    n' = n /\ prime p /\ p < 2 ^ l /\ (blum = true -> p mod 4 = 3) /\
    (forall q, p < q < 2 ^ l -> prime q -> (blum = true -> q mod 4 = 3) -> False) /\
    w = (if n =? 2 then p - 1 else 1) /\
    ((exists q, prime q /\ (blum = true -> q mod 4 = 3) /\ 2 ^ (l - 1) <= q < 2 ^ l) -> bit_length p = l).
Proof.
  intros isp Hor fuel tp l blum n p n' w tp' Hl Hn H.
  unfold find_prime_root_gen in H.
  destruct (l <=? 2) eqn:El; [apply Z.leb_le in El; lia|].
  destruct (n <=? 2) eqn:En; [|apply Z.leb_gt in En; lia].
  rewrite Z.shiftl_mul_pow2 in H by lia. rewrite Z.mul_1_l in H.
  destruct (prev_prime_gen isp fuel tp (2 ^ l)) as [r1 tp1] eqn:Epp.
  destruct r1 as [p1| | | |]; try (cbn [rerr] in H; discriminate).
  destruct (prev_prime_spec isp Hor fuel tp (2 ^ l) p1 tp1 Epp) as [Hp1 [Hlt Hno]].
  assert (Hcore : prime p /\ p < 2 ^ l /\ (blum = true -> p mod 4 = 3) /\
                  (forall q, p < q < 2 ^ l -> prime q -> (blum = true -> q mod 4 = 3) -> False) /\
                  n' = n /\ w = (if n =? 2 then p - 1 else 1)).
  { destruct blum.
    - destruct (blum_loop isp fuel fuel tp1 p1) as [r2 tp2] eqn:Ebl.
      destruct r2 as [p2| | | |]; try (cbn [rerr] in H; discriminate).
      inversion H; subst.
      destruct (blum_loop_spec isp Hor fuel fuel tp1 p1 p tp' Hp1 Ebl) as [Hp [Hm [Hle Hmax]]].
      split; [exact Hp|]. split; [lia|]. split; [intros _; exact Hm|].
      split; [|split; reflexivity].
      intros q Hq Hqp Hqb.
      destruct (Z_lt_le_dec p1 q) as [Hq1 | Hq1].
      + apply (Hno q); [lia|exact Hqp].
      + apply (Hmax q); [lia|exact Hqp|]. apply Hqb. reflexivity.
    - inversion H; subst.
      split; [exact Hp1|]. split; [lia|]. split; [intros Hb; discriminate|].
      split; [|split; reflexivity].
      intros q Hq Hqp _. apply (Hno q); [lia|exact Hqp]. }
  destruct Hcore as [Hp [Hplt [Hb [Hmax [Hn' Hw]]]]].
  split; [exact Hn'|]. split; [exact Hp|]. split; [exact Hplt|]. split; [exact Hb|].
  split; [exact Hmax|]. split; [exact Hw|].
  intros [q [Hqp [Hqb Hq]]].
  apply bit_length_exact; [lia|]. split; [|exact Hplt].
  destruct (Z_lt_le_dec p q) as [Hlt' | Hle']; [|lia].
  exfalso. apply (Hmax q); [lia|exact Hqp|exact Hqb].
Qed.

(* ================================================================== *)
(* existence of l-bit Blum primes, 3 <= l <= 16                        *)
(* ================================================================== *)

Lemma blum_witness : forall l q, is_prime_small q = true -> q mod 4 = 3 ->
  2 ^ (l - 1) <= q < 2 ^ l -> exists q, prime q /\ q mod 4 = 3 /\ 2 ^ (l - 1) <= q < 2 ^ l.
Proof.
  intros l q Hp Hm Hr. exists q. split; [apply is_prime_small_correct; exact Hp|]. split; assumption.
Qed.

Theorem blum_prime_exists_bounded : forall l, 3 <= l <= 16 -> exists q, prime q /\ q mod 4 = 3 /\ 2 ^ (l - 1) <= q < 2 ^ l.
Proof.
  intros l Hl.
  assert (Hc : l = 3 \/ l = 4 \/ l = 5 \/ l = 6 \/ l = 7 \/ l = 8 \/ l = 9 \/ l = 10 \/
               l = 11 \/ l = 12 \/ l = 13 \/ l = 14 \/ l = 15 \/ l = 16) by lia.
  destruct Hc as [H|[H|[H|[H|[H|[H|[H|[H|[H|[H|[H|[H|[H|H]]]]]]]]]]]]]; subst l.
  - apply (blum_witness 3 7); [vm_compute; reflexivity|reflexivity|split; [apply Z.leb_le | apply Z.ltb_lt]; vm_compute; reflexivity].
  - apply (blum_witness 4 11); [vm_compute; reflexivity|reflexivity|split; [apply Z.leb_le | apply Z.ltb_lt]; vm_compute; reflexivity].
  - apply (blum_witness 5 31); [vm_compute; reflexivity|reflexivity|split; [apply Z.leb_le | apply Z.ltb_lt]; vm_compute; reflexivity].
  - apply (blum_witness 6 59); [vm_compute; reflexivity|reflexivity|split; [apply Z.leb_le | apply Z.ltb_lt]; vm_compute; reflexivity].
  - apply (blum_witness 7 127); [vm_compute; reflexivity|reflexivity|split; [apply Z.leb_le | apply Z.ltb_lt]; vm_compute; reflexivity].
  - apply (blum_witness 8 251); [vm_compute; reflexivity|reflexivity|split; [apply Z.leb_le | apply Z.ltb_lt]; vm_compute; reflexivity].
  - apply (blum_witness 9 503); [vm_compute; reflexivity|reflexivity|split; [apply Z.leb_le | apply Z.ltb_lt]; vm_compute; reflexivity].
  - apply (blum_witness 10 1019); [vm_compute; reflexivity|reflexivity|split; [apply Z.leb_le | apply Z.ltb_lt]; vm_compute; reflexivity].
  - apply (blum_witness 11 2039); [vm_compute; reflexivity|reflexivity|split; [apply Z.leb_le | apply Z.ltb_lt]; vm_compute; reflexivity].
  - apply (blum_witness 12 4091); [vm_compute; reflexivity|reflexivity|split; [apply Z.leb_le | apply Z.ltb_lt]; vm_compute; reflexivity].
  - apply (blum_witness 13 8191); [vm_compute; reflexivity|reflexivity|split; [apply Z.leb_le | apply Z.ltb_lt]; vm_compute; reflexivity].
  - apply (blum_witness 14 16363); [vm_compute; reflexivity|reflexivity|split; [apply Z.leb_le | apply Z.ltb_lt]; vm_compute; reflexivity].
  - apply (blum_witness 15 32719); [vm_compute; reflexivity|reflexivity|split; [apply Z.leb_le | apply Z.ltb_lt]; vm_compute; reflexivity].
  - apply (blum_witness 16 65519); [vm_compute; reflexivity|reflexivity|split; [apply Z.leb_le | apply Z.ltb_lt]; vm_compute; reflexivity].
Qed.

(* ================================================================== *)
(* find_prime_root, n > 2 branch: the prime found is 3 mod 4           *)
(* ================================================================== *)

Lemma candidate_mod4 : forall n q k, n mod 2 = 1 -> (1 + 2 * n * (3 + 2 * q) + 4 * n * k) mod 4 = 3.
Proof.
  intros n q k Hn.
  pose proof (Z.div_mod n 2 ltac:(lia)) as Hd. rewrite Hn in Hd.
  remember (n / 2) as a eqn:Ha. clear Ha Hn. subst n.
  replace (1 + 2 * (2 * a + 1) * (3 + 2 * q) + 4 * (2 * a + 1) * k)
    with (3 + (1 + 3 * a + 2 * a * q + q + (2 * a + 1) * k) * 4) by ring.
  rewrite Z_mod_plus_full. reflexivity.
Qed.

Lemma odd_prime_mod2 : forall n, prime n -> 2 < n -> n mod 2 = 1.
Proof.
  intros n Hp Hn.
  pose proof (Z.mod_pos_bound n 2 ltac:(lia)) as Hb.
  destruct (Z.eq_dec (n mod 2) 0) as [H0 | H0]; [|lia].
  exfalso. exact (even_not_prime n Hn H0 Hp).
Qed.

Lemma find_prime_root_big_n_blum : forall (isp : tape -> Z -> bool * tape),
  (forall tp z, fst (isp tp z) = true <-> prime z) ->
  forall fuel tp l blum n p n' w tp', 2 < l -> 2 < n ->
    find_prime_root_gen isp fuel tp l blum n = (Ok (p, n', w), tp') ->
    blum = true /\ prime n' /\ n <= n' /\ prime p /\ p mod 4 = 3 /\
    exists k, 0 <= k /\ p = first_candidate l n' + 4 * n' * k.
Proof.
  intros isp Hor fuel tp l blum n p n' w tp' Hl Hn H.
  unfold find_prime_root_gen in H.
  destruct (l <=? 2) eqn:El; [apply Z.leb_le in El; lia|].
  destruct (n <=? 2) eqn:En; [apply Z.leb_le in En; lia|].
  destruct blum; cbn [negb] in H; [|discriminate].
  destruct (isp tp n) as [b tpa] eqn:Eb.
  destruct (if negb b then next_prime_gen isp fuel tpa n else (Ok n, tpa)) as [rn tp2] eqn:Enn.
  destruct rn as [n1| | | |]; try (cbn [rerr] in H; discriminate).
  assert (Hn1 : prime n1 /\ n <= n1).
  { destruct b; cbn [negb] in Enn.
    - inversion Enn; subst. split; [|lia]. apply (Hor tp n1). rewrite Eb. reflexivity.
    - destruct (next_prime_spec isp Hor fuel tpa n n1 tp2 Enn) as [Hp1 [Hlt _]]. split; [exact Hp1|lia]. }
  destruct Hn1 as [Hn1p Hn1le].
  destruct (search_loop isp (4 * n1) fuel tp2 (first_candidate l n1)) as [rs tp3] eqn:Es.
  destruct rs as [p1| | | |]; try (cbn [rerr] in H; discriminate).
  destruct (root_loop fuel 2 ((p1 - 1) / n1) p1) as [w1| | | |] eqn:Er; try (cbn [rerr] in H; discriminate).
  inversion H; subst.
  destruct (search_loop_spec isp (4 * n') fuel tp2 _ p tp' Es) as [k [Hk [Hp [[t Hacc] _]]]].
  split; [reflexivity|]. split; [exact Hn1p|]. split; [exact Hn1le|].
  split; [apply (Hor t p); rewrite Hacc; reflexivity|].
  split; [|exists k; split; [exact Hk|exact Hp]].
  rewrite Hp. unfold first_candidate. apply candidate_mod4.
  apply odd_prime_mod2; [exact Hn1p|lia].
Qed.

(* ================================================================== *)
(* _pfield with a generated modulus                                    *)
(* ================================================================== *)

Theorem pfield_generated_partial : forall (isp : tape -> Z -> bool * tape),
  (forall tp z, fst (isp tp z) = true <-> prime z) ->
  forall fuel tp l f k n m t p tp', pfield_gen isp fuel tp l f k None n m t = (Ok p, tp') ->
    prime p /\ p mod 4 = 3 /\ (t = 0 \/ m < p).
Proof.
  intros isp Hor fuel tp l f k n m t p tp' H.
  unfold pfield_gen in H.
  destruct (find_prime_root_gen isp fuel tp (l + f + k + 2) true n) as [r tp1] eqn:Ef.
  destruct r as [[[p0 n'] w]| | | |]; try (cbn [rerr] in H; discriminate).
  destruct (isp tp1 p0) as [b tp2] eqn:Ei.
  destruct b; cbn [negb] in H; [|discriminate].
  destruct ((t =? 0) || (m <? p0)) eqn:Et; cbn [negb] in H; [|discriminate].
  inversion H; subst.
  split; [apply (Hor tp1 p); rewrite Ei; reflexivity|].
  split.
  - destruct (Z_le_gt_dec (l + f + k + 2) 2) as [HL | HL].
    + destruct (find_prime_root_tiny isp fuel tp _ true n _ tp1 HL Ef) as [_ [Hr _]].
      specialize (Hr eq_refl). inversion Hr; subst. reflexivity.
    + destruct (Z_le_gt_dec n 2) as [Hn | Hn].
      * destruct (find_prime_root_small_n isp Hor fuel tp (l + f + k + 2) true n p n' w tp1 ltac:(lia) Hn Ef)
          as [_ [_ [_ [Hb _]]]].
        apply Hb. reflexivity.
      * destruct (find_prime_root_big_n_blum isp Hor fuel tp (l + f + k + 2) true n p n' w tp1 ltac:(lia) ltac:(lia) Ef)
          as [_ [_ [_ [_ [Hm4 _]]]]].
        exact Hm4.
  - apply orb_true_iff in Et. destruct Et as [Et | Et].
    + left. apply Z.eqb_eq. exact Et.
    + right. apply Z.ltb_lt. exact Et.
Qed.


End PF.

Definition find_prime_root_tiny := PF.find_prime_root_tiny.
Definition minus_one_order_2 := PF.minus_one_order_2.
Definition blum_loop_spec := PF.blum_loop_spec.
Definition find_prime_root_small_n := PF.find_prime_root_small_n.
Definition blum_prime_exists_bounded := PF.blum_prime_exists_bounded.
Definition pfield_generated_partial := PF.pfield_generated_partial.
Definition find_prime_root_big_n_blum := PF.find_prime_root_big_n_blum.
Definition bit_length_exact := PF.bit_length_exact.
