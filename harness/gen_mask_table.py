"""Translator for property C18: every value opened INSIDE a protocol -> one row of coq/gen/MaskTable.v.

For every internal `self.output(` / `runtime.output(` call in mpyc/runtime.py, mpyc/random.py and
mpyc/statistics.py the translator
  * names the site `<module>.<function>#<ordinal in function>`,
  * looks it up in the annotation table SITES below (a site that is not there is an ERROR: fail closed),
  * for additive masks EXTRACTS FROM THE SOURCE (never from the annotation)
      - the mask bound expression: the `bound` argument of `_random/_randoms/_np_randoms`, the argument of
        `secrets.randbelow(..)` / `self.prfs(..)`; a plain variable is resolved through its assignments
        (one row per assignment, labelled by the enclosing `if` tests),
      - the scale of the mask variable inside the opened expression (`r << l` -> 2**l, `b * r` -> b, ...),
    and converts them — as parsed by Python's own parser, i.e. with Python's operator precedence — into
    the arithmetic AST `mexpr` of coq/theories/Stat.v,
  * takes from the annotation only: which variable is the mask, the range of the secret part, the meaning
    of local names (each CHECKED against the assignments to that name found in the function), the
    masking-lemma kind and the documented leak of by-design openings.
Anything that does not match (unknown site, missing site, generator statement not found, a local name
whose definition changed, an operator outside the AST) is reported in `errors`.

Usage:  rows, errors = generate(repo)   /   python gen_mask_table.py [repo] [out.v]
"""
import ast, os, sys, json

MODULES = {'runtime': 'mpyc/runtime.py', 'random': 'mpyc/random.py', 'statistics': 'mpyc/statistics.py'}
CANON = {'L': 'VL', 'l': 'Vl', 'k': 'Vk', 'f': 'Vf', 't': 'Vt', 'm': 'Vm', 'b': 'Vb', 'n': 'Vn'}

# ------------------------------------------------------------------------------------------------
# annotation table
#   kind   : add | xor | mult | field | indep | design | other
#   gen    : statement templates (BOUND marks the bound argument; (template, n) = occurs n times) that must
#            occur in the function;
#            the bound is extracted from there.   via: randoms | direct
#   where  : statement (exact text) in which the mask variable is combined with the secret; default: the
#            opened expression itself.   mask: the mask variable in it.
#   flow   : further statements that must occur (the data flow from generator to the opened value)
#   names  : local name -> (meaning over canonical variables L,l,k,f,t,m,b,n ; expected list of
#            definitions of that name before the site: '<param>' or statement text)
#   secret : width of the range of the masked value (python expression over canonical variables)
#   cap    : optional range the opened value (secret + all mask summands at their maximum) must stay below
#   pre    : [(lo, hi)] constraints lo <= hi under which the site is reached without an exception
#   variants: for a bound held in a variable: label of the assignment (enclosing if-tests) ->
#            (row suffix, mode)   mode: both | prss | noprss | dealers
K_SEC = ('k', ['k = self.options.sec_param'])
T_THR = ('t', ['t = self.threshold'])
M_PAR = ('m', ['m = len(self.parties)'])

SITES = {
    'runtime.peek#0': dict(kind='design', leak='debugging aid: peek() logs the value of x on purpose'),
    'runtime._convert#0': dict(
        kind='add', via='direct', mask='s_r',
        gen=['r = [secrets.randbelow(BOUND) for _ in range(n)]', 'prfs = self.prfs(BOUND)'],
        flow=['s_r = [s_field(a) for a in r]', 's_r = self.input(s_r, senders=senders)',
              's_r = list(map(sum, zip(*s_r)))',
              's_r = thresha.pseudorandom_share(s_field, m, self.pid, prfs, uci, n)'],
        where='x[i] = x[i].value + offset + s_r[i]',
        names={'k': K_SEC, 't': T_THR, 'm': M_PAR,
               'l': ('l', ['l = min(s_type.bit_length, t_type.bit_length)'])},
        variants={'if s_is_SecureFiniteField': ('field', 'both'),
                  'else s_is_SecureFiniteField / if self.options.no_prss': ('noprss', 'noprss'),
                  'else s_is_SecureFiniteField / else self.options.no_prss': ('prss', 'prss')},
        secret='1 << l', pre=[('1', 'l')], cap='1 << (k + l + 1)',   # field modulus has more than l+k+1 bits
        doc='x + offset in [0, 2^l); field source: mask uniform modulo the source field order (perfect)'),
    'runtime.trunc#0': dict(
        kind='add', via='randoms', mask='r_divf',
        gen=['r_divf = self._randoms(Zp, n, BOUND)'], flow=['xr_modf = [a + r for a, r in zip(x, xr_modf)]'],
        names={'k': K_SEC, 'f': ('f', ['<param>', 'f = sftype.frac_length']),
               'l': ('l', ['<param>', 'l = l or sftype.bit_length', 'l += f'])},
        secret='1 << l', pre=[('1', 'l'), ('0', 'f'), ('f', 'l')],
        doc='x + 2^(l-1) in [0, 2^l); low f bits masked by f random bits'),
    'runtime.np_trunc#0': dict(
        kind='add', via='randoms', mask='r_divf',
        gen=['r_divf = self._np_randoms(Zp, n, BOUND)'], flow=['ar_modf += a.value'],
        names={'k': K_SEC, 'f': ('f', ['<param>', 'f = sftype.frac_length']),
               'l': ('l', ['<param>', 'l = l or sftype.sectype.bit_length', 'l += f'])},
        secret='1 << l', pre=[('1', 'l'), ('0', 'f'), ('f', 'l')], doc='as trunc'),
    'runtime.is_zero_public#0': dict(
        kind='indep', opened='rs',
        flow=['r_s = self._randoms(field, 2)', 'r, s = r_s', 'rs = r * s'],
        leak='product of two fresh uniform field elements; only decides whether to retry'),
    'runtime.is_zero_public#1': dict(
        kind='mult', mask='r', opened='b', where='b = a * r',
        gen=['r = self._random(field)', 'r_s = self._randoms(field, 2)'], flow=['r, s = r_s'],
        leak='the result itself (a == 0) is public by design'),
    'runtime.np_is_zero_public#0': dict(
        kind='indep', opened='rs',
        flow=['r = self._np_randoms(field, n)', 's = self._np_randoms(field, n)', 'rs = r * s'],
        leak='products of fresh uniform field elements; only decides whether to retry'),
    'runtime.np_is_zero_public#1': dict(
        kind='mult', mask='r', opened='b', where='b = a * r',
        gen=[('r = self._np_randoms(field, n)', 2)], flow=[],
        leak='the result itself (a == 0 elementwise) is public by design'),
    'runtime.reciprocal#0': dict(
        kind='mult', mask='r', opened='ar', where='ar = await self.gather(a) * r',
        gen=['r = self._random(field)'], flow=[],
        leak='a is assumed nonzero; a*r = 0 would reveal a = 0'),
    'runtime.np_reciprocal#0': dict(
        kind='mult', mask='r', opened='ar', where='ar = a * r',
        gen=['r = self._np_randoms(field, n)'], flow=[],
        leak='a is assumed nonzero; zero entries of a*r reveal zero entries of a'),
    'runtime._np_pow_public_int_base_secret_integral_exponent#0': dict(
        kind='add', via='direct', mask='r',
        gen=['r = np.array([secrets.randbelow(BOUND) for _ in range(b.size)], dtype=object)'],
        flow=['r_1 = type(b)(np.vstack((r, a_r)))', 'r_1 = np.stack(self.input(r_1, senders=senders))',
              'r = np.sum(r_1[:, 0], axis=0)'],
        names={'k': K_SEC, 't': T_THR, 'l': ('l', ['l = b.sectype.bit_length'])},
        variants={'if self.pid in senders': ('', 'dealers')},
        secret='1 << l', pre=[('1', 'l')],
        doc='nonnegative exponent b of an l-bit type; t+1 dealers each draw r_i below bound'),
    'runtime._is_zero#0': dict(
        kind='field', mask='r', opened='c',
        where='c = [Zp(a * r[i].value + (1 - (z[i].value << 1)) * u2[i].value) for i in range(k)]',
        gen=[('r = self._randoms(Zp, k)', 2)], flow=['u2 = self.schur_prod(r, r)'],
        leak='[NO07]: a*r + (+-)u^2; for a = 0 the quadratic character of c depends on the secret bit z only'),
    'runtime.sgn#0': dict(
        kind='add', via='randoms', mask='r_divl',
        gen=['r_divl = self._random(Zp, BOUND)'], flow=['a_rmodl = a + ((1 << l) + r_modl)'],
        names={'k': K_SEC, 'l': ('l', ['<param>', 'l = l or stype.bit_length'])},
        secret='1 << l', pre=[('1', 'l')], doc='a + 2^l with a in [-2^(l-1), 2^(l-1)); low l bits masked by l random bits'),
    'runtime.lsb#0': dict(
        kind='add', via='randoms', mask='r',
        gen=['r = self._random(Zp, BOUND)'], flow=['b = self.random_bit(stype)'],
        names={'k': K_SEC, 'l': ('l', ['l = stype.bit_length'])},
        secret='1 << l', pre=[('1', 'l')], doc='a + 2^l; bit 0 masked by the random bit b'),
    'runtime.np_lsb#0': dict(
        kind='add', via='randoms', mask='r',
        gen=['r = self._np_randoms(Zp, a.size, BOUND).reshape(*a.shape)'],
        flow=['b = self.np_random_bits(stype, a.size).reshape(*a.shape)'],
        names={'k': K_SEC, 'l': ('l', ['l = stype.bit_length'])},
        secret='1 << l', pre=[('1', 'l')], doc='as lsb'),
    'runtime._mod#0': dict(
        kind='add', via='randoms', mask='r_divb',
        gen=['r_divb = self._random(Zp, BOUND)'], flow=['r_bits = self.random._randbelow(stype, b, bits=True)'],
        names={'k': K_SEC, 'l': ('L', ['l = stype.bit_length']), 'b': ('b', ['<param>'])},
        secret='1 << L', pre=[('2', 'L'), ('2', 'b'), ('b', '(1 << (L - 1)) - 1')],
        doc='a + 2^l - (2^l mod b) with a in [-2^(l-1), 2^(l-1)); residue mod b masked by r_modb uniform below b'),
    'runtime.trailing_zeros#0': dict(
        kind='add', via='randoms', mask='r_divl',
        gen=['r_divl = self._random(field, BOUND)'], flow=['r_bits = await self.random_bits(field, l)'],
        names={'k': K_SEC, 'l': ('l', ['<param>', 'l = secint.bit_length'])},
        secret='1 << L', pre=[('1', 'l'), ('l', 'L')], doc='a + 2^L; low l bits masked by l random bits'),
    'runtime._np_is_zero#0': dict(
        kind='field', mask='r', opened='c', where='c = Zp.array(a * r + (1 - (z << 1)) * u2)',
        gen=[('r = self._np_randoms(Zp, k * n)', 2)], flow=['u2 = self._reshare(r * r)'],
        leak='as _is_zero'),
    'runtime.np_sgn#0': dict(
        kind='add', via='randoms', mask='r_divl',
        gen=['r_divl = self._np_randoms(Zp, n, BOUND)'], flow=['a_r = a.value.reshape((n,)) + (1 << l) + r_modl'],
        names={'k': K_SEC, 'l': ('l', ['<param>', 'l = l or stype.sectype.bit_length'])},
        secret='1 << l', pre=[('1', 'l')], doc='as sgn'),
    'runtime.np_det#0': dict(
        kind='other', opened='LUA',
        flow=['U = self._np_randoms(secnum.field, n ** 2)', 'LUA = L @ (U @ A)'],
        leak='not a protocol named by C18: L*U*A for random triangular L, U reveals no more than det-related '
             'structure of A (rank profile); recorded only'),
    'runtime.random_bits#0': dict(
        kind='indep', opened='r2s',
        flow=['rs = thresha.pseudorandom_share(field, m, self.pid, prfs, self._prss_uci(), h)',
              'r2s = [field(r.value ** 2 + z.value) for r, z in zip(rs, zs)]'],
        leak='square of a fresh uniform field element; the derived bit is the sign of r, which stays hidden'),
    'runtime.np_random_bits#0': dict(
        kind='indep', opened='_r2',
        flow=['_r = thresha.np_pseudorandom_share(field, m, self.pid, prfs, self._prss_uci(), h)',
              '_r2 = field.array(_r.value ** 2 + z.value)'],
        leak='as random_bits'),
    'runtime.to_bits#0': dict(
        kind='xor', mask='r_modl', names={'l': ('l', ['<param>', 'l = stype.bit_length', 'l -= f'])},
        flow=['r_bits = await self.random_bits(field, l)'],
        scale='1 << l', secret='1 << l', pre=[('1', 'l'), ('l', 'L')],
        doc='binary field: a xor (l uniform bits); precondition of to_bits(a, l): a < 2^l (bits l.. of a are zero)'),
    'runtime.to_bits#1': dict(
        kind='add', via='randoms', mask='r_divl',
        gen=['r_divl = self._random(field, BOUND)'], flow=['r_bits = await self.random_bits(field, l)'],
        names={'k': K_SEC, 'l': ('l', ['<param>', 'l = stype.bit_length', 'l -= f'])},
        secret='1 << L', pre=[('1', 'l'), ('l', 'L')], doc='a + 2^L; low l bits masked by l random bits'),
    'runtime.np_to_bits#0': dict(
        kind='xor', mask='r_modl', names={'l': ('l', ['<param>', 'l = stype.bit_length', 'l -= f'])},
        flow=['r_bits = await self.np_random_bits(field, n * l)'],
        scale='1 << l', secret='1 << l', pre=[('1', 'l'), ('l', 'L')], doc='as to_bits (binary field; precondition a < 2^l)'),
    'runtime.np_to_bits#1': dict(
        kind='add', via='randoms', mask='r_divl',
        gen=['r_divl = self._np_randoms(field, n, BOUND)'], flow=['r_bits = await self.np_random_bits(field, n * l)'],
        names={'k': K_SEC, 'l': ('l', ['<param>', 'l = stype.bit_length', 'l -= f'])},
        secret='1 << L', pre=[('1', 'l'), ('l', 'L')], doc='as to_bits'),
    'runtime.sincos#0': dict(
        kind='add', via='randoms', mask='R',
        gen=['R = self._random(secfxp2, BOUND) << k'], flow=['a = self.trunc(a) << k', 'a = a / (2 * math.pi) * n'],
        names={'f': ('f', ['f = secfxp.frac_length']), 'k': ('f + 6', ['k = f + 6']), 'n': ('2 ** (f + 6)', ['n = 2 ** k'])},
        secret='(1 << (L - f - 2)) * 2 ** (f + 6) * (1 << (f + 6))', pre=[('1', 'f'), ('f + 2', 'L')],
        doc='raw value of trunc(a/(2 pi) * n) << k for a in [-2^(L-f-1), 2^(L-f-1)): width < 2^(L-f-2) * n * 2^k '
            '(k = f+6 here, n = 2^k); the residue mod n is masked by psi'),
    'runtime.np_unit_vector#0': dict(
        kind='add', via='randoms', mask='R',
        gen=['R = self._random(type(a), BOUND)'], flow=['r = u @ np.arange(n)', 'R += 1'],
        names={'n': ('n', ['<param>'])},
        secret='n', pre=[('2', 'n')], doc='0 <= a < n assumed (documented precondition); residue mod n masked by r'),
    'random._randbelow#0': dict(kind='design', opened='h * x[i]',
                                leak='public rejection bit of rejection sampling: independent of the accepted value'),
    'random.random_unit_vector#0': dict(kind='design', opened='v[0]', leak='public rejection bit (candidate index >= n)'),
    'random.np_random_unit_vector#0': dict(kind='design', opened='v[0]', leak='public rejection bit (candidate index >= n)'),
    'statistics._quickselect#0': dict(kind='design', opened='runtime.sum(z)',
                                      leak='partition size s w.r.t. a random pivot (documented: "privacy leakage" of quickselect)'),
    'statistics._mode#0': dict(kind='design', opened='b[e - 1 + f]',
                               leak='bit length of max(data) - min(data) (documented in mode())'),
}

KINDS = {'add': 'KAdditive', 'xor': 'KXorLow', 'mult': 'KMultBlind', 'field': 'KFieldUniform',
         'indep': 'KIndependent', 'design': 'KByDesign', 'other': 'KOther'}
MODES = {'both': 'MBoth', 'prss': 'MPrssOnly', 'noprss': 'MNoPrssOnly', 'dealers': 'MDealers'}


class Unclassified(Exception):
    pass


# ------------------------------------------------------------------------------------------------
# python AST helpers

def unp(n):
    return ast.unparse(n)


def stmts_with_cond(fn):
    """All statements of a function (any nesting, not nested defs) with the label of enclosing if-tests."""
    out = []

    def walk(body, label):
        for st in body:
            out.append((st, label))
            if isinstance(st, ast.If):
                t = unp(st.test)
                walk(st.body, label + ['if ' + t])
                walk(st.orelse, label + ['else ' + t])
            elif isinstance(st, (ast.For, ast.While, ast.AsyncFor)):
                walk(st.body, label)
                walk(st.orelse, label)
            elif isinstance(st, (ast.With, ast.AsyncWith)):
                walk(st.body, label)
            elif isinstance(st, ast.Try):
                walk(st.body, label)
                for h in st.handlers:
                    walk(h.body, label)
                walk(st.orelse, label)
                walk(st.finalbody, label)
    walk(fn.body, [])
    return out


def match(tmpl, node, binds):
    """Structural match of template AST against node; Name('BOUND') in the template binds a subtree."""
    if isinstance(tmpl, ast.Name) and tmpl.id == 'BOUND':
        binds.append(node)
        return True
    if type(tmpl) is not type(node):
        return False
    for field, tv in ast.iter_fields(tmpl):
        if field in ('ctx', 'type_comment', 'kind'):
            continue
        nv = getattr(node, field, None)
        if isinstance(tv, list):
            if not isinstance(nv, list) or len(tv) != len(nv):
                return False
            for a, b in zip(tv, nv):
                if isinstance(a, ast.AST):
                    if not match(a, b, binds):
                        return False
                elif a != b:
                    return False
        elif isinstance(tv, ast.AST):
            if not isinstance(nv, ast.AST) or not match(tv, nv, binds):
                return False
        elif tv != nv:
            return False
    return True


def find_stmt(stmts, template):
    """Statements matching the template text (which may contain BOUND). Returns [(stmt, label, binds)]."""
    t = ast.parse(template).body[0]
    res = []
    for st, label in stmts:
        b = []
        if match(t, st, b):
            res.append((st, label, b))
    return res


def targets_of(st):
    names = []

    def tnames(t):
        if isinstance(t, ast.Name):
            names.append(t.id)
        elif isinstance(t, (ast.Tuple, ast.List)):
            for e in t.elts:
                tnames(e)
    if isinstance(st, ast.Assign):
        for t in st.targets:
            tnames(t)
    elif isinstance(st, (ast.AugAssign, ast.AnnAssign)):
        tnames(st.target)
    return names


def defs_of(fn, stmts, name, before_line):
    """Textual list of the definitions of a local name before a line: '<param>' + assignment statements."""
    out = []
    a = fn.args
    if name in [x.arg for x in a.posonlyargs + a.args + a.kwonlyargs]:
        out.append('<param>')
    for st, _ in stmts:
        if st.lineno < before_line and name in targets_of(st):
            out.append(unp(st))
    return out


# ------------------------------------------------------------------------------------------------
# conversion python expression -> mexpr (as nested tuples), with Python's precedence (it IS python's AST)

def to_mexpr(node, names, fn, stmts, line, errors_ctx):
    """names: local name -> canonical python expression string (already verified)."""
    def conv(n):
        if isinstance(n, ast.Constant) and isinstance(n.value, int) and not isinstance(n.value, bool):
            return ('Const', n.value)
        if isinstance(n, ast.Name):
            if n.id in names:
                return canon_expr(names[n.id])
            raise Unclassified('name %r used in a mask expression has no annotated meaning' % n.id)
        if isinstance(n, ast.Attribute):
            txt = unp(n)
            if txt in ('self.options.sec_param', 'runtime.options.sec_param'):
                return ('Var', 'Vk')
            if n.attr == 'bit_length' and isinstance(n.value, ast.Name):
                return ('Var', 'VL')        # <type>.bit_length
            if txt == 'self.threshold':
                return ('Var', 'Vt')
            raise Unclassified('attribute %s outside the mask-expression AST' % txt)
        if isinstance(n, ast.BinOp):
            ops = {ast.Add: 'Add', ast.Sub: 'Sub', ast.Mult: 'Mul', ast.FloorDiv: 'FloorDiv',
                   ast.LShift: 'Shl', ast.Pow: 'Pow'}
            if type(n.op) not in ops:
                raise Unclassified('operator %s outside the mask-expression AST' % type(n.op).__name__)
            return (ops[type(n.op)], conv(n.left), conv(n.right))
        if isinstance(n, ast.Call) and unp(n.func) == 'math.comb' and len(n.args) == 2:
            return ('Comb', conv(n.args[0]), conv(n.args[1]))
        raise Unclassified('expression %s outside the mask-expression AST' % unp(n))
    return conv(node)


def canon_expr(txt):
    """Annotation expression over canonical variable names -> mexpr."""
    def conv(n):
        if isinstance(n, ast.Constant) and isinstance(n.value, int):
            return ('Const', n.value)
        if isinstance(n, ast.Name) and n.id in CANON:
            return ('Var', CANON[n.id])
        if isinstance(n, ast.BinOp):
            ops = {ast.Add: 'Add', ast.Sub: 'Sub', ast.Mult: 'Mul', ast.FloorDiv: 'FloorDiv',
                   ast.LShift: 'Shl', ast.Pow: 'Pow'}
            return (ops[type(n.op)], conv(n.left), conv(n.right))
        raise ValueError('bad canonical expression %s' % txt)
    return conv(ast.parse(txt, mode='eval').body)


def coq_of(e):
    if e[0] == 'Const':
        return '(Const (%d))' % e[1]
    if e[0] == 'Var':
        return '(Var %s)' % e[1]
    return '(%s %s %s)' % (e[0], coq_of(e[1]), coq_of(e[2]))


def py_eval(e, env):
    """Reference evaluation of an mexpr in Python (used only for reporting)."""
    import math
    k = e[0]
    if k == 'Const':
        return e[1]
    if k == 'Var':
        return env[e[1]]
    a, b = py_eval(e[1], env), py_eval(e[2], env)
    return {'Add': lambda: a + b, 'Sub': lambda: a - b, 'Mul': lambda: a * b, 'FloorDiv': lambda: a // b,
            'Shl': lambda: a << b, 'Pow': lambda: a ** b, 'Comb': lambda: math.comb(a, b)}[k]()


# ------------------------------------------------------------------------------------------------
# scale of the mask variable inside an expression

def strip_wrappers(n):
    """Zp.array(e) / field.array(e) -> e."""
    while isinstance(n, ast.Call) and isinstance(n.func, ast.Attribute) and n.func.attr == 'array' and len(n.args) == 1:
        n = n.args[0]
    return n


def contains_name(n, name):
    return any(isinstance(x, ast.Name) and x.id == name for x in ast.walk(n))


def is_mask_leaf(n, name):
    """name | name.value | name[i] | name[i].value"""
    if isinstance(n, ast.Attribute) and n.attr == 'value':
        n = n.value
    if isinstance(n, ast.Subscript):
        n = n.value
    return isinstance(n, ast.Name) and n.id == name


def scale_of(expr, mask):
    """Multiplier of the mask variable in expr, as a python AST list of factors [('mul', node)|('shl', node)].
    The mask must be reachable through +, - (either side), unary -, parentheses only; on the way at most
    products/left shifts by mask-free factors."""
    expr = strip_wrappers(expr)
    if isinstance(expr, ast.ListComp):
        # [e for a, q in zip(xs, ms)]: rename the comprehension variable bound to the mask list
        if len(expr.generators) != 1:
            raise Unclassified('comprehension with several generators')
        g = expr.generators[0]
        it, tg = g.iter, g.target
        if isinstance(it, ast.Call) and unp(it.func) == 'zip' and isinstance(tg, ast.Tuple):
            for t_, a_ in zip(tg.elts, it.args):
                if isinstance(a_, ast.Name) and a_.id == mask and isinstance(t_, ast.Name):
                    return scale_of(expr.elt, t_.id)
        return scale_of(expr.elt, mask)
    if is_mask_leaf(expr, mask):
        return []
    if isinstance(expr, ast.UnaryOp) and isinstance(expr.op, (ast.USub, ast.UAdd)):
        return scale_of(expr.operand, mask)
    if isinstance(expr, ast.BinOp):
        inl, inr = contains_name(expr.left, mask), contains_name(expr.right, mask)
        if inl and inr:
            raise Unclassified('mask variable occurs twice in %s' % unp(expr))
        if isinstance(expr.op, (ast.Add, ast.Sub)):
            return scale_of(expr.left if inl else expr.right, mask)
        if isinstance(expr.op, ast.Mult):
            return scale_of(expr.left if inl else expr.right, mask) + [('mul', expr.right if inl else expr.left)]
        if isinstance(expr.op, ast.LShift) and inl:
            return scale_of(expr.left, mask) + [('shl', expr.right)]
    raise Unclassified('cannot isolate mask variable %r in %s' % (mask, unp(expr)))


# ------------------------------------------------------------------------------------------------

def internal_sites(tree):
    """(function node, [output Call nodes in source order]) for every function with internal openings."""
    res = []
    for fn in ast.walk(tree):
        if isinstance(fn, (ast.FunctionDef, ast.AsyncFunctionDef)):
            own = []
            nested = set()
            for sub in ast.walk(fn):
                if sub is not fn and isinstance(sub, (ast.FunctionDef, ast.AsyncFunctionDef, ast.Lambda)):
                    nested.update(id(x) for x in ast.walk(sub))
            for n in ast.walk(fn):
                if (isinstance(n, ast.Call) and isinstance(n.func, ast.Attribute) and n.func.attr == 'output'
                        and isinstance(n.func.value, ast.Name) and n.func.value.id in ('self', 'runtime', 'mpc')
                        and id(n) not in nested):
                    own.append(n)
            if own:
                own.sort(key=lambda n: (n.lineno, n.col_offset))
                res.append((fn, own))
    return res


def build_row(key, fn, call, ann):
    """Returns list of row dicts for one site (several when the bound variable has several definitions)."""
    stmts = stmts_with_cond(fn)
    line = call.lineno
    kind = ann['kind']
    base = dict(site=key, kind=KINDS[kind], line=line, opened=unp(call.args[0]) if call.args else '',
                leak=ann.get('leak') or ann.get('doc', ''), mode='MBoth', bound=None, via='ViaRandoms',
                scale=('Const', 1), secret=('Const', 0), cap=('Const', 0), pre=[], bound_src=None)
    if 'opened' in ann and base['opened'] != ann['opened']:
        raise Unclassified('opened expression is %r, annotated %r' % (base['opened'], ann['opened']))
    for tmpl in ann.get('flow', []):
        if not find_stmt(stmts, tmpl):
            raise Unclassified('data-flow statement not found: %s' % tmpl)
    # meanings of local names, each verified against the definitions present in the source
    names = {}
    for nm, (meaning, expect) in ann.get('names', {}).items():
        got = defs_of(fn, stmts, nm, line)
        if got != expect:
            raise Unclassified('definitions of %r before the opening are %r, annotated %r' % (nm, got, expect))
        names[nm] = meaning
    if kind in ('design', 'indep', 'other'):
        return [base]
    base['pre'] = [(canon_expr(a), canon_expr(b)) for a, b in ann.get('pre', [])]
    if 'secret' in ann:
        base['secret'] = canon_expr(ann['secret'])
    if 'cap' in ann:
        base['cap'] = canon_expr(ann['cap'])
    # where the mask meets the secret
    if 'where' in ann:
        hits = find_stmt(stmts, ann['where'])
        if len(hits) != 1:
            raise Unclassified('statement combining mask and secret not found exactly once: %s' % ann['where'])
        wexpr = hits[0][0].value
    else:
        wexpr = call.args[0]
    if kind == 'xor':
        if not contains_name(wexpr, ann['mask']):
            raise Unclassified('mask %r not in opened expression' % ann['mask'])
        scale_of(wexpr, ann['mask'])
        base['scale'] = canon_expr(ann['scale'])
        base['bound'] = None
        return [base]
    # generator statements and bound
    bounds = []
    extra_shift = []
    for tmpl in ann['gen']:
        want = 1
        if isinstance(tmpl, tuple):
            tmpl, want = tmpl
        hits = find_stmt(stmts, tmpl)
        if len(hits) != want:
            raise Unclassified('generator statement found %d times, annotated %d: %s' % (len(hits), want, tmpl))
        st, label, binds = hits[0]
        if 'BOUND' in tmpl:
            if len(binds) != 1:
                raise Unclassified('no bound argument in %s' % unp(st))
            bounds.append(binds[0])
            v = st.value
            if isinstance(v, ast.BinOp) and isinstance(v.op, ast.LShift) and any(b is binds[0] for b in ast.walk(v.left)):
                extra_shift.append(('shl', v.right))
        else:
            bounds.append(None)
    if kind in ('mult', 'field'):
        if any(b is not None for b in bounds):
            raise Unclassified('full-field mask expected but a bound is given')
        if not contains_name(wexpr, ann['mask']):
            raise Unclassified('mask %r not in %s' % (ann['mask'], unp(wexpr)))
        return [base]
    # additive
    if any(b is None for b in bounds) or len({unp(b) for b in bounds}) != 1:
        raise Unclassified('bound arguments differ or are missing: %r' % [b and unp(b) for b in bounds])
    factors = scale_of(wexpr, ann['mask']) + extra_shift
    sc = ('Const', 1)
    for how, node in factors:
        f = to_mexpr(node, names, fn, stmts, line, key)
        sc = ('Mul', sc, f) if how == 'mul' else ('Mul', sc, ('Shl', ('Const', 1), f))
    base['scale'] = simplify(sc)
    base['via'] = 'ViaRandoms' if ann['via'] == 'randoms' else 'ViaDirect'
    b0 = bounds[0]
    rows = []
    if isinstance(b0, ast.Name) and b0.id not in names:
        # a variable: one row per assignment
        variants = ann.get('variants', {})
        assigns = [(st, label) for st, label in stmts if st.lineno < line and b0.id in targets_of(st)]
        if not assigns:
            raise Unclassified('bound variable %r is never assigned' % b0.id)
        seen = set()
        for st, label in assigns:
            lab = ' / '.join(label)
            if lab not in variants:
                raise Unclassified('assignment %r under unannotated condition %r' % (unp(st), lab))
            seen.add(lab)
            suffix, mode = variants[lab]
            r = dict(base)
            r['site'] = key + ('/' + suffix if suffix else '')
            r['mode'] = MODES[mode]
            r['bound_src'] = unp(st.value)
            if isinstance(st.value, ast.Attribute) and st.value.attr == 'order':
                r['bound'] = None      # uniform over the whole (source) field: perfect
                r['kind'] = 'KFieldUniform'
            else:
                r['bound'] = to_mexpr(st.value, names, fn, stmts, line, key)
            rows.append(r)
        if seen != set(variants):
            raise Unclassified('annotated variants %r not all present' % sorted(set(variants) - seen))
    else:
        base['bound_src'] = unp(b0)
        base['bound'] = to_mexpr(b0, names, fn, stmts, line, key)
        rows.append(base)
    return rows


def simplify(e):
    if e[0] == 'Mul' and e[1] == ('Const', 1):
        return simplify(e[2])
    if e[0] in ('Const', 'Var'):
        return e
    return (e[0], simplify(e[1]), simplify(e[2]))


def generate(repo):
    rows, errors = [], []
    seen = set()
    for mod, rel in MODULES.items():
        path = os.path.join(repo, rel)
        tree = ast.parse(open(path).read())
        for fn, calls in internal_sites(tree):
            for i, call in enumerate(calls):
                key = '%s.%s#%d' % (mod, fn.name, i)
                seen.add(key)
                if key not in SITES:
                    errors.append({'site': key, 'line': call.lineno,
                                   'error': 'internal opening without annotation: %s' % unp(call)[:200]})
                    continue
                try:
                    rows.extend(build_row(key, fn, call, SITES[key]))
                except Unclassified as exc:
                    errors.append({'site': key, 'line': call.lineno, 'error': 'unclassified: %s' % exc})
    for key in SITES:
        if key not in seen:
            errors.append({'site': key, 'line': None, 'error': 'annotated opening no longer present in the source'})
    return rows, errors


# ------------------------------------------------------------------------------------------------
# product openings: `output(V, threshold=...)` where V is a local product of sharings must be rerandomised
# (zero sharing added, or reshared) before the opening on every path, i.e. for all field sizes

ZERO_SHARING = ('pseudorandom_share_zero', 'np_pseudorandom_share_0')
MODE_SWITCH = 'self.options.no_prss'       # a condition on the randomness mode, not on the field size


def _strip(e):
    while True:
        if isinstance(e, ast.Await):
            e = e.value
        elif isinstance(e, ast.Call) and len(e.args) == 1 and not e.keywords and \
                (isinstance(e.func, ast.Name) or (isinstance(e.func, ast.Attribute) and e.func.attr == 'array')):
            e = e.args[0]          # Zp(...), field(...), Zp.array(...)
        elif isinstance(e, ast.ListComp):
            e = e.elt
        else:
            return e


def is_product_expr(e):
    e = _strip(e)
    if isinstance(e, ast.BinOp):
        if isinstance(e.op, ast.Mult):
            return not (isinstance(e.left, ast.Constant) or isinstance(e.right, ast.Constant))
        if isinstance(e.op, ast.Pow):
            return isinstance(e.right, ast.Constant) and e.right.value >= 2
        if isinstance(e.op, (ast.Add, ast.Sub)):
            return is_product_expr(e.left) or is_product_expr(e.right)
    return False


def _zero_sharing_names(fn, stmts):
    """local names assigned from thresha.pseudorandom_share_zero / np_pseudorandom_share_0"""
    names = set()
    for st, _ in stmts:
        if isinstance(st, ast.Assign) and isinstance(st.value, ast.Call) and \
                isinstance(st.value.func, ast.Attribute) and st.value.func.attr in ZERO_SHARING:
            names.update(targets_of(st))
    return names


def _mentions_zero_sharing(e, znames):
    inner = e
    while isinstance(inner, ast.Await) or (isinstance(inner, ast.Call) and len(inner.args) == 1 and not inner.keywords):
        inner = inner.value if isinstance(inner, ast.Await) else inner.args[0]
    if isinstance(inner, ast.ListComp):
        # only the element counts; loop variables bound (through zip) to a zero-sharing list are zero-sharing names
        zn = set(znames)
        for g in inner.generators:
            if isinstance(g.iter, ast.Call) and unp(g.iter.func) == 'zip' and isinstance(g.target, ast.Tuple):
                for t_, a_ in zip(g.target.elts, g.iter.args):
                    if isinstance(a_, ast.Name) and a_.id in znames and isinstance(t_, ast.Name):
                        zn.add(t_.id)
            elif isinstance(g.iter, ast.Name) and g.iter.id in znames and isinstance(g.target, ast.Name):
                zn.add(g.target.id)
        return _mentions_zero_sharing(inner.elt, zn)
    for n in ast.walk(e):
        if isinstance(n, ast.Call) and isinstance(n.func, ast.Attribute) and n.func.attr in ZERO_SHARING:
            return True
        if isinstance(n, ast.Name) and n.id in znames:
            return True
    return False


def _covers_all(residuals):
    """Do the conditions under which rerandomisation happens cover every case?  Only a both-branches split on
    the randomness mode counts as covering; any other condition (field size) makes it conditional."""
    if any(not r for r in residuals):
        return True
    yes = [r[1:] for r in residuals if r[0] == 'if ' + MODE_SWITCH]
    no = [r[1:] for r in residuals if r[0] == 'else ' + MODE_SWITCH]
    return bool(yes) and bool(no) and _covers_all(yes) and _covers_all(no)


def _loops_of(fn):
    """id(statement) -> tuple of ids of the enclosing loops"""
    out = {}

    def walk(body, loops):
        for st in body:
            out[id(st)] = loops
            if isinstance(st, (ast.For, ast.While, ast.AsyncFor)):
                walk(st.body, loops + (id(st),))
                walk(st.orelse, loops)
            elif isinstance(st, ast.If):
                walk(st.body, loops)
                walk(st.orelse, loops)
            elif isinstance(st, (ast.With, ast.AsyncWith)):
                walk(st.body, loops)
            elif isinstance(st, ast.Try):
                for b in [st.body, st.orelse, st.finalbody] + [h.body for h in st.handlers]:
                    walk(b, loops)
    walk(fn.body, ())
    return out


PRSS_CALLS = ('pseudorandom_share', 'np_pseudorandom_share') + ZERO_SHARING


def _fresh_uci(callnode, fn=None):
    """True: the call has its own `self._prss_uci()`.  A string: why it is NOT fresh (its uci variable also feeds another
    PRSS call: the zero sharing is then correlated with that value).  Raises Unclassified when it cannot be followed."""
    if any(isinstance(a, ast.Call) and unp(a) == 'self._prss_uci()' for a in callnode.args):
        return True
    names = [a.id for a in callnode.args if isinstance(a, ast.Name)]
    if fn is not None:
        for u in names:
            assigns = sorted((n for n in ast.walk(fn) if isinstance(n, ast.Assign) and u in targets_of(n)
                              and n.lineno < callnode.lineno), key=lambda n: n.lineno)
            if assigns and unp(assigns[-1].value) == 'self._prss_uci()':    # the definition reaching the call
                others = [n for n in ast.walk(fn) if isinstance(n, ast.Call) and n is not callnode and isinstance(n.func, ast.Attribute)
                          and n.func.attr in PRSS_CALLS and any(isinstance(a, ast.Name) and a.id == u for a in n.args)
                          and n.lineno > assigns[-1].lineno]
                if others:
                    return 'derived from the same uci %r as %s (line %d)' % (u, others[0].func.attr, others[0].lineno)
                return True
    raise Unclassified('zero sharing without its own self._prss_uci(): %s' % unp(callnode))


def zero_sharing_flows(fn, stmts, calls):
    """Freshness of zero sharings: every generated sharing of zero (one call with its own _prss_uci()) may mask
    exactly ONE opening.  Returns ({site index: [generation line, ...]}, {generation line: reason it is reused}).
    Raises Unclassified on a use of a zero sharing that cannot be followed."""
    loops = _loops_of(fn)
    defs = []           # (name, stmt)
    for st, _ in stmts:
        if isinstance(st, ast.Assign) and isinstance(st.value, ast.Call) and \
                isinstance(st.value.func, ast.Attribute) and st.value.func.attr in ZERO_SHARING:
            tg = targets_of(st)
            if len(tg) != 1:
                raise Unclassified('zero sharing assigned to %r' % tg)
            defs.append((tg[0], st))
    znames = {n for n, _ in defs}
    flows = {}          # generation line -> set of site indices
    reused = {}
    for _, d in defs:
        why = _fresh_uci(d.value, fn)
        if why is not True:
            reused[d.lineno] = why

    def opening_of(W, line):
        for i, c in enumerate(calls):
            if c.lineno >= line and c.args and isinstance(c.args[0], ast.Name) and c.args[0].id == W:
                return i
        raise Unclassified('variable %r masked by a zero sharing at line %d is not opened afterwards' % (W, line))

    for st, _ in stmts:
        if any(st is d for _, d in defs):
            continue
        if isinstance(st, (ast.If, ast.For, ast.While, ast.AsyncFor, ast.With, ast.AsyncWith, ast.Try)):
            continue        # compound statements: their simple statements are listed separately
        direct = [n for n in ast.walk(st) if isinstance(n, ast.Call) and isinstance(n.func, ast.Attribute)
                  and n.func.attr in ZERO_SHARING]
        used = {n.id for n in ast.walk(st) if isinstance(n, ast.Name) and n.id in znames and isinstance(n.ctx, ast.Load)}
        if not direct and not used:
            continue
        tg = targets_of(st)
        ok_shape = (isinstance(st, ast.AugAssign) and isinstance(st.op, ast.Add)) or \
                   (isinstance(st, ast.Assign) and is_product_expr(st.value))
        if len(tg) != 1 or not ok_shape:
            raise Unclassified('use of a zero sharing not understood: %s' % unp(st))
        site = opening_of(tg[0], st.lineno)
        for d in direct:
            why = _fresh_uci(d, fn)
            if why is not True:
                reused[st.lineno] = why
            flows.setdefault(st.lineno, set()).add(site)
        for nm in used:
            cand = [d for n, d in defs if n == nm and d.lineno < st.lineno]
            if not cand:
                raise Unclassified('zero sharing %r used before it is generated: %s' % (nm, unp(st)))
            d = cand[-1]
            flows.setdefault(d.lineno, set()).add(site)
            if any(l not in loops.get(id(d), ()) for l in loops.get(id(st), ())):
                reused[d.lineno] = 'generated outside a loop in which it masks an opening (line %d)' % st.lineno
    for g, sites in flows.items():
        if len(sites) > 1:
            reused[g] = 'masks %d different openings' % len(sites)
    by_site = {}
    for g, sites in flows.items():
        for i in sites:
            by_site.setdefault(i, []).append(g)
    return by_site, reused


def product_rows(repo):
    rows, errors = [], []
    for mod, rel in MODULES.items():
        tree = ast.parse(open(os.path.join(repo, rel)).read())
        for fn, calls in internal_sites(tree):
            stmts = stmts_with_cond(fn)
            if not any(kw.arg == 'threshold' for c in calls for kw in c.keywords):
                continue
            try:
                z_by_site, z_reused = zero_sharing_flows(fn, stmts, calls)
            except Unclassified as exc:
                errors.append({'site': '%s.%s' % (mod, fn.name), 'line': fn.lineno, 'error': 'zero-sharing flow unclassified: %s' % exc})
                continue
            for i, call in enumerate(calls):
                if not any(kw.arg == 'threshold' for kw in call.keywords):
                    continue
                key = '%s.%s#%d' % (mod, fn.name, i)
                try:
                    arg = call.args[0]
                    if not isinstance(arg, ast.Name):
                        raise Unclassified('opened expression %s is not a local variable' % unp(arg))
                    V = arg.id
                    znames = _zero_sharing_names(fn, stmts)
                    site_label = None
                    for st, label in stmts:
                        if any(n is call for n in ast.walk(st)):
                            site_label = label        # innermost statement wins (later entries are nested deeper)
                    product, rer, conds = False, [], []
                    for st, label in stmts:
                        if st.lineno >= call.lineno or V not in targets_of(st):
                            continue
                        k = 0
                        while k < min(len(label), len(site_label)) and label[k] == site_label[k]:
                            k += 1
                        residual = label[k:]
                        val = st.value
                        if isinstance(st, ast.Assign) and is_product_expr(val):
                            product = True
                            if _mentions_zero_sharing(val, znames):
                                rer.append(residual)
                        elif isinstance(st, ast.Assign) and isinstance(_strip(val), ast.Call) and \
                                unp(_strip(val).func) == 'self._reshare' and unp(_strip(val).args[0]) == V:
                            rer.append(residual)
                            conds.append(' and '.join(residual))
                        elif isinstance(st, ast.AugAssign) and isinstance(st.op, ast.Add) and _mentions_zero_sharing(val, znames):
                            rer.append(residual)
                            conds.append(' and '.join(residual))
                        else:
                            raise Unclassified('assignment to the opened variable not understood: %s' % unp(st))
                    if not product:
                        raise Unclassified('no defining product found for opened variable %r' % V)
                    how = 'RAlways' if rer and _covers_all(rer) else ('RConditional' if rer else 'RNever')
                    stale = ['zero sharing generated at line %d %s' % (g, z_reused[g]) for g in z_by_site.get(i, []) if g in z_reused]
                    if stale:
                        how = 'RReused'
                        conds = stale
                    rows.append({'site': key, 'func': fn.name, 'line': call.lineno, 'opened': V, 'product': True, 'rerand': how,
                                 'threshold': unp([kw.value for kw in call.keywords if kw.arg == 'threshold'][0]),
                                 'conditions': sorted(set(c for c in conds if c))})
                except Unclassified as exc:
                    errors.append({'site': key, 'line': call.lineno, 'error': 'product opening unclassified: %s' % exc})
    return rows, errors


# ------------------------------------------------------------------------------------------------
# random._randbelow: the restart after a public rejection (its uniformity is what _mod's row relies on)

RANDBELOW_STMTS = ['x = runtime.random_bits(sectype, k)', 'h = 1', 'i = k', 't = (n & -n).bit_length()', 'i -= 1', 'h *= x[i]']


def randbelow_restart(repo):
    """(c, d) for the restart statement  x[i+c:] = runtime.random_bits(sectype, k - i - d)  of random._randbelow,
    after checking the rest of the sampler statement by statement.  Raises Unclassified."""
    tree = ast.parse(open(os.path.join(repo, MODULES['random'])).read())
    fns = [f for f in ast.walk(tree) if isinstance(f, (ast.FunctionDef, ast.AsyncFunctionDef)) and f.name == '_randbelow']
    if len(fns) != 1:
        raise Unclassified('random._randbelow not found')
    fn = fns[0]
    stmts = stmts_with_cond(fn)
    for tmpl in RANDBELOW_STMTS:
        if not find_stmt(stmts, tmpl):
            raise Unclassified('random._randbelow: statement not found: %s' % tmpl)
    loops = [st for st, _ in stmts if isinstance(st, ast.While)]
    if len(loops) != 1 or unp(loops[0].test) != 'i >= t':
        raise Unclassified('random._randbelow: sampling loop is not `while i >= t`')
    ifs = [st for st in loops[0].body if isinstance(st, ast.If)]
    if len(ifs) != 1 or unp(ifs[0].test) != 'b >> i & 1' or len(ifs[0].orelse) != 1 or not isinstance(ifs[0].orelse[0], ast.If):
        raise Unclassified('random._randbelow: loop body not understood')
    rej = ifs[0].orelse[0]
    if unp(rej.test) != 'await runtime.output(h * x[i])' or rej.orelse:
        raise Unclassified('random._randbelow: rejection test is %s' % unp(rej.test))
    body = [unp(st) for st in rej.body]
    if len(body) != 2 or body[1] != 'i = k':
        raise Unclassified('random._randbelow: restart branch is %r' % body)
    st = rej.body[0]

    def offset(e, base):
        """e == base + c  ->  c"""
        if unp(e) == base:
            return 0
        if isinstance(e, ast.BinOp) and isinstance(e.op, (ast.Add, ast.Sub)) and unp(e.left) == base and \
                isinstance(e.right, ast.Constant) and isinstance(e.right.value, int):
            return e.right.value if isinstance(e.op, ast.Add) else -e.right.value
        raise Unclassified('random._randbelow: restart statement not understood: %s' % unp(st))
    if not (isinstance(st, ast.Assign) and len(st.targets) == 1 and isinstance(st.targets[0], ast.Subscript)
            and unp(st.targets[0].value) == 'x' and isinstance(st.targets[0].slice, ast.Slice)
            and st.targets[0].slice.upper is None and st.targets[0].slice.step is None
            and isinstance(st.value, ast.Call) and unp(st.value.func) == 'runtime.random_bits' and len(st.value.args) == 2
            and unp(st.value.args[0]) == 'sectype'):
        raise Unclassified('random._randbelow: restart statement not understood: %s' % unp(st))
    c = offset(st.targets[0].slice.lower, 'i')
    d = -offset(st.value.args[1], 'k - i')
    return (c, d), unp(st)


def coq_pident(site):
    return 'prow_' + ''.join(c if c.isalnum() else '_' for c in site)


def coq_ident(site):
    return 'row_' + ''.join(c if c.isalnum() else '_' for c in site)


def emit(rows, errors, out, prows=(), restart=None):
    L = ['(* GENERATED by harness/gen_mask_table.py from mpyc/runtime.py, random.py, statistics.py - do not edit *)',
         'From Coq Require Import ZArith List String.', 'Require Import MPyC.Stat.', 'Import ListNotations.',
         'Local Open Scope Z_scope.', 'Local Open Scope string_scope.', '']
    for r in rows:
        L.append('(* %s  line %d: output(%s)' % (r['site'], r['line'], r['opened'].replace('*)', '* )')))
        if r['bound_src'] is not None:
            L.append('   mask bound: %s' % r['bound_src'])
        L.append('   %s *)' % (r['leak'] or '').replace('*)', '* )'))
        L.append('Definition %s : mrow := MkRow "%s" %s %s %s %s %s %s %s [%s].' % (
            coq_ident(r['site']), r['site'], r['kind'], r['mode'],
            'BNone' if r['bound'] is None else '(BExpr %s)' % coq_of(r['bound']),
            r['via'], coq_of(r['scale']), coq_of(r['secret']), coq_of(r['cap']),
            '; '.join('(%s, %s)' % (coq_of(a), coq_of(b)) for a, b in r['pre'])))
        L.append('')
    L.append('Definition mask_rows : list mrow := [%s].' % '; '.join(coq_ident(r['site']) for r in rows))
    L.append('')
    for r in prows:
        L.append('(* %s line %d: output(%s, threshold=%s); rerandomised: %s %s *)' % (
            r['site'], r['line'], r['opened'], r['threshold'], r['rerand'], '; '.join(r['conditions']).replace('*)', '* )')))
        L.append('Definition %s : prow := MkPRow "%s" %s %s.' % (
            coq_pident(r['site']), r['site'], 'true' if r['product'] else 'false', r['rerand']))
    L.append('Definition product_rows : list prow := [%s].' % '; '.join(coq_pident(r['site']) for r in prows))
    if restart is not None:
        L.append('(* random._randbelow restart after a public rejection: %s *)' % restart[1].replace('*)', '* )'))
        L.append('Definition randbelow_restart_src : Z * Z := ((%d), (%d)).' % restart[0])
    L.append('')
    L.append('(* translator errors: %d *)' % len(errors))
    for e in errors:
        L.append('(* ERROR %s *)' % json.dumps(e).replace('*)', '* )'))
    os.makedirs(os.path.dirname(out), exist_ok=True)
    tmp = out + '.tmp%d' % os.getpid()
    with open(tmp, 'w') as f:
        f.write('\n'.join(L) + '\n')
    os.replace(tmp, out)


if __name__ == '__main__':
    repo = sys.argv[1] if len(sys.argv) > 1 else os.environ.get('MPYC_REPO', '/repo')
    out = sys.argv[2] if len(sys.argv) > 2 else os.path.join(
        os.path.dirname(os.path.dirname(os.path.abspath(__file__))), 'coq', 'gen', 'MaskTable.v')
    rows, errors = generate(repo)
    prows, perrors = product_rows(repo)
    errors = errors + perrors
    try:
        restart = randbelow_restart(repo)
    except Unclassified as exc:
        restart = None
        errors.append({'site': 'random._randbelow', 'line': None, 'error': str(exc)})
    emit(rows, errors, out, prows, restart)
    print('RANDBELOW restart', restart)
    for r in prows:
        print('PRODUCT %-45s threshold=%-18s %-12s %s' % (r['site'], r['threshold'], r['rerand'], r['conditions']))
    for r in rows:
        print('%-70s %-14s %-12s bound=%s scale=%s' % (r['site'], r['kind'], r['mode'], r['bound_src'], coq_of(r['scale'])))
    for e in errors:
        print('ERROR', e)
    sys.exit(1 if errors else 0)
