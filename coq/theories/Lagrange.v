(** Lagrange recombination vectors exactly as thresha._recombination_vector computes them,
    and the interpolation theorem. *)
Require Import MPyC.Field MPyC.Poly.

Fixpoint remove_nth {A} (i : nat) (l : list A) : list A :=
  match l, i with [], _ => [] | _ :: l', O => l' | a :: l', S i' => a :: remove_nth i' l' end.

Lemma remove_nth_length {A} i (l : list A) : i < length l -> length (remove_nth i l) = pred (length l).
Proof.
  revert i; induction l as [|a l IH]; intros [|i] H; simpl in *; try lia.
  rewrite IH by lia. destruct l; simpl in *; lia.
Qed.

Lemma in_remove_nth {A} (d : A) i k (l : list A) :
  k < length l -> k <> i -> In (nth k l d) (remove_nth i l).
Proof.
  revert i k; induction l as [|a l IH]; intros i k Hk Hne; simpl in *; [lia|].
  destruct i as [|i], k as [|k]; simpl; try lia.
  - apply nth_In. lia.
  - auto.
  - right. apply IH; lia.
Qed.

Lemma remove_nth_incl {A} i (l : list A) x : In x (remove_nth i l) -> In x l.
Proof.
  revert i; induction l as [|a l IH]; intros [|i]; simpl; auto.
  intros [->|H]; auto. right; eapply IH; eauto.
Qed.

Lemma notin_remove_nth {A} (d : A) i (l : list A) :
  NoDup l -> i < length l -> ~ In (nth i l d) (remove_nth i l).
Proof.
  revert i; induction l as [|a l IH]; intros i Hnd Hi; simpl in *; [lia|].
  inversion Hnd as [|? ? Hnotin Hnd']; subst.
  destruct i as [|i]; simpl; [exact Hnotin|].
  intros [E|H].
  - apply Hnotin. rewrite E. apply nth_In. lia.
  - eapply IH; eauto. lia.
Qed.

Lemma seq_split_at k n : k < n -> seq 0 n = seq 0 k ++ k :: seq (S k) (n - S k).
Proof.
  intros H. replace n with (k + S (n - S k)) at 1 by lia.
  rewrite seq_app. simpl. reflexivity.
Qed.

Section LagrangeDefs.
Variable K : Ops.
Notation "0" := (f0 K). Notation "1" := (f1 K).
Infix "+" := (fadd K). Infix "*" := (fmul K). Infix "-" := (fsub K). Infix "/" := (fdiv K).

Definition lam_num (xs : list K) (xr : K) (i : nat) : K :=
  fprod (map (fun xj => xr - xj) (remove_nth i xs)).
Definition lam_den (xs : list K) (i : nat) : K :=
  fprod (map (fun xj => nth i xs 0 - xj) (remove_nth i xs)).
(** entry i of _recombination_vector(field, xs, x_r) *)
Definition lam (xs : list K) (xr : K) (i : nat) : K := lam_num xs xr i / lam_den xs i.

Definition recomb_vector (xs : list K) (xr : K) : list K := map (lam xs xr) (seq 0 (length xs)).

(** recombine for one column of shares ys at x-coordinates xs *)
Definition recombine_at (xs ys : list K) (xr : K) : K :=
  fsum (map (fun i => nth i ys 0 * lam xs xr i) (seq 0 (length xs))).

(** the i-th Lagrange basis polynomial as a coefficient list *)
Definition basis (xs : list K) (i : nat) : list K :=
  pscale (1 / lam_den xs i) (pprod (remove_nth i xs)).

Definition interpolant (xs ys : list K) : list K :=
  psum (map (fun i => pscale (nth i ys 0) (basis xs i)) (seq 0 (length xs))).
End LagrangeDefs.
Arguments lam_num {K}. Arguments lam_den {K}. Arguments lam {K}. Arguments recomb_vector {K}.
Arguments recombine_at {K}. Arguments basis {K}. Arguments interpolant {K}.

Section Lagrange.
Variable K : FieldT.
Add Field KF : (fth K).
Notation "0" := (f0 K). Notation "1" := (f1 K).
Infix "+" := (fadd K). Infix "*" := (fmul K). Infix "-" := (fsub K). Infix "/" := (fdiv K).

Lemma lam_den_neq0 (xs : list K) i : NoDup xs -> i < length xs -> lam_den xs i <> 0.
Proof.
  intros Hnd Hi. unfold lam_den. apply fprod_neq0. intros a Ha.
  apply in_map_iff in Ha. destruct Ha as [xj [<- Hj]].
  apply fsub_neq0. intros E. apply (notin_remove_nth 0 i xs Hnd Hi). rewrite E. exact Hj.
Qed.

Lemma lam_same (xs : list K) i : NoDup xs -> i < length xs -> lam xs (nth i xs 0) i = 1.
Proof.
  intros Hnd Hi. unfold lam. change (lam_num xs (nth i xs 0) i) with (lam_den xs i).
  field. apply lam_den_neq0; auto.
Qed.

Lemma lam_other (xs : list K) i k : NoDup xs -> i < length xs -> k < length xs -> k <> i ->
  lam xs (nth k xs 0) i = 0.
Proof.
  intros Hnd Hi Hk Hne. unfold lam.
  assert (E : lam_num xs (nth k xs 0) i = 0).
  { unfold lam_num. apply fprod_eq0. apply in_map_iff. exists (nth k xs 0). split; [ring|].
    apply in_remove_nth; auto. }
  rewrite E. field. apply lam_den_neq0; auto.
Qed.


Lemma eval_basis (xs : list K) i (x : K) : NoDup xs -> i < length xs -> eval (basis xs i) x = lam xs x i.
Proof.
  intros Hnd Hi. unfold basis, lam, lam_num. rewrite eval_pscale, eval_pprod.
  field. apply lam_den_neq0; auto.
Qed.

Lemma len_basis (xs : list K) i : i < length xs -> length (basis xs i) = length xs.
Proof. intros Hi. unfold basis. rewrite len_pscale, len_pprod, remove_nth_length by auto. lia. Qed.


Lemma eval_interpolant (xs ys : list K) (x : K) : NoDup xs -> eval (interpolant xs ys) x = recombine_at xs ys x.
Proof.
  intros Hnd. unfold interpolant, recombine_at. rewrite eval_psum, map_map.
  apply fsum_map_ext. intros i Hi. apply in_seq in Hi.
  rewrite eval_pscale, eval_basis by (auto; lia). reflexivity.
Qed.

Lemma len_interpolant (xs ys : list K) : length (interpolant xs ys) <= length xs.
Proof.
  unfold interpolant. apply len_psum. intros p Hp. apply in_map_iff in Hp.
  destruct Hp as [i [<- Hi]]. apply in_seq in Hi. rewrite len_pscale, len_basis; lia.
Qed.

(** the interpolant takes value y_k at x_k *)
Lemma recombine_at_node (xs ys : list K) k : NoDup xs -> k < length xs ->
  recombine_at xs ys (nth k xs 0) = nth k ys 0.
Proof.
  intros Hnd Hk. unfold recombine_at. rewrite (seq_split_at k (length xs) Hk).
  rewrite (fsum_single K (fun i => nth i ys 0 * lam xs (nth k xs 0) i)).
  - rewrite lam_same by auto. ring.
  - intros b Hb. apply in_seq in Hb. rewrite lam_other by (auto; lia). ring.
  - intros b Hb. apply in_seq in Hb. rewrite lam_other by (auto; lia). ring.
Qed.

(** Interpolation: recombining the values of a polynomial with at most |xs| coefficients at
    distinct nodes xs yields its value at ANY point x_r (also a node, also 0). *)
Theorem lagrange_eval (xs f : list K) (xr : K) : NoDup xs -> length f <= length xs ->
  recombine_at xs (map (eval f) xs) xr = eval f xr.
Proof.
  intros Hnd Hlen. rewrite <- eval_interpolant by auto.
  apply (poly_agree K xs); auto using len_interpolant.
  intros r Hr. destruct (In_nth xs r 0 Hr) as [k [Hk <-]].
  rewrite eval_interpolant, recombine_at_node by auto.
  rewrite <- (map_nth (eval f)). apply nth_indep. rewrite map_length; auto.
Qed.

(** Uniqueness: any ys are the values of the interpolant, which has <= |xs| coefficients *)
Theorem interpolant_values (xs ys : list K) k : NoDup xs -> k < length xs ->
  eval (interpolant xs ys) (nth k xs 0) = nth k ys 0.
Proof. intros. rewrite eval_interpolant, recombine_at_node; auto. Qed.

End Lagrange.
