(** C22 — field elements survive serialisation.  Statements over coq/theories/Serial.v
    (to_bytes / from_bytes / byte_length / signed_ / unsigned_ / __int__ of mpyc/finfields.py). *)
Require Import MPyC.Serial.
From Coq Require Import ZArith List.
Import ListNotations.
Local Open Scope nat_scope.

(** decoding the byte encoding returns the original values: every width r >= 1, every list length
    (0 included), every list of values in [0, 256^r); the encoding has r bytes per value *)
Theorem C22_from_bytes_to_bytes : forall r vs, 0 < r ->
  Forall (fun v => 0 <= v < 256 ^ Z.of_nat r)%Z vs ->
  exists data, to_bytes r vs = Some data /\ length data = r * length vs /\
               (forall b, In b data -> 0 <= b < 256)%Z /\ from_bytes r data = vs.
Proof. exact from_bytes_to_bytes. Qed.
Print Assumptions C22_from_bytes_to_bytes.

(** a value that does not fit is rejected (OverflowError), never truncated *)
Theorem C22_to_bytes_rejects : forall r vs,
  (exists v, In v vs /\ ~ (0 <= v < 256 ^ Z.of_nat r)%Z) -> to_bytes r vs = None.
Proof. exact to_bytes_rejects. Qed.
Print Assumptions C22_to_bytes_rejects.

(** byte_length = (order.bit_length() + 7) >> 3 is >= 1 and wide enough for every value below the order *)
Theorem C22_byte_length_fits : forall q, (1 <= q)%Z ->
  (q <= 256 ^ Z.of_nat (byte_length q))%Z /\ 1 <= byte_length q.
Proof. exact byte_length_fits. Qed.
Print Assumptions C22_byte_length_fits.

(** hence: every list of reduced values of a field of any order q round-trips *)
Theorem C22_field_roundtrip : forall q vs, (1 <= q)%Z -> Forall (fun v => 0 <= v < q)%Z vs ->
  exists data, to_bytes (byte_length q) vs = Some data /\ from_bytes (byte_length q) data = vs.
Proof. exact field_roundtrip. Qed.
Print Assumptions C22_field_roundtrip.

(** signed_ is the representative of v in (-p/2, p/2], unsigned_ is v itself *)
Theorem C22_signed_unsigned : forall p v, (2 <= p)%Z -> (0 <= v < p)%Z ->
  (signed p v mod p = v /\ - p < 2 * signed p v <= p /\ unsigned p v = v /\
   (signed p v = v \/ signed p v = v - p))%Z.
Proof. exact signed_unsigned. Qed.
Print Assumptions C22_signed_unsigned.

(** __int__ (either signedness) converts back to the same element *)
Theorem C22_int_view : forall p v b, (2 <= p)%Z -> (0 <= v < p)%Z -> (to_int b p v mod p = v)%Z.
Proof. exact int_view. Qed.
Print Assumptions C22_int_view.

(** Non-vacuity: GF(257) has byte_length 2; [256; 0; 1] <-> 00 01 00 00 01 00; signed 200 = -57. *)
Example C22_nonvacuous :
  byte_length 257 = 2 /\ to_bytes 2 [256; 0; 1]%Z = Some [0; 1; 0; 0; 1; 0]%Z /\
  from_bytes 2 [0; 1; 0; 0; 1; 0]%Z = [256; 0; 1]%Z /\ to_bytes 2 [] = Some [] /\ from_bytes 2 [] = [] /\
  signed 257 200 = (-57)%Z /\ signed 257 128 = 128%Z /\ signed 2 1 = 1%Z /\ to_bytes 1 [256]%Z = None.
Proof. vm_compute. repeat split. Qed.
