(** C33 — secure random functions (statements only; proofs in theories/RandomFns.v). *)
Require Import MPyC.RandomFns.
From Coq Require Import ZArith List.
Import ListNotations.
Local Open Scope nat_scope.
