"""C26 — generated field primes meet their size, Blum and root-of-unity constraints.

Proof: coq/props/C26.v over coq/theories/PrimeRoot.v (model of finfields.find_prime_root and
sectypes._pfield on top of the gmpy-stub models of Gmpy.v).  Tie: the real find_prime_root /
_pfield are run on a shared random.randint tape and compared exactly with the model (result and
number of draws); independently every returned (p, n, w) and every SecInt/SecFxp field is checked
against an independent Miller-Rabin, bit lengths, p % 4 and the order of w.
"""
import types
from lib.core import zlit, natlit, blit
from props.c25 import TapeRandom, tape_val, o_is_prime, call, eval_retry

MANIFEST = {
    'text': 'Coq theorems over a Gallina model of find_prime_root/_pfield, relative to the primality oracle accepting only '
            'primes: for n > 2 every candidate 1 + 2n(3 + 2*floor(2^(l-3)/n)) + 4nk is > 2^(l-1) (bit length >= l), is 3 mod 4 '
            'for odd n, and n divides p-1; the returned w satisfies w^n = 1, w != 1 (mod p), hence has order exactly the prime '
            'n; for n <= 2 the result is a prime (Blum if requested) below 2^l and has exactly l bits as soon as such a prime '
            'exists in [2^(l-1), 2^l) (existence proved by computation for 3 <= l <= 16); w = p-1 has order 2; _pfield returns '
            'a prime p > 2^(l+f+k+1) and p > #parties whenever threshold > 0, and refuses (ValueError/AssertionError) otherwise. '
            'The model is compared exactly with finfields.find_prime_root and sectypes._pfield on shared randint tapes, and '
            'all returned primes/roots and all SecInt(l)/SecFxp(l,f) fields, l = 1..64, are checked by independent oracles.',
    'note': 'Trusted: Coq kernel + vm_compute; models PrimeRoot.v/Gmpy.v tied to the code by exact comparison in this check; '
            'gmpy2.is_prime is Miller-Rabin on a random tape: theorems are relative to "the oracle accepts only primes" '
            '(C25 proves it never rejects a prime; acceptance of a composite has probability <= 4^-25 per call, not a theorem); '
            'existence of a (Blum) prime with exactly l bits is a hypothesis beyond l = 16 (Bertrand-type results not proved); '
            'PARTIAL: in the n > 2 branch ord(w) = n is proved under the side condition that the base a found by the root loop is '
            'not a multiple of p (that the loop stops before a = p is not proved); for a generated _pfield modulus the size bound '
            'is the composition of the find_prime_root theorems at bit length l+f+k+2 and is not restated as one theorem; '

            'prime searches take explicit fuel (no gap bound provable); functools.cache on pGF/_SecInt is bypassed in the '
            'correspondence runs. Observation (not flagged): for l <= 2 with blum the function returns (3, 2, 2) whatever n '
            'was requested, so the returned n can be below the requested one; the oracle checks ord(w) = returned n. '
            'Independent primality oracle = Miller-Rabin with the first 40 primes as bases (deterministic below 3.3e24).',
    'technique': 'Coq proofs (modular arithmetic of the candidate sequence, order of an element of prime order) + vm_compute '
                 'correspondence on shared randint tapes + independent primality/order oracles',
}

NS = (1, 2, 3, 5, 7, 17, 257, 4, 6)


def order_is(w, n, p):
    """w has multiplicative order exactly n modulo p (n small enough to enumerate its divisors)."""
    if w % p == 0:
        return False
    if pow(w, n, p) != 1:
        return False
    return all(pow(w, d, p) != 1 for d in range(1, n) if n % d == 0)


def run(ctx):
    from mpyc import gmpy, finfields, sectypes
    from mpyc.runtime import mpc
    import random as _random
    ok = ctx.build(['MPyC.PrimeRoot']) and ctx.check_props()
    rng = ctx.rng
    seed = rng.randrange(1, 10 ** 6)
    MB = (1 << 200) - 1
    ctx.rule = ('case = (l, blum, n, tape) for find_prime_root, l in 1..%d, n in %s, blum in {True, False}; '
                '(l, f, k, p, n, m, t, tape) for _pfield; (l) / (l, f) for SecInt/SecFxp, l in 1..64; non-trivial = a prime '
                'search is performed (l > 2 and no assertion failure)' % (ctx.n(130, 160), list(NS)))
    ctx.explanation = ('theorems relative to a sound primality oracle over the Gallina model; model == implementation '
                       '(value, exception class, randint draws) on a subset; every implementation result checked by '
                       'independent Miller-Rabin, bit lengths, p % 4, order of w')
    vcount = {}

    def viol(sig, detail):
        """Forward at most 5 violations per failing class (first word of sig) to the harness (one replay file each)."""
        key = sig.split(' ')[0]
        vcount[key] = vcount.get(key, 0) + 1
        if vcount[key] <= 5:
            ctx.violation(sig, detail)
    exprs, expect = [], []

    def tapefn(x):
        return lambda i: tape_val(seed, x, i, MB)

    # ---------------- find_prime_root
    LMAX = ctx.n(130, 160)
    dense = ctx.n(13, 40)          # every (l, n, blum) below this l goes through the model too
    sparse_ls = set(ctx.n([31, 32, 33, 64, 65, 96, 127, 130], list(range(41, 161, 7)) + [63, 64, 65, 127, 128]))
    for l in range(-1, LMAX + 1):
        combos = [(n, blum) for n in NS for blum in (True, False)]
        pick = set(rng.sample(range(len(combos)), ctx.n(2, 3))) if l in sparse_ls else set()
        for ci, (n, blum) in enumerate(combos):
            gmpy.random = T = TapeRandom(fn=tapefn(l * 1000 + n))
            r = call(finfields.find_prime_root, l, blum, n)
            draws = T.pos
            nontriv = l > 2 and isinstance(r, tuple)
            ctx.case(['find_prime_root', l, blum, n, seed], nontrivial=nontriv, kind='find_prime_root l<=2' if l <= 2 else
                     ('find_prime_root n<=2' if n <= 2 else 'find_prime_root n>2'))
            # expected exceptions: assertions only
            want_assert = (l <= 2 and not blum and n != 1) or (l > 2 and n > 2 and not blum)
            if want_assert:
                if r != 'EAssert':
                    viol('find_prime_root-missing-assert l=%d n=%d blum=%s' % (l, n, blum), {'l': l, 'n': n, 'blum': blum, 'got': r})
            elif not isinstance(r, tuple):
                viol('find_prime_root-raises l=%d n=%d blum=%s' % (l, n, blum), {'l': l, 'n': n, 'blum': blum, 'got': r})
            else:
                p, n2, w = r[1]
                bad = []
                if not o_is_prime(p):
                    bad.append('p not prime')
                if p.bit_length() < l:
                    bad.append('bit length %d < l' % p.bit_length())
                if n <= 2 and l >= 2 and p.bit_length() != l:
                    bad.append('bit length %d != l for n <= 2' % p.bit_length())
                if blum and p % 4 != 3:
                    bad.append('not Blum')
                if not 0 < w < p:
                    bad.append('w out of range')
                if l > 2:
                    if n2 < n or (n > 2 and not o_is_prime(n2)) or (n <= 2 and n2 != n):
                        bad.append('returned n=%d for requested %d' % (n2, n))
                    if o_is_prime(n) and n2 != n:
                        bad.append('prime n changed to %d' % n2)
                if not order_is(w, n2, p):
                    bad.append('w does not have order n=%d' % n2)
                if bad:
                    viol('find_prime_root-wrong l=%d n=%d blum=%s: %s' % (l, n, blum, bad[0]),
                         {'l': l, 'n': n, 'blum': blum, 'got': r, 'problems': bad, 'seed': seed})
            if l < dense or ci in pick:
                exprs.append('run_fpr 4000 %s %s %s %s %s' % (zlit(MB), zlit(seed), zlit(l), blit(blum), zlit(n)))
                expect.append((r, draws))

    # ---------------- _pfield directly, fake runtime (k, m, t), caches bypassed
    real_rt = sectypes.runtime
    pf_cases = []
    for k in (8, 30, 40):
        for l in ctx.n([1, 2, 8, 16, 31], [1, 2, 3, 8, 16, 31, 32, 64]):
            for f in (0, l // 2, l):
                pf_cases.append((l, f, k, None, rng.choice([1, 2, 2, 3, 257]), rng.choice([1, 3, 5]), rng.choice([0, 1, 2])))
    # user-supplied moduli: too small, exactly at the limit, composite, smaller than the number of parties
    for (l, f, k) in [(8, 0, 8), (4, 2, 8), (1, 0, 1), (0, 0, 0), (16, 8, 30)]:
        lim = l + f + k + 1
        for p in [2 ** lim - 1, 2 ** lim + 1, 2 ** (lim + 1) - 1, 2 ** lim + 3, 2 ** lim + 9, 2 ** lim + 15, 2 ** lim + 21]:
            pf_cases.append((l, f, k, p, 2, rng.choice([1, 3]), rng.choice([0, 1])))
    pf_cases += [(0, 0, 0, 3, 2, 5, 2), (0, 0, 0, 3, 2, 5, 0), (0, 0, 0, 5, 2, 5, 1), (0, 0, 0, 7, 2, 5, 1), (0, 0, 0, 2, 1, 1, 0),
                 (-5, 0, 0, 2, 1, 3, 1), (-5, 0, 2, 3, 1, 3, 1), (-5, 0, 2, 3, 1, 2, 1)]
    for (l, f, k, p, n, m, t) in pf_cases:
        sectypes.runtime = types.SimpleNamespace(options=types.SimpleNamespace(sec_param=k), threshold=t, parties=[None] * m)
        finfields.pGF.cache_clear()
        gmpy.random = T = TapeRandom(fn=tapefn(l * 1000 + f))
        try:
            fld = sectypes._pfield(l, f, p, n)
            r = ('Ok', int(fld.modulus))
        except ValueError:
            r = 'EValue'
        except AssertionError:
            r = 'EAssert'
        except ZeroDivisionError:
            r = 'EZeroDiv'
        finally:
            sectypes.runtime = real_rt
        draws = T.pos
        ctx.case(['_pfield', l, f, k, p, n, m, t, seed], nontrivial=isinstance(r, tuple), kind='_pfield')
        if isinstance(r, tuple):
            q = r[1]
            bad = []
            if not o_is_prime(q):
                bad.append('modulus not prime')
            if not (q > 2 ** (l + f + k + 1) or (l + f + k < 1 and q == 2 ** (l + f + k + 1))):
                # (degenerate l + f + k = 0: the coded bit-length test admits p = 2 = 2^(l+f+k+1); l >= 1 excludes it)
                bad.append('modulus <= 2^(l+f+k+1)')
            if t > 0 and not q > m:
                bad.append('modulus <= number of parties with threshold > 0')
            if p is None and q % 4 != 3:
                bad.append('generated modulus not Blum')
            if p is None and not order_is(int(fld.root), int(fld.nth), q):
                bad.append('root does not have order nth')
            if p is not None and q != p:
                bad.append('modulus differs from the supplied one')
            if bad:
                viol('_pfield-wrong l=%d f=%d k=%d: %s' % (l, f, k, bad[0]), {'args': [l, f, k, p, n, m, t], 'got': r, 'problems': bad})
        else:
            # a refusal must have a reason
            reason = (p is not None and (p.bit_length() <= l + f + k + 1 or not o_is_prime(p) or (t > 0 and m >= p)))
            if not reason:
                viol('_pfield-refuses l=%d f=%d k=%d' % (l, f, k), {'args': [l, f, k, p, n, m, t], 'got': r})
        exprs.append('run_pfield 4000 %s %s %s %s %s %s %s %s %s' % (
            zlit(MB), zlit(seed), zlit(l), zlit(f), zlit(k), 'None' if p is None else '(Some %s)' % zlit(p), zlit(n), zlit(m), zlit(t)))
        expect.append((r, draws))
    gmpy.random = _random
    finfields.pGF.cache_clear()

    # ---------------- SecInt / SecFxp as a user gets them (real runtime, single party, real randomness)
    k = mpc.options.sec_param
    m = len(mpc.parties)
    nsec = 0
    for l in range(1, 65):
        fs = sorted({0, 1, l // 2, l, rng.randrange(0, l + 1)})
        types_ = [('SecInt', l, 0, mpc.SecInt(l))] + [('SecFxp', l, f, mpc.SecFxp(l, f)) for f in fs]
        if l % 8 == 0:
            types_.append(('SecInt n=3', l, 0, mpc.SecInt(l, n=3)))
            types_.append(('SecFxp n=257', l, l // 2, mpc.SecFxp(l, l // 2, n=257)))
        for name, l_, f, st in types_:
            fld = st.field
            q = int(fld.modulus)
            bad = []
            if not o_is_prime(q):
                bad.append('modulus not prime')
            if not q > 2 ** (l_ + f + k + 1):
                bad.append('modulus <= 2^(l+f+k+1)')
            if q.bit_length() < l_ + f + k + 2:
                bad.append('bit length < l+f+k+2')
            if 'n=' not in name and q.bit_length() != l_ + f + k + 2:
                bad.append('bit length != l+f+k+2 for n = 2')
            if q % 4 != 3:
                bad.append('not Blum')
            if not q > m:
                bad.append('modulus <= number of parties')
            if not order_is(int(fld.root), int(fld.nth), q):
                bad.append('root does not have order nth')
            if 'n=3' in name and fld.nth != 3 or 'n=257' in name and fld.nth != 257:
                bad.append('nth not as requested')
            if st.bit_length != l_ or (name.startswith('SecFxp') and st.frac_length != f):
                bad.append('type parameters')
            if bad:
                viol('%s-field-wrong l=%d f=%d: %s' % (name.split()[0], l_, f, bad[0]),
                     {'type': name, 'l': l_, 'f': f, 'k': k, 'modulus': q, 'nth': fld.nth, 'root': fld.root, 'problems': bad})
            ctx.case([name, l_, f, k], nontrivial=True, kind=name.split()[0] + ' field')
            nsec += 1
    ctx.extra['sectype_fields_checked'] = nsec

    # ---------------- model vs implementation
    ctx.log('%d implementation cases; evaluating %d model expressions in Coq' % (ctx.evaluations, len(exprs)))
    if ok:
        chunk = ctx.n(12, 6)
        nch = len(exprs) // chunk + 1
        perm = sorted(range(len(exprs)), key=lambda i: (i % nch, i))      # spread the expensive (large l) cases over chunks
        out = eval_retry(ctx, ['MPyC.Gmpy', 'MPyC.PrimeRoot'], [exprs[i] for i in perm], chunk=chunk, jobs=14)
        res = [None] * len(exprs)
        for i, v in zip(perm, out):
            res[i] = v
        mism = 0
        for e, r, w in zip(exprs, res, expect):
            if isinstance(r, tuple) and r and r[0] == 'ERROR':
                mism += 1
                ctx.broken.append({'kind': 'correspondence', 'what': 'coq evaluation failed', 'expr': e[:200], 'detail': r[1]})
            elif norm(r) != norm(w):
                mism += 1
                ctx.broken.append({'kind': 'correspondence', 'expr': e[:200], 'model': str(r)[:300], 'impl': str(w)[:300]})
        ctx.extra['traces_validated_against_impl'] = len(exprs) - mism
        ctx.log('model/implementation: %d results compared, %d disagree' % (len(exprs), mism))
    if ctx.broken and not ctx.violations:
        ctx.unproved('C26 model/proof', {'broken': ctx.broken[:5]})


def norm(v):
    if isinstance(v, (list, tuple)):
        return tuple(norm(a) for a in v)
    return v
