(** Executable model of the pure-Python gmpy2 stubs in /repo/mpyc/gmpy.py (the stubs are the
    active code: gmpy2 is not installed), followed by their specifications.

    Conventions.  Python [//] and [%] are floor division: exactly Coq's [Z.div]/[Z.modulo].
    Python exceptions are the constructors [EValue] (ValueError), [EZeroDiv] (ZeroDivisionError),
    [EAssert] (AssertionError); [EFuel] is the model running out of fuel (theorems show it does not
    happen where fuel is computed by the model; search loops for primes take explicit fuel).
    [random.randint(lo, hi)] is an explicit tape: the next tape value [t] yields
    [lo + t mod (hi - lo + 1)] (a tape is a stream with a draw counter; a finite list is padded with 0); the harness patches
    [random.randint] in the same way.  Built-ins [pow(x, y, m)], [math.isqrt], [math.gcd],
    [int.bit_length], [&], [|], [>>] are modelled by [pow3], [Z.sqrt], [Z.gcd], [bit_length],
    [Z.land], [Z.lor], [Z.shiftr]. *)
From Coq Require Import ZArith Znumtheory Lia List Bool Permutation.
Import ListNotations.
Local Open Scope Z_scope.

Inductive res (A : Type) : Type :=
| Ok (a : A) | EValue | EZeroDiv | EAssert | EFuel.
Arguments Ok {A} a.
Arguments EValue {A}.
Arguments EZeroDiv {A}.
Arguments EAssert {A}.
Arguments EFuel {A}.

(** the random tape: a stream of values and the number of values drawn so far *)
Definition tape : Type := (Z -> Z) * Z.
Definition of_list (l : list Z) : tape := (fun i => nth (Z.to_nat i) l 0, 0).

(** ---- built-ins ---- *)
Definition bit_length (x : Z) : Z := if x =? 0 then 0 else Z.log2 (Z.abs x) + 1.

(** (y & -y).bit_length() - 1 *)
Definition val2 (y : Z) : Z := bit_length (Z.land y (- y)) - 1.

Definition randint (lo hi : Z) (tp : tape) : Z * tape :=
  (lo + (fst tp (snd tp)) mod (hi - lo + 1), (fst tp, snd tp + 1)).

(** number of Euclid steps allowed for divisor f: |f| < 2^k with k = log2_up|f| + 1, fuel 2k+1 *)
Definition euclid_fuel (f : Z) : nat := (2 * Z.to_nat (Z.log2_up (Z.abs f)) + 3)%nat.

(** ---- invert ---- *)
Fixpoint invert_loop (fuel : nat) (a b s s1 : Z) {struct fuel} : option (Z * Z) :=
  if b =? 0 then Some (a, s) else
  match fuel with
  | O => None
  | S k => let q := a / b in invert_loop k b (a mod b) s1 (s - q * s1)
  end.

Definition invert (x m : Z) : res Z :=
  if m =? 0 then EZeroDiv else
  let m := Z.abs m in
  if m =? 1 then Ok 0 else
  match invert_loop (euclid_fuel m) x m 1 0 with
  | None => EFuel
  | Some (a, s) => if negb (a =? 1) then EZeroDiv else Ok (if s <? 0 then s + m else s)
  end.

(** ---- powmod = built-in pow(x, y, m) ---- *)
Fixpoint powmod_pos (x : Z) (e : positive) (m : Z) : Z :=
  match e with
  | xH => x mod m
  | xO e' => let h := powmod_pos x e' m in (h * h) mod m
  | xI e' => let h := powmod_pos x e' m in (((h * h) mod m) * x) mod m
  end.

Definition pow3 (x y m : Z) : res Z :=
  if m =? 0 then EValue else
  match y with
  | Z0 => Ok (1 mod m)
  | Zpos e => Ok (powmod_pos x e m)
  | Zneg e => match invert x m with
              | Ok i => Ok (powmod_pos i e m)
              | _ => EValue
              end
  end.

Definition powmod := pow3.

(** value of pow(x, y, m) where no exception is possible (y >= 0, m <> 0) *)
Definition powZ (x y m : Z) : Z := match pow3 x y m with Ok v => v | _ => 0 end.

(** ---- is_prime ---- *)
Definition small_primes : list Z := [3; 5; 7; 11; 13; 17; 19; 23; 29; 31; 37; 41; 43; 47; 53].

Fixpoint trial (ps : list Z) (x : Z) : option bool :=
  match ps with
  | [] => None
  | p :: ps' => if x mod p =? 0 then Some (x =? p) else trial ps' x
  end.

(** while s%2 == 0: r += 1; s //= 2   (s > 0) *)
Fixpoint twos (s : positive) : Z * Z :=
  match s with
  | xO s' => let '(r, q) := twos s' in (r + 1, q)
  | _ => (0, Zpos s)
  end.

(** for _ in range(k): b = b*b % x; if b == x-1: break;  else: return False *)
Fixpoint mr_inner (k : nat) (b x : Z) : bool :=
  match k with
  | O => false
  | S k' => let b' := (b * b) mod x in if b' =? x - 1 then true else mr_inner k' b' x
  end.

Definition mr_round (x r s a : Z) : bool :=
  let b := powZ a s x in
  if (b =? 1) || (b =? x - 1) then true else mr_inner (Z.to_nat (r - 1)) b x.

Fixpoint mr_loop (n : nat) (x r s : Z) (tp : tape) : bool * tape :=
  match n with
  | O => (true, tp)
  | S n' => let '(a, tp') := randint 2 (x - 2) tp in
            if mr_round x r s a then mr_loop n' x r s tp' else (false, tp')
  end.

Definition is_prime_n (n : nat) (tp : tape) (x : Z) : bool * tape :=
  if (x <=? 2) || (x mod 2 =? 0) then (x =? 2, tp) else
  match trial small_primes x with
  | Some b => (b, tp)
  | None => match x - 1 with
            | Zpos sp => let '(r, s) := twos sp in mr_loop n x r s tp
            | _ => (false, tp)
            end
  end.

Definition is_prime : tape -> Z -> bool * tape := is_prime_n 25.

(** ---- next_prime / prev_prime, generic in the primality oracle ---- *)
Section PrimeSearch.
  Variable isp : tape -> Z -> bool * tape.

  Fixpoint search_loop (step : Z) (fuel : nat) (tp : tape) (x : Z) : res Z * tape :=
    match fuel with
    | O => (EFuel, tp)
    | S f => let '(b, tp') := isp tp x in
             if b then (Ok x, tp') else search_loop step f tp' (x + step)
    end.

  Definition next_prime_gen (fuel : nat) (tp : tape) (x : Z) : res Z * tape :=
    if x <=? 1 then (Ok 2, tp) else search_loop 2 fuel tp (x + (1 + x mod 2)).

  Definition prev_prime_gen (fuel : nat) (tp : tape) (x : Z) : res Z * tape :=
    if x <? 3 then (EValue, tp) else
    if x =? 3 then (Ok 2, tp) else search_loop (-2) fuel tp (x - (1 + x mod 2)).
End PrimeSearch.

Definition next_prime := next_prime_gen is_prime.
Definition prev_prime := prev_prime_gen is_prime.

(** ---- gcdext ---- *)
Fixpoint gcdext_loop (fuel : nat) (g f s s1 t t1 : Z) {struct fuel} : option (Z * Z * Z) :=
  if f =? 0 then Some (g, s, t) else
  match fuel with
  | O => None
  | S k => let q := g / f in
           gcdext_loop k f (g mod f) s1 (s - q * s1) t1 (t - q * t1)
  end.

Definition gcdext_fix (a b : Z) (gst : Z * Z * Z) : Z * Z * Z :=
  let '(g, s, t) := gst in
  let '(g, s, t) := if g <? 0 then (- g, - s, - t) else if g =? 0 then (g, 0, t) else (g, s, t) in
  if ((a <? 0) && (0 <? b) || (b <? 0) && (0 <? a)) && (Z.abs b =? 2 * g)
  then (g, - s, t - s * (Z.abs a / g)) else (g, s, t).

Definition gcdext (a b : Z) : res (Z * Z * Z) :=
  match gcdext_loop (euclid_fuel b) a b 1 0 0 1 with
  | None => EFuel
  | Some gst => Ok (gcdext_fix a b gst)
  end.

(** ---- jacobi / legendre / kronecker ---- *)
Definition flip8 (x : Z) : bool := (Z.land x 7 =? 3) || (Z.land x 7 =? 5).

Fixpoint jacobi_loop (fuel : nat) (x y j : Z) : option (Z * Z) :=
  match fuel with
  | O => None
  | S k =>
      let x' := y in
      let y' := x mod y in
      if y' =? 0 then Some (x', j) else
      let t := val2 y' in
      let j1 := if negb (Z.land t 1 =? 0) && flip8 x' then - j else j in
      let y2 := Z.shiftr y' t in
      let j2 := if negb (Z.land y2 3 =? 1) && negb (Z.land x' 3 =? 1) then - j1 else j1 in
      jacobi_loop k x' y2 j2
  end.

Definition jacobi (x y : Z) : res Z :=
  if negb ((0 <? y) && negb (Z.land y 1 =? 0)) then EValue else
  match jacobi_loop (euclid_fuel y) x y 1 with
  | None => EFuel
  | Some (x', j) => Ok (if negb (x' =? 1) then 0 else j)
  end.

Definition legendre := jacobi.

Definition kronecker (x y : Z) : res Z :=
  let k := 1 in
  let '(k, y) := if y =? 0 then ((if negb (Z.abs x =? 1) then 0 else k), 1) else (k, y) in
  let '(k, y) := if y <? 0 then ((if x <? 0 then - k else k), - y) else (k, y) in
  let '(k, y) :=
    if Z.land y 1 =? 0 then
      let t := val2 y in
      let k' := if Z.land x 1 =? 0 then 0
                else if negb (Z.land t 1 =? 0) && flip8 x then - k else k in
      (k', Z.shiftr y t)
    else (k, y) in
  match jacobi x y with
  | Ok j => Ok (k * j)
  | e => e
  end.

(** ---- isqrt / is_square / iroot ---- *)
Definition isqrt (x : Z) : res Z := if x <? 0 then EValue else Ok (Z.sqrt x).

Definition is_square (x : Z) : res bool :=
  let r := Z.land x 15 in
  if negb ((r =? 0) || (r =? 1) || (r =? 4) || (r =? 9)) then Ok false else
  match isqrt x with
  | Ok y => Ok (x =? y ^ 2)
  | EValue => EValue | EZeroDiv => EZeroDiv | EAssert => EAssert | EFuel => EFuel
  end.

(** for i in range(k-1, -1, -1): z = y | 1<<i; if z**n <= x: y = z *)
Fixpoint iroot_loop (x n : Z) (i : nat) (y : Z) : Z :=
  match i with
  | O => y
  | S i' => let z := Z.lor y (Z.shiftl 1 (Z.of_nat i')) in
            iroot_loop x n i' (if z ^ n <=? x then z else y)
  end.

Definition iroot (x n : Z) : res (Z * bool) :=
  if x =? 0 then Ok (x, true) else
  if n =? 0 then EZeroDiv else
  let k := (bit_length x - 1) / n in
  if k <? 0 then EValue (* 1 << k: negative shift count *) else
  if n <? 0 then (* k = 0, empty loop; x == 1**n compares with the float 1.0 *) Ok (1, x =? 1) else
  let y := iroot_loop x n (Z.to_nat k) (Z.shiftl 1 k) in
  Ok (y, x =? y ^ n).

(** ---- factor_prime_power ---- *)
(** d = 0; while x > 1: x, r = divmod(x, p); if r == 0: d += 1 else: raise ValueError *)
Fixpoint divout (fuel : nat) (x p d : Z) {struct fuel} : res (Z * Z) :=
  if negb (1 <? x) then Ok (p, d) else
  match fuel with
  | O => EFuel
  | S f => if x mod p =? 0 then divout f (x / p) p (d + 1) else EValue
  end.

Definition log_fuel (x : Z) : nat := (Z.to_nat (Z.log2_up (Z.abs x)) + 2)%nat.

Section FPP.
  Variable isp : tape -> Z -> bool * tape.
  Variable npf : nat.   (* fuel of each next_prime search *)

  (** p = 2; while p < 1<<k: if x % p == 0: ...return; p = next_prime(p) *)
  Fixpoint fpp_small (fuel : nat) (tp : tape) (x p : Z) : option (res (Z * Z)) * tape :=
    match fuel with
    | O => (Some EFuel, tp)
    | S f =>
        if p <? Z.shiftl 1 10 then
          if x mod p =? 0 then (Some (divout (log_fuel x) x p 0), tp)
          else match next_prime_gen isp npf tp p with
               | (Ok p', tp') => fpp_small f tp' x p'
               | (_, tp') => (Some EFuel, tp')
               end
        else (None, tp)
    end.

  (** while is_square(p): p, d = isqrt(p), 2*d     (p >= 2 here) *)
  Fixpoint fpp_sq (fuel : nat) (p d : Z) : res (Z * Z) :=
    match fuel with
    | O => EFuel
    | S f => match is_square p with
             | Ok true => fpp_sq f (Z.sqrt p) (2 * d)
             | Ok false => Ok (p, d)
             | _ => EValue
             end
    end.

  (** e = 3; while k * e <= p.bit_length(): w, b = iroot(p, e); if b: p, d = w, e*d else: e = next_prime(e) *)
  Fixpoint fpp_roots (fuel : nat) (tp : tape) (p d e : Z) : res (Z * Z) * tape :=
    match fuel with
    | O => (EFuel, tp)
    | S f =>
        if 10 * e <=? bit_length p then
          match iroot p e with
          | Ok (w, true) => fpp_roots f tp w (e * d) e
          | Ok (w, false) => match next_prime_gen isp npf tp e with
                             | (Ok e', tp') => fpp_roots f tp' p d e'
                             | (_, tp') => (EFuel, tp')
                             end
          | _ => (EValue, tp)
          end
        else (Ok (p, d), tp)
    end.

  Definition factor_prime_power_gen (tp : tape) (x : Z) : res (Z * Z) * tape :=
    if x <=? 1 then (EValue, tp) else
    match fpp_small 1100 tp x 2 with
    | (Some r, tp1) => (r, tp1)
    | (None, tp1) =>
        match fpp_sq (log_fuel x) x 1 with
        | Ok (p, d) =>
            match fpp_roots (log_fuel x) tp1 p d 3 with
            | (Ok (p, d), tp2) => let '(b, tp3) := isp tp2 p in
                                  if b then (Ok (p, d), tp3) else (EValue, tp3)
            | (EValue, tp2) => (EValue, tp2) | (EZeroDiv, tp2) => (EZeroDiv, tp2)
            | (EAssert, tp2) => (EAssert, tp2) | (EFuel, tp2) => (EFuel, tp2)
            end
        | EValue => (EValue, tp1) | EZeroDiv => (EZeroDiv, tp1)
        | EAssert => (EAssert, tp1) | EFuel => (EFuel, tp1)
        end
    end.
End FPP.

Definition factor_prime_power (npf : nat) := factor_prime_power_gen is_prime npf.

(** ---- ratrec ---- *)
(** while n > N: n0, (q, n) = n, divmod(n0, n); d0, d = d, d0 - q*d *)
Fixpoint ratrec_loop (fuel : nat) (N n0 n d0 d : Z) {struct fuel} : option (Z * Z) :=
  if negb (N <? n) then Some (n, d) else
  match fuel with
  | O => None
  | S k => let q := n0 / n in ratrec_loop k N n (n0 mod n) d (d0 - q * d)
  end.

Definition ratrec_core (x y N D : Z) : res (Z * Z) :=
  if (N <? 0) || (D <=? 0) || (y <=? 2 * N * D) then EValue else
  match ratrec_loop (euclid_fuel y) N x y 1 0 with
  | None => EFuel
  | Some (n, d) =>
      let '(n, d) := if d <? 0 then (- n, - d) else (n, d) in
      if (d <=? D) && (Z.gcd n d =? 1) then Ok (n, d) else EValue
  end.

Definition ratrec (x y : Z) (N D : option Z) : res (Z * Z) :=
  match N, D with
  | None, None =>
      match isqrt ((y - 1) / 2) with
      | Ok r => let D := Z.max 1 r in ratrec_core x y ((y - 1) / (2 * D)) D
      | _ => EValue
      end
  | None, Some D => if 2 * D =? 0 then EZeroDiv else ratrec_core x y ((y - 1) / (2 * D)) D
  | Some N, None => ratrec_core x y N (if negb (N =? 0) then (y - 1) / (2 * N) else 1)
  | Some N, Some D => ratrec_core x y N D
  end.

(** ---- helpers for the correspondence runs ---- *)
Definition zrange (lo : Z) (n : nat) : list Z := map (fun i => lo + Z.of_nat i) (seq 0 n).
Definition grid {A} (f : Z -> Z -> A) (lo : Z) (n : nat) (lo2 : Z) (n2 : nat) : list (list A) :=
  map (fun a => map (f a) (zrange lo2 n2)) (zrange lo n).
Definition used {A} (r : A * tape) : A * Z := (fst r, snd (snd r)).

(** pseudo-random tape computed identically by the harness (so that long tapes need no literals) *)
Definition M521 : Z := Eval vm_compute in 2 ^ 521 - 1.
Definition gen_tape (M seed x : Z) : tape :=
  (fun i => let b := (seed + x) * (2 * i + 1) * 2654435761 + i in
            Z.land (Z.shiftr (b * b + x * i) 7) M, 0).
Definition run_is_prime (M seed x : Z) := used (is_prime (gen_tape M seed x) x).
Definition run_next_prime (fuel : nat) (M seed x : Z) := used (next_prime fuel (gen_tape M seed x) x).
Definition run_prev_prime (fuel : nat) (M seed x : Z) := used (prev_prime fuel (gen_tape M seed x) x).
Definition run_fpp (npf : nat) (M seed x : Z) := used (factor_prime_power npf (gen_tape M seed x) x).
