#!/usr/bin/env python3
"""Regenerate /verif/MANIFEST.json from the MANIFEST dict of each harness/props/cXX.py."""
import os, re, ast, json
HERE = os.path.dirname(os.path.abspath(__file__))
VERIF = os.path.dirname(HERE)
props = [json.loads(l) for l in open(os.path.join(VERIF, 'properties.jsonl'))]
checks, na = [], []
NA_REASONS = json.load(open(os.path.join(HERE, 'not_applicable.json'))) if os.path.exists(os.path.join(HERE, 'not_applicable.json')) else {}
for p in props:
    pid = p['id']
    f = os.path.join(HERE, 'props', pid.lower() + '.py')
    entry = None
    if os.path.exists(f):
        tree = ast.parse(open(f).read())
        for node in tree.body:
            if isinstance(node, ast.Assign) and any(isinstance(t, ast.Name) and t.id == 'MANIFEST' for t in node.targets):
                entry = ast.literal_eval(node.value)
    if entry is None:
        na.append({'property_id': pid, 'reason': NA_REASONS.get(pid, 'no check built yet for this property in this round (machine-checked-proof machinery not yet extended to it)')})
        continue
    checks.append({
        'property_id': pid,
        'quick_cmd': './check %s --tier quick' % pid,
        'thorough_cmd': './check %s --tier thorough' % pid,
        'evidence_file': '/verif/evidence/%s.json' % pid,
        'replay_cmd_template': './check %s --replay {path}' % pid,
        'engine': 'coq+correspondence',
        'level_claimed': {'category': 'proof', 'text': entry['text'], 'design_ref': 'DESIGN.md §6 ' + pid},
        'level_note': entry['note'],
        'technique': entry.get('technique', 'machine-checked proof in Coq 8.16.1 over a Gallina model + differential correspondence with /repo'),
    })
man = {
    'version': 1,
    'setup_cmd': './setup.sh',
    'hooks': {'guard': 'MPYC_VERIF', 'enable': 'none needed: the harness monkeypatches freshly imported copies of mpyc from outside; MPYC_VERIF=1 is exported for form',
              'baseline_off_cmd': 'cd /repo && /venv/bin/python -m pytest -ra -q -p no:cacheprovider --timeout=900 --continue-on-collection-errors',
              'source_commits': [], 'add_only': True},
    'engines': [{'name': 'coq+correspondence', 'path': '/verif/harness/check.py',
                 'serves_properties': [c['property_id'] for c in checks],
                 'kind_free_text': 'Coq 8.16.1 development in /verif/coq (theorems in coq/props/Cxx.v over models in coq/theories) '
                                   '+ Python harness evaluating the model by vm_compute against the implementation'}],
    'checks': checks,
    'not_applicable': na,
    'notes': 'See DESIGN.md. known_findings.json lists genuine defects recorded/fixed.',
}
json.dump(man, open(os.path.join(VERIF, 'MANIFEST.json'), 'w'), indent=1)
print('MANIFEST.json: %d checks, %d not_applicable' % (len(checks), len(na)))
