Require Import MPyC.Gmpy.
From Coq Require Import ZArith Znumtheory Lia List Bool Zpow_facts.
Import ListNotations.
Local Open Scope Z_scope.

(** Completeness and uniqueness of rational reconstruction (Wang) for [ratrec_core]. *)

Definition is_ratrec (x y N D n d : Z) : Prop :=
  (n - x * d) mod y = 0 /\ - N <= n <= N /\ 0 < d <= D /\ Z.gcd n d = 1.

(** ---- helpers ---- *)

Lemma small_multiple : forall y a, 0 < y -> (y | a) -> - y < a < y -> a = 0.
Proof.
  intros y a Hy [k Hk] Ha. subst a.
  assert (k = 0) as -> by nia. ring.
Qed.

Lemma is_ratrec_div : forall x y N D n d, 0 < y -> is_ratrec x y N D n d -> (y | n - x * d).
Proof.
  intros x y N D n d Hy (H & _). apply Z.mod_divide; [lia|exact H].
Qed.

Lemma prod_bound : forall N D n d, - N <= n <= N -> 0 < d <= D -> - (N * D) <= n * d <= N * D.
Proof. intros N D n d Hn Hd. split; nia. Qed.

(** ---- uniqueness ---- *)

Theorem ratrec_unique : forall x y N D n d n' d', 0 <= N -> 0 < D -> 2 * N * D < y ->
  is_ratrec x y N D n d -> is_ratrec x y N D n' d' -> n = n' /\ d = d'.
Proof.
  intros x y N D n d n' d' HN HD Hy H1 H2.
  assert (Hy0 : 0 < y) by nia.
  pose proof (is_ratrec_div _ _ _ _ _ _ Hy0 H1) as Hd1.
  pose proof (is_ratrec_div _ _ _ _ _ _ Hy0 H2) as Hd2.
  destruct H1 as (_ & Hn1 & Hdd1 & Hg1). destruct H2 as (_ & Hn2 & Hdd2 & Hg2).
  assert (Hdiv : (y | n * d' - n' * d)).
  { replace (n * d' - n' * d) with ((n - x * d) * d' - (n' - x * d') * d) by ring.
    apply Z.divide_sub_r; apply Z.divide_mul_l; assumption. }
  pose proof (prod_bound N D n d' Hn1 Hdd2) as B1.
  pose proof (prod_bound N D n' d Hn2 Hdd1) as B2.
  assert (Hcross : n * d' = n' * d).
  { assert (n * d' - n' * d = 0); [|lia].
    apply (small_multiple y); [exact Hy0|exact Hdiv|lia]. }
  assert (Hdd' : (d | d')).
  { apply Z.gauss with (m := n).
    - exists n'. lia.
    - rewrite Z.gcd_comm. exact Hg1. }
  assert (Hd'd : (d' | d)).
  { apply Z.gauss with (m := n').
    - exists n. lia.
    - rewrite Z.gcd_comm. exact Hg2. }
  assert (Heq : d = d') by (apply Z.divide_antisym_nonneg; [lia|lia|assumption|assumption]).
  split; [|exact Heq]. subst d'. nia.
Qed.

(** ---- completeness ---- *)

Definition Inv (x y N n0 n d0 d : Z) : Prop :=
  (y | n - x * d) /\ (y | n0 - x * d0) /\ 0 <= n < n0 /\ N < n0 /\ d0 * d <= 0 /\ d <> 0 /\
  (n0 * d - n * d0 = y \/ n0 * d - n * d0 = - y).

Lemma ratrec_loop_S : forall k N n0 n d0 d,
  ratrec_loop (S k) N n0 n d0 d =
  if negb (N <? n) then Some (n, d) else ratrec_loop k N n (n0 mod n) d (d0 - n0 / n * d).
Proof. reflexivity. Qed.

Lemma Inv_step : forall x y N n0 n d0 d, 0 <= N -> N < n ->
  Inv x y N n0 n d0 d -> Inv x y N n (n0 mod n) d (d0 - n0 / n * d).
Proof.
  intros x y N n0 n d0 d HN Hlt (H1 & H0 & Hn & HN0 & Hsg & Hd & Hdet).
  pose proof (Z.mod_pos_bound n0 n ltac:(lia)) as Hb.
  pose proof (Z.div_mod n0 n ltac:(lia)) as Hdm.
  assert (Hq : 1 <= n0 / n) by (apply Z.div_le_lower_bound; lia).
  set (q := n0 / n) in *. set (r := n0 mod n) in *.
  assert (Hr : r = n0 - n * q) by lia.
  unfold Inv. split; [|split; [|split; [|split; [|split; [|split]]]]].
  - rewrite Hr.
    replace (n0 - n * q - x * (d0 - q * d)) with ((n0 - x * d0) - q * (n - x * d)) by ring.
    apply Z.divide_sub_r; [exact H0|]. apply Z.divide_mul_r. exact H1.
  - exact H1.
  - lia.
  - lia.
  - assert (0 <= q * (d * d)) by nia.
    replace (d * (d0 - q * d)) with (d0 * d - q * (d * d)) by ring. lia.
  - intro Hz. assert (d0 = q * d) by lia. subst d0.
    assert (0 < d * d) by nia. nia.
  - replace (n * (d0 - q * d) - r * d) with (- (n0 * d - n * d0)) by (rewrite Hr; ring).
    lia.
Qed.

Lemma ratrec_loop_Inv : forall x y N fuel n0 n d0 d n' d', 0 <= N ->
  Inv x y N n0 n d0 d ->
  ratrec_loop fuel N n0 n d0 d = Some (n', d') ->
  exists n0' d0', Inv x y N n0' n' d0' d' /\ n' <= N.
Proof.
  intros x y N. induction fuel as [|fuel IH]; intros n0 n d0 d n' d' HN HI Hl.
  - cbn [ratrec_loop] in Hl. destruct (N <? n) eqn:E; cbn [negb] in Hl; [discriminate|].
    apply Z.ltb_ge in E. inversion Hl; subst. exists n0, d0. split; [exact HI|lia].
  - rewrite ratrec_loop_S in Hl. destruct (N <? n) eqn:E; cbn [negb] in Hl.
    + apply Z.ltb_lt in E. apply IH in Hl; [exact Hl|exact HN|].
      apply Inv_step; assumption.
    + apply Z.ltb_ge in E. inversion Hl; subst. exists n0, d0. split; [exact HI|lia].
Qed.

(** the key sign/size argument: the solution is a combination alpha*(n0,d0) + beta*(n,d)
    of the two last remainder rows, and alpha must vanish *)
Lemma alpha_zero : forall N D y ns ds n0 n d0 d alpha beta,
  0 <= N -> 0 < D -> 2 * N * D < y ->
  - N <= ns <= N -> 0 < ds <= D -> 0 <= n <= N -> N < n0 ->
  d0 * d <= 0 -> d <> 0 ->
  (n0 * d - n * d0 = y \/ n0 * d - n * d0 = - y) ->
  ns = alpha * n0 + beta * n -> ds = alpha * d0 + beta * d ->
  alpha = 0.
Proof.
  intros N D y ns ds n0 n d0 d alpha beta HN HD Hy Hns Hds Hn Hn0 Hsg Hd Hdet Ens Eds.
  assert (HA : ns * d - ds * n = alpha * (n0 * d - n * d0)) by (subst ns ds; ring).
  destruct (Z.eq_dec alpha 0) as [|Ha]; [assumption|exfalso].
  (* bound used in the "opposite signs" cases *)
  assert (Hsmall : - D <= d <= D -> False).
  { intros Hdb.
    assert (- (N * D) <= ns * d <= N * D) by (split; nia).
    assert (- (N * D) <= ds * n <= N * D) by (split; nia).
    assert (- y < alpha * (n0 * d - n * d0) < y) by lia.
    destruct Hdet as [Hdet|Hdet]; rewrite Hdet in *; nia. }
  destruct (Z_lt_le_dec 0 alpha) as [Hap|Han].
  - (* alpha > 0 *)
    assert (n0 <= alpha * n0) by nia.
    destruct (Z_lt_le_dec beta 0) as [Hbn|Hbp].
    + destruct (Z_lt_le_dec 0 d) as [Hdp|Hdn].
      * assert (d0 <= 0) by nia.
        assert (alpha * d0 <= 0) by nia. assert (beta * d < 0) by nia. lia.
      * assert (Hdneg : d < 0) by lia. assert (0 <= d0) by nia.
        assert (0 <= alpha * d0) by nia. assert (- d <= beta * d) by nia.
        apply Hsmall. lia.
    + assert (0 <= beta * n) by nia. lia.
  - (* alpha < 0 *)
    assert (Han' : alpha < 0) by lia.
    assert (alpha * n0 <= - n0) by nia.
    destruct (Z_lt_le_dec 0 beta) as [Hbp|Hbn].
    + destruct (Z_lt_le_dec 0 d) as [Hdp|Hdn].
      * assert (d0 <= 0) by nia.
        assert (0 <= alpha * d0) by nia. assert (d <= beta * d) by nia.
        apply Hsmall. lia.
      * assert (Hdneg : d < 0) by lia. assert (0 <= d0) by nia.
        assert (alpha * d0 <= 0) by nia. assert (beta * d < 0) by nia. lia.
    + assert (beta * n <= 0) by nia. lia.
Qed.

Lemma exit_state : forall x y N D ns ds n0 n d0 d,
  0 <= N -> 0 < D -> 2 * N * D < y ->
  is_ratrec x y N D ns ds -> Inv x y N n0 n d0 d -> n <= N ->
  (n = ns /\ d = ds) \/ (n = - ns /\ d = - ds).
Proof.
  intros x y N D ns ds n0 n d0 d HN HD Hy Hs HI HnN.
  assert (Hy0 : 0 < y) by nia.
  pose proof (is_ratrec_div _ _ _ _ _ _ Hy0 Hs) as Hsd.
  destruct Hs as (_ & Hns & Hds & Hg).
  destruct HI as (H1 & H0 & Hn & HN0 & Hsg & Hd & Hdet).
  assert (HA : (y | ns * d - ds * n)).
  { replace (ns * d - ds * n) with ((ns - x * ds) * d - ds * (n - x * d)) by ring.
    apply Z.divide_sub_r; [apply Z.divide_mul_l|apply Z.divide_mul_r]; assumption. }
  assert (HB : (y | n0 * ds - d0 * ns)).
  { replace (n0 * ds - d0 * ns) with ((n0 - x * d0) * ds - d0 * (ns - x * ds)) by ring.
    apply Z.divide_sub_r; [apply Z.divide_mul_l|apply Z.divide_mul_r]; assumption. }
  destruct HA as [a Ha]. destruct HB as [b Hb].
  assert (Hc1 : (n0 * d - n * d0) * ns = (n0 * ds - d0 * ns) * n + (ns * d - ds * n) * n0) by ring.
  assert (Hc2 : (n0 * d - n * d0) * ds = (n0 * ds - d0 * ns) * d + (ns * d - ds * n) * d0) by ring.
  rewrite Ha, Hb in Hc1, Hc2.
  assert (Hcomb : exists alpha beta, ns = alpha * n0 + beta * n /\ ds = alpha * d0 + beta * d).
  { destruct Hdet as [Hdet|Hdet]; rewrite Hdet in Hc1, Hc2.
    - exists a, b. split.
      + apply (Z.mul_reg_l _ _ y); [lia|]. rewrite Hc1. ring.
      + apply (Z.mul_reg_l _ _ y); [lia|]. rewrite Hc2. ring.
    - exists (- a), (- b). split.
      + apply (Z.mul_reg_l _ _ (- y)); [lia|]. rewrite Hc1. ring.
      + apply (Z.mul_reg_l _ _ (- y)); [lia|]. rewrite Hc2. ring. }
  destruct Hcomb as (alpha & beta & Ens & Eds).
  assert (Hal : alpha = 0).
  { apply (alpha_zero N D y ns ds n0 n d0 d alpha beta); try assumption; lia. }
  subst alpha.
  assert (Ens' : ns = beta * n) by lia. assert (Eds' : ds = beta * d) by lia.
  assert (Hb1 : (beta | 1)).
  { rewrite <- Hg. apply Z.gcd_greatest; [exists n|exists d]; lia. }
  apply Z.divide_1_r in Hb1. destruct Hb1 as [-> | ->]; [left|right]; lia.
Qed.

Theorem ratrec_core_complete : forall x y N D n d, 0 <= N -> 0 < D -> 2 * N * D < y ->
  is_ratrec x y N D n d -> ratrec_core x y N D = Ok (n, d).
Proof.
  intros x y N D ns ds HN HD Hy Hs.
  assert (Hy0 : 0 < y) by nia.
  assert (HNy : N < y) by nia.
  unfold ratrec_core.
  assert (C : (N <? 0) || (D <=? 0) || (y <=? 2 * N * D) = false).
  { apply orb_false_iff. split; [apply orb_false_iff; split|].
    - apply Z.ltb_ge; lia.
    - apply Z.leb_gt; lia.
    - apply Z.leb_gt; lia. }
  rewrite C.
  destruct (ratrec_loop (euclid_fuel y) N x y 1 0) as [[n1 d1]|] eqn:L.
  2:{ exfalso. destruct (PE.euclid_fuel_ok y) as (k & Hk1 & Hk2).
      revert L. apply PE.ratrec_loop_term with (k := k); [exact HN|lia|exact Hk2]. }
  assert (Hf : exists k, euclid_fuel y = S k).
  { unfold euclid_fuel. exists (2 * Z.to_nat (Z.log2_up (Z.abs y)) + 2)%nat. lia. }
  destruct Hf as [k Hk]. rewrite Hk in L.
  rewrite ratrec_loop_S in L.
  assert (E : N <? y = true) by (apply Z.ltb_lt; exact HNy).
  rewrite E in L. cbn [negb] in L.
  replace (1 - x / y * 0) with 1 in L by ring.
  assert (HI0 : Inv x y N y (x mod y) 0 1).
  { pose proof (Z.mod_pos_bound x y Hy0) as Hb.
    unfold Inv. split; [|split; [|split; [|split; [|split; [|split]]]]].
    - rewrite Z.mod_eq by lia. exists (- (x / y)). ring.
    - exists 1. ring.
    - lia.
    - lia.
    - lia.
    - lia.
    - left. ring. }
  destruct (ratrec_loop_Inv x y N k _ _ _ _ n1 d1 HN HI0 L) as (n0' & d0' & HI & Hle).
  pose proof (exit_state x y N D ns ds n0' n1 d0' d1 HN HD Hy Hs HI Hle) as Hex.
  destruct Hs as (_ & Hns & Hds & Hg).
  destruct Hex as [[-> ->] | [-> ->]].
  - assert (E1 : ds <? 0 = false) by (apply Z.ltb_ge; lia). rewrite E1.
    assert (E2 : ds <=? D = true) by (apply Z.leb_le; lia). rewrite E2.
    assert (E3 : Z.gcd ns ds =? 1 = true) by (apply Z.eqb_eq; exact Hg). rewrite E3.
    reflexivity.
  - assert (E1 : - ds <? 0 = true) by (apply Z.ltb_lt; lia). rewrite E1.
    rewrite !Z.opp_involutive.
    assert (E2 : ds <=? D = true) by (apply Z.leb_le; lia). rewrite E2.
    assert (E3 : Z.gcd ns ds =? 1 = true) by (apply Z.eqb_eq; exact Hg). rewrite E3.
    reflexivity.
Qed.

Corollary ratrec_core_iff : forall x y N D n d, 0 <= N -> 0 < D -> 2 * N * D < y ->
  (ratrec_core x y N D = Ok (n, d) <-> is_ratrec x y N D n d).
Proof.
  intros x y N D n d HN HD Hy. split.
  - intro H. apply ratrec_core_sound in H.
    destruct H as (_ & _ & _ & H1 & H2 & H3 & H4). unfold is_ratrec. auto.
  - apply ratrec_core_complete; assumption.
Qed.

Lemma ratrec_core_cases : forall x y N D,
  ratrec_core x y N D = EValue \/ ratrec_core x y N D = EFuel \/
  exists n d, ratrec_core x y N D = Ok (n, d).
Proof.
  intros x y N D. unfold ratrec_core.
  destruct ((N <? 0) || (D <=? 0) || (y <=? 2 * N * D)); [left; reflexivity|].
  destruct (ratrec_loop (euclid_fuel y) N x y 1 0) as [[n1 d1]|]; [|right; left; reflexivity].
  destruct (if d1 <? 0 then (- n1, - d1) else (n1, d1)) as [n2 d2].
  destruct ((d2 <=? D) && (Z.gcd n2 d2 =? 1)); [|left; reflexivity].
  right; right. exists n2, d2. reflexivity.
Qed.

Corollary ratrec_core_raises_iff_none : forall x y N D, 0 <= N -> 0 < D -> 2 * N * D < y ->
  (ratrec_core x y N D = EValue <-> ~ exists n d, is_ratrec x y N D n d).
Proof.
  intros x y N D HN HD Hy. split.
  - intros H (n & d & Hs).
    apply (ratrec_core_complete x y N D n d HN HD Hy) in Hs. rewrite H in Hs. discriminate.
  - intro Hno. destruct (ratrec_core_cases x y N D) as [H | [H | (n & d & H)]].
    + exact H.
    + exfalso. exact (ratrec_core_no_fuel x y N D H).
    + exfalso. apply Hno. exists n, d.
      apply (ratrec_core_iff x y N D n d HN HD Hy). exact H.
Qed.

(** ---- non-vacuity ---- *)

Example ratrec_core_ex : ratrec_core 34 101 7 7 = Ok (1, 3).
Proof. vm_compute. reflexivity. Qed.

Example is_ratrec_ex : is_ratrec 34 101 7 7 1 3.
Proof. unfold is_ratrec. repeat split; vm_compute; congruence. Qed.

(* a case with no solution: the model raises ValueError *)
Example ratrec_core_ex_none : ratrec_core 10 101 2 2 = EValue.
Proof. vm_compute. reflexivity. Qed.

