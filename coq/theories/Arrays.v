(** Row-major arrays as (shape, flat list): the index maps behind the NumPy-style operations on
    secure arrays (mpyc runtime np_* methods act on the flat share arrays through NumPy; the
    secure content is elementwise).  The theorems are the index arithmetic that lets scalar-level
    results transfer to arrays: reshape, transpose (rank 2), concatenate/stack along axis 0 and
    axis 1 (rank 2), broadcasting of a scalar / row / column against a matrix, elementwise lifting,
    matmul, and sum/prod over all elements. Values are integers (field elements are reduced
    elementwise by the caller). *)
Require Import MPyC.Base.
From Coq Require Import ZArith Lia.

Definition array := (list nat * list Z)%type.
Definition shape (a : array) : list nat := fst a.
Definition flat (a : array) : list Z := snd a.
Definition size (s : list nat) : nat := fold_right Nat.mul 1 s.
Definition wf (a : array) : Prop := length (flat a) = size (shape a).

Definition zsum (l : list Z) : Z := fold_right Z.add 0%Z l.
Definition zprod (l : list Z) : Z := fold_right Z.mul 1%Z l.

(** ** index arithmetic *)
Lemma idx_div i j c : j < c -> (i * c + j) / c = i.
Proof. intros H. symmetry. apply (Nat.div_unique _ c i j); lia. Qed.
Lemma idx_mod i j c : j < c -> (i * c + j) mod c = j.
Proof. intros H. symmetry. apply (Nat.mod_unique _ c i j); lia. Qed.
Lemma idx_lt i j r c : i < r -> j < c -> i * c + j < r * c.
Proof. intros. nia. Qed.

(** entry k of the concatenation of rows of equal length n *)
Lemma nth_concat_uniform (ls : list (list Z)) n : forall i k,
  (forall l, In l ls -> length l = n) -> i < length ls -> k < n ->
  nth (i * n + k) (concat ls) 0%Z = nth k (nth i ls []) 0%Z.
Proof.
  induction ls as [|l ls IH]; intros i k Hl Hi Hk; [simpl in Hi; lia|].
  assert (Hn : length l = n) by (apply Hl; left; reflexivity).
  simpl concat. destruct i as [|i].
  - simpl. apply app_nth1. lia.
  - rewrite app_nth2 by (simpl; lia).
    replace (S i * n + k - length l) with (i * n + k) by (simpl; lia).
    simpl nth. apply IH; [intros; apply Hl; right; assumption|simpl in Hi; lia|exact Hk].
Qed.

Lemma length_concat_uniform (ls : list (list Z)) n :
  (forall l, In l ls -> length l = n) -> length (concat ls) = length ls * n.
Proof.
  induction ls as [|l ls IH]; intros Hl; [reflexivity|].
  simpl. rewrite app_length, IH, (Hl l) by (try (left; reflexivity); intros; apply Hl; right; assumption). lia.
Qed.

(** ** reshape: the flat data is unchanged *)
Definition reshape (s : list nat) (a : array) : array := (s, flat a).
Theorem reshape_flat s a : flat (reshape s a) = flat a.
Proof. reflexivity. Qed.
Theorem reshape_wf s a : wf a -> size s = size (shape a) -> wf (reshape s a).
Proof. unfold wf, reshape. simpl. intros -> ->. reflexivity. Qed.
Theorem reshape_reshape s s' a : reshape s (reshape s' a) = reshape s a.
Proof. reflexivity. Qed.

(** ** rank 2: entry (i, j) of an r x c matrix is at offset i*c + j *)
Definition get2 (c : nat) (l : list Z) (i j : nat) : Z := nth (i * c + j) l 0%Z.

(** transpose of an r x c matrix: a c x r matrix *)
Definition transpose2 (r c : nat) (l : list Z) : list Z :=
  map (fun k => nth ((k mod r) * c + k / r) l 0%Z) (seq 0 (c * r)).

Theorem transpose_length r c l : length (transpose2 r c l) = c * r.
Proof. apply map_seq_length. Qed.

Theorem transpose_entry r c l i j : i < r -> j < c ->
  get2 r (transpose2 r c l) j i = get2 c l i j.
Proof.
  intros Hi Hj. unfold get2, transpose2.
  rewrite nth_map_seq by (apply idx_lt; assumption). simpl.
  rewrite idx_div, idx_mod by exact Hi. reflexivity.
Qed.

Theorem transpose_involutive r c l : length l = r * c -> transpose2 c r (transpose2 r c l) = l.
Proof.
  intros Hl. apply (nth_ext _ _ 0%Z 0%Z).
  - rewrite transpose_length. lia.
  - intros k Hk. rewrite transpose_length in Hk.
    destruct c as [|c]; [lia|].
    assert (Hc : S c <> 0) by lia.
    pose proof (Nat.div_mod k (S c) Hc) as Hdm.
    pose proof (Nat.mod_upper_bound k (S c) Hc) as Hm.
    assert (Hq : k / S c < r).
    { apply Nat.div_lt_upper_bound; lia. }
    replace k with ((k / S c) * S c + k mod S c) at 1 by lia.
    change (get2 (S c) (transpose2 (S c) r (transpose2 r (S c) l)) (k / S c) (k mod S c) = nth k l 0%Z).
    rewrite transpose_entry by assumption. rewrite transpose_entry by assumption.
    unfold get2. f_equal. lia.
Qed.

(** ** concatenate / stack along axis 0: flat data is appended *)
Definition concat0 (a b : array) : array :=
  match shape a, shape b with
  | n1 :: s1, n2 :: _ => ((n1 + n2) :: s1, flat a ++ flat b)
  | _, _ => ([], [])
  end.

Theorem concat0_entry (la lb : list Z) k :
  nth k (la ++ lb) 0%Z = if k <? length la then nth k la 0%Z else nth (k - length la) lb 0%Z.
Proof.
  destruct (k <? length la) eqn:E.
  - apply Nat.ltb_lt in E. apply app_nth1, E.
  - apply Nat.ltb_ge in E. apply app_nth2, E.
Qed.

(** rank 2, axis 0: rows of a (r1 x c) first, then rows of b (r2 x c) *)
Theorem concat0_entry2 c (la lb : list Z) r1 i j : length la = r1 * c -> j < c ->
  get2 c (la ++ lb) i j = if i <? r1 then get2 c la i j else get2 c lb (i - r1) j.
Proof.
  intros Hl Hj. unfold get2. rewrite concat0_entry, Hl.
  destruct (i <? r1) eqn:E.
  - apply Nat.ltb_lt in E. assert (i * c + j < r1 * c) by nia.
    apply Nat.ltb_lt in H. rewrite H. reflexivity.
  - apply Nat.ltb_ge in E. assert (r1 * c <= i * c + j) by nia.
    apply Nat.ltb_ge in H. rewrite H. f_equal. nia.
Qed.

Theorem concat0_wf a b n1 n2 s : shape a = n1 :: s -> shape b = n2 :: s -> wf a -> wf b -> wf (concat0 a b).
Proof.
  unfold wf, concat0. intros Ha Hb Wa Wb. rewrite Ha, Hb in *. simpl in *.
  rewrite app_length, Wa, Wb. lia.
Qed.

(** stack along a new axis 0: n arrays of equal shape s *)
Definition stack0 (s : list nat) (ls : list (list Z)) : array := (length ls :: s, concat ls).

Theorem stack0_entry s ls i k :
  (forall l, In l ls -> length l = size s) -> i < length ls -> k < size s ->
  nth (i * size s + k) (flat (stack0 s ls)) 0%Z = nth k (nth i ls []) 0%Z.
Proof. intros. apply nth_concat_uniform; assumption. Qed.

Theorem stack0_wf s ls : (forall l, In l ls -> length l = size s) -> wf (stack0 s ls).
Proof. intros H. unfold wf, stack0. simpl. apply length_concat_uniform, H. Qed.

(** ** rank 2, axis 1 (hstack): row i of the result is row i of a followed by row i of b *)
Definition row (c : nat) (l : list Z) (i : nat) : list Z := map (fun j => nth (i * c + j) l 0%Z) (seq 0 c).
Definition concat1 (r c1 c2 : nat) (la lb : list Z) : list Z :=
  concat (map (fun i => row c1 la i ++ row c2 lb i) (seq 0 r)).

Lemma row_length c l i : length (row c l i) = c.
Proof. apply map_seq_length. Qed.

Theorem concat1_length r c1 c2 la lb : length (concat1 r c1 c2 la lb) = r * (c1 + c2).
Proof.
  unfold concat1. rewrite (length_concat_uniform _ (c1 + c2)).
  - rewrite map_seq_length. reflexivity.
  - intros l Hl. apply in_map_iff in Hl. destruct Hl as [i [<- _]]. rewrite app_length, !row_length. reflexivity.
Qed.

Theorem concat1_entry r c1 c2 la lb i j : i < r -> j < c1 + c2 ->
  get2 (c1 + c2) (concat1 r c1 c2 la lb) i j =
  if j <? c1 then get2 c1 la i j else get2 c2 lb i (j - c1).
Proof.
  intros Hi Hj. unfold get2 at 1, concat1.
  rewrite (nth_concat_uniform _ (c1 + c2)).
  - rewrite (nth_map_seq _ 0 r i []) by exact Hi. simpl.
    rewrite concat0_entry, row_length. destruct (j <? c1) eqn:E.
    + apply Nat.ltb_lt in E. unfold row. rewrite nth_map_seq by exact E. reflexivity.
    + apply Nat.ltb_ge in E. unfold row. rewrite nth_map_seq by lia. reflexivity.
  - intros l Hl. apply in_map_iff in Hl. destruct Hl as [i' [<- _]]. rewrite app_length, !row_length. reflexivity.
  - rewrite map_seq_length. exact Hi.
  - exact Hj.
Qed.

(** ** broadcasting against an r x c matrix *)
Definition bc_scalar (n : nat) (x : Z) : list Z := repeat x n.
Definition bc_row (r : nat) (v : list Z) : list Z := concat (repeat v r).            (* shape (c,) -> (r, c) *)
Definition bc_col (c : nat) (v : list Z) : list Z := concat (map (fun x => repeat x c) v).   (* (r,1) -> (r,c) *)

Lemma nth_repeat' (x : Z) n k : k < n -> nth k (repeat x n) 0%Z = x.
Proof. revert k; induction n as [|n IH]; intros k H; [lia|]. destruct k; simpl; [reflexivity|apply IH; lia]. Qed.

Theorem bc_scalar_entry n x k : k < n -> nth k (bc_scalar n x) 0%Z = x.
Proof. apply nth_repeat'. Qed.

Lemma nth_repeat_list (v : list Z) r i : i < r -> nth i (repeat v r) [] = v.
Proof. revert i; induction r as [|r IH]; intros i H; [lia|]. destruct i; simpl; [reflexivity|apply IH; lia]. Qed.

Theorem bc_row_entry r v i j : i < r -> j < length v -> get2 (length v) (bc_row r v) i j = nth j v 0%Z.
Proof.
  intros Hi Hj. unfold get2, bc_row. rewrite (nth_concat_uniform _ (length v)).
  - rewrite nth_repeat_list by exact Hi. reflexivity.
  - intros l Hl. apply repeat_spec in Hl. subst. reflexivity.
  - rewrite repeat_length. exact Hi.
  - exact Hj.
Qed.

Theorem bc_col_entry c v i j : i < length v -> j < c -> get2 c (bc_col c v) i j = nth i v 0%Z.
Proof.
  intros Hi Hj. unfold get2, bc_col. rewrite (nth_concat_uniform _ c).
  - rewrite (nth_map_in _ _ _ _ 0%Z) by exact Hi. apply nth_repeat', Hj.
  - intros l Hl. apply in_map_iff in Hl. destruct Hl as [x [<- _]]. apply repeat_length.
  - rewrite map_length. exact Hi.
  - exact Hj.
Qed.

Theorem bc_lengths r c v x : length v = c ->
  length (bc_scalar (r * c) x) = r * c /\ length (bc_row r v) = r * c.
Proof.
  intros Hv. split; [apply repeat_length|].
  unfold bc_row. rewrite (length_concat_uniform _ c), repeat_length; [reflexivity|].
  intros l Hl. apply repeat_spec in Hl. rewrite Hl. exact Hv.
Qed.

(** ** elementwise lifting of a scalar operation *)
Fixpoint map2 (f : Z -> Z -> Z) (la lb : list Z) : list Z :=
  match la, lb with x :: la', y :: lb' => f x y :: map2 f la' lb' | _, _ => [] end.
Definition ew (f : Z -> Z -> Z) (a b : array) : array := (shape a, map2 f (flat a) (flat b)).

Lemma map2_length f la : forall lb, length la = length lb -> length (map2 f la lb) = length la.
Proof. induction la as [|x la IH]; intros [|y lb] H; simpl in *; try lia. rewrite IH; lia. Qed.

(** equal shapes: entry k of the lifted operation is the scalar operation on entries k *)
Theorem lift_correct f la : forall lb k, length la = length lb -> k < length la ->
  nth k (map2 f la lb) 0%Z = f (nth k la 0%Z) (nth k lb 0%Z).
Proof.
  induction la as [|x la IH]; intros [|y lb] k H Hk; simpl in *; try lia.
  destruct k as [|k]; [reflexivity|]. apply IH; lia.
Qed.

Theorem ew_correct f a b k : shape a = shape b -> wf a -> wf b -> k < size (shape a) ->
  nth k (flat (ew f a b)) 0%Z = f (nth k (flat a) 0%Z) (nth k (flat b) 0%Z) /\ wf (ew f a b).
Proof.
  unfold wf, ew. simpl. intros Hs Wa Wb Hk. rewrite Hs in *.
  split; [apply lift_correct; lia|]. rewrite map2_length; lia.
Qed.

(** under the broadcasting model: matrix (r x c) op scalar / row vector / column vector *)
Theorem lift_bc_scalar f r c la x i j : length la = r * c -> i < r -> j < c ->
  get2 c (map2 f la (bc_scalar (r * c) x)) i j = f (get2 c la i j) x.
Proof.
  intros Hl Hi Hj. unfold get2. pose proof (idx_lt i j r c Hi Hj).
  rewrite lift_correct by (rewrite ?Hl; unfold bc_scalar; rewrite ?repeat_length; lia).
  rewrite bc_scalar_entry by lia. reflexivity.
Qed.

Theorem lift_bc_row f r la v i j : length la = r * length v -> i < r -> j < length v ->
  get2 (length v) (map2 f la (bc_row r v)) i j = f (get2 (length v) la i j) (nth j v 0%Z).
Proof.
  intros Hl Hi Hj. pose proof (idx_lt i j r (length v) Hi Hj).
  destruct (bc_lengths r (length v) v 0%Z eq_refl) as [_ Hb].
  unfold get2. rewrite lift_correct by lia.
  change (nth (i * length v + j) (bc_row r v) 0%Z) with (get2 (length v) (bc_row r v) i j).
  rewrite bc_row_entry by assumption. reflexivity.
Qed.

Theorem lift_bc_col f c la v i j : length la = length v * c -> i < length v -> j < c ->
  get2 c (map2 f la (bc_col c v)) i j = f (get2 c la i j) (nth i v 0%Z).
Proof.
  intros Hl Hi Hj. pose proof (idx_lt i j (length v) c Hi Hj).
  assert (Hb : length (bc_col c v) = length v * c).
  { unfold bc_col. rewrite (length_concat_uniform _ c), map_length; [reflexivity|].
    intros l Hin. apply in_map_iff in Hin. destruct Hin as [x [<- _]]. apply repeat_length. }
  unfold get2. rewrite lift_correct by lia.
  change (nth (i * c + j) (bc_col c v) 0%Z) with (get2 c (bc_col c v) i j).
  rewrite bc_col_entry by assumption. reflexivity.
Qed.

(** ** matmul of an r x n by an n x c matrix, row-major *)
Definition matmul (r n c : nat) (A B : list Z) : list Z :=
  map (fun k => zsum (map (fun t => (nth ((k / c) * n + t) A 0 * nth (t * c + k mod c) B 0)%Z) (seq 0 n)))
      (seq 0 (r * c)).

Theorem matmul_length r n c A B : length (matmul r n c A B) = r * c.
Proof. apply map_seq_length. Qed.

Theorem matmul_correct r n c A B i j : i < r -> j < c ->
  get2 c (matmul r n c A B) i j = zsum (map (fun t => (get2 n A i t * get2 c B t j)%Z) (seq 0 n)).
Proof.
  intros Hi Hj. unfold get2 at 1, matmul.
  rewrite nth_map_seq by (apply idx_lt; assumption). simpl.
  rewrite idx_div, idx_mod by exact Hj. reflexivity.
Qed.

(** (A B)^T = B^T A^T, entrywise *)
Theorem matmul_transpose r n c A B i j : i < r -> j < c ->
  get2 r (matmul c n r (transpose2 n c B) (transpose2 r n A)) j i = get2 c (matmul r n c A B) i j.
Proof.
  intros Hi Hj. rewrite !matmul_correct by assumption.
  f_equal. apply map_ext_in. intros t Ht. apply in_seq in Ht.
  rewrite !transpose_entry by lia. ring.
Qed.

(** ** sum / prod over all elements = fold over the flat data; invariant under reshape;
       total = sum of the row sums (sum along an axis, then over the rest) *)
Definition asum (a : array) : Z := fold_left Z.add (flat a) 0%Z.
Definition aprod (a : array) : Z := fold_left Z.mul (flat a) 1%Z.

Lemma fold_left_add l : forall acc, fold_left Z.add l acc = (acc + zsum l)%Z.
Proof. induction l as [|x l IH]; intros acc; simpl; [lia|]. rewrite IH. unfold zsum. lia. Qed.
Lemma fold_left_mul l : forall acc, fold_left Z.mul l acc = (acc * zprod l)%Z.
Proof. unfold zprod. induction l as [|x l IH]; intros acc; cbn [fold_left fold_right]; [ring|]. rewrite IH. ring. Qed.

Theorem asum_fold a : asum a = zsum (flat a).
Proof. unfold asum. rewrite fold_left_add. lia. Qed.
Theorem aprod_fold a : aprod a = zprod (flat a).
Proof. unfold aprod. rewrite fold_left_mul. ring. Qed.
Theorem asum_reshape s a : asum (reshape s a) = asum a.
Proof. reflexivity. Qed.

Lemma zsum_app l1 l2 : zsum (l1 ++ l2) = (zsum l1 + zsum l2)%Z.
Proof. induction l1 as [|x l IH]; simpl; [reflexivity|]. unfold zsum in *. simpl. rewrite IH. lia. Qed.
Lemma zprod_app l1 l2 : zprod (l1 ++ l2) = (zprod l1 * zprod l2)%Z.
Proof.
  unfold zprod. induction l1 as [|x l IH]; cbn [app fold_right]; [ring|]. rewrite IH. ring.
Qed.

Theorem zsum_concat ls : zsum (concat ls) = zsum (map zsum ls).
Proof. induction ls as [|l ls IH]; simpl; [reflexivity|]. rewrite zsum_app, IH. reflexivity. Qed.
Theorem zprod_concat ls : zprod (concat ls) = zprod (map zprod ls).
Proof. induction ls as [|l ls IH]; simpl; [reflexivity|]. rewrite zprod_app, IH. reflexivity. Qed.

(** all(a) for 0/1 entries is the product, any(a) = 1 - prod (1 - a) *)
Theorem zprod_bits l : (forall x, In x l -> x = 0%Z \/ x = 1%Z) ->
  zprod l = if forallb (Z.eqb 1) l then 1%Z else 0%Z.
Proof.
  induction l as [|x l IH]; intros H; [reflexivity|].
  unfold zprod in *. simpl. rewrite IH by (intros; apply H; right; assumption).
  destruct (H x (or_introl eq_refl)) as [-> | ->]; simpl; [reflexivity|].
  destruct (forallb (Z.eqb 1) l); reflexivity.
Qed.

(** executable helpers for the correspondence run *)
Definition ex_add (la lb : list Z) := map2 Z.add la lb.
Definition ex_sub (la lb : list Z) := map2 Z.sub la lb.
Definition ex_mul (la lb : list Z) := map2 Z.mul la lb.
Definition ex_concat0 (la lb : list Z) := la ++ lb.
Definition ex_stack0 (ls : list (list Z)) := concat ls.

(** ** array-based PRSS of zero vs the list-based version (thresha.py)
    pseudorandom_share_zero:  y = 0; for j in range(d): y = (y + prl[h*d+j]) * i1      (Horner)
    np_pseudorandom_share_0:  prl.reshape(n, d) @ [i1^d, ..., i1^1]                     (power sum)
    On the same PRF block r = prl[h*d : (h+1)*d] the two terms are equal. *)
Require Import MPyC.Field MPyC.Poly.
Section PrssZero.
Variable K : FieldT.
Add Field KFarr : (fth K).

Definition np_prss0_term (r : list K) (x : K) : K :=
  fsum (map (fun j => fmul K (nth j r (f0 K)) (fpow x (length r - j))) (seq 0 (length r))).
Definition list_prss0_term (r : list K) (x : K) : K := horner_code r x.

Lemma horner_code_snoc (r : list K) (c x : K) :
  horner_code (r ++ [c]) x = fmul K (fadd K (horner_code r x) c) x.
Proof. unfold horner_code. rewrite fold_left_app. reflexivity. Qed.

Theorem np_prss0_agree (r : list K) (x : K) : np_prss0_term r x = list_prss0_term r x.
Proof.
  unfold np_prss0_term, list_prss0_term.
  induction r as [|c r IH] using rev_ind; [reflexivity|].
  rewrite horner_code_snoc, <- IH, app_length. cbn [length].
  replace (length r + 1) with (S (length r)) by lia.
  rewrite seq_S, map_app, fsum_app. cbn [map fsum plus].
  rewrite app_nth2 by lia. rewrite Nat.sub_diag. cbn [nth].
  replace (S (length r) - length r) with 1 by lia. cbn [fpow].
  transitivity (fadd K (fmul K x (fsum (map (fun j => fmul K (nth j r (f0 K)) (fpow x (length r - j))) (seq 0 (length r)))))
                       (fmul K c x)).
  - f_equal; [|ring]. rewrite <- fsum_map_scale. apply fsum_map_ext. intros j Hj. apply in_seq in Hj.
    rewrite app_nth1 by lia. replace (S (length r) - j) with (S (length r - j)) by lia. cbn [fpow]. ring.
  - ring.
Qed.
End PrssZero.
