(** Stat.v — statistical masking of opened values (property C18).

    Distributions are finite counting statements over Z: the uniform distribution on the interval
    [a, a+R) is the list [zrange a R]; the statistical distance between  a + U[0,R)  and
    a' + U[0,R)  is  (number of points of the first interval outside the second) / R  (the two
    differences have the same size, so SD = 1/2 * sum |p - q| = that count over R).  No reals: all
    bounds are cross-multiplied integer inequalities.

    Second part: the arithmetic AST of mask-bound expressions ([mexpr]), the rows of the generated
    table gen/MaskTable.v ([mrow]) and the obligation [row_ok_at] each row has to meet, with its
    soundness w.r.t. the counting definition of SD.

    What is NOT here (stated, not mechanised): sequential composition over all openings of an adaptive
    program (union bound); PRF outputs / [secrets.randbelow] being uniform (oracle assumptions). *)
From Coq Require Import ZArith List Bool Lia Znumtheory String MSetPositive.
Require Import MPyC.Zp.
Import ListNotations.
Local Open Scope Z_scope.

(** * Counting over integer intervals *)

Fixpoint zrange (a : Z) (n : nat) : list Z :=
  match n with O => [] | S n' => a :: zrange (a + 1) n' end.

Definition in_iv (a R x : Z) : bool := (a <=? x) && (x <? a + R).

Definition count (P : Z -> bool) (l : list Z) : Z := Z.of_nat (List.length (filter P l)).

(** Number of points of  a + U[0,R)  that lie outside  a' + U[0,R).  SD = sd_num / R. *)
Definition sd_num (a a' R : Z) : Z :=
  count (fun x => negb (in_iv a' R x)) (zrange a (Z.to_nat R)).

Lemma zrange_In n : forall a x, In x (zrange a n) <-> a <= x < a + Z.of_nat n.
Proof.
  induction n as [|n IH]; intros a x; simpl zrange.
  - simpl. lia.
  - simpl In. rewrite IH. lia.
Qed.

Lemma zrange_length n : forall a, List.length (zrange a n) = n.
Proof. induction n; intros; simpl; auto. Qed.

Lemma count_ext P Q l : (forall x, In x l -> P x = Q x) -> count P l = count Q l.
Proof.
  intros H. unfold count. f_equal. f_equal. apply filter_ext_in. exact H.
Qed.

Lemma count_lt n : forall a c,
  count (fun x => x <? c) (zrange a n) = Z.max 0 (Z.min (c - a) (Z.of_nat n)).
Proof.
  induction n as [|n IH]; intros a c.
  - unfold count. simpl. lia.
  - unfold count in *. simpl zrange. simpl filter.
    destruct (a <? c) eqn:E.
    + simpl List.length. rewrite Nat2Z.inj_succ. rewrite IH.
      apply Z.ltb_lt in E. rewrite Nat2Z.inj_succ. lia.
    + rewrite IH. apply Z.ltb_ge in E. rewrite Nat2Z.inj_succ. lia.
Qed.

Lemma count_ge n : forall a c,
  count (fun x => c <=? x) (zrange a n) = Z.max 0 (Z.min (a + Z.of_nat n - c) (Z.of_nat n)).
Proof.
  induction n as [|n IH]; intros a c.
  - unfold count. simpl. lia.
  - unfold count in *. simpl zrange. simpl filter.
    destruct (c <=? a) eqn:E.
    + simpl List.length. rewrite Nat2Z.inj_succ. rewrite IH.
      apply Z.leb_le in E. rewrite Nat2Z.inj_succ. lia.
    + rewrite IH. apply Z.leb_gt in E. rewrite Nat2Z.inj_succ. lia.
Qed.

(** [sd_shift]: shifting an interval of length R by d >= 0 moves exactly min(d,R) points out. *)
Theorem sd_shift a d R : 0 <= d -> 0 <= R -> sd_num a (a + d) R = Z.min d R.
Proof.
  intros Hd HR. unfold sd_num.
  rewrite (count_ext _ (fun x => x <? a + d)).
  - rewrite count_lt. rewrite Z2Nat.id by lia. lia.
  - intros x Hx. apply zrange_In in Hx. rewrite Z2Nat.id in Hx by lia.
    unfold in_iv. destruct (a + d <=? x) eqn:E1; destruct (x <? a + d + R) eqn:E2;
      destruct (x <? a + d) eqn:E3; simpl; try reflexivity;
      repeat match goal with
             | H : (_ <=? _) = true |- _ => apply Z.leb_le in H
             | H : (_ <=? _) = false |- _ => apply Z.leb_gt in H
             | H : (_ <? _) = true |- _ => apply Z.ltb_lt in H
             | H : (_ <? _) = false |- _ => apply Z.ltb_ge in H
             end; lia.
Qed.

Theorem sd_shift_neg a d R : 0 <= d -> 0 <= R -> sd_num (a + d) a R = Z.min d R.
Proof.
  intros Hd HR. unfold sd_num.
  rewrite (count_ext _ (fun x => a + R <=? x)).
  - rewrite count_ge. rewrite Z2Nat.id by lia. lia.
  - intros x Hx. apply zrange_In in Hx. rewrite Z2Nat.id in Hx by lia.
    unfold in_iv. destruct (a <=? x) eqn:E1; destruct (x <? a + R) eqn:E2;
      destruct (a + R <=? x) eqn:E3; simpl; try reflexivity;
      repeat match goal with
             | H : (_ <=? _) = true |- _ => apply Z.leb_le in H
             | H : (_ <=? _) = false |- _ => apply Z.leb_gt in H
             | H : (_ <? _) = true |- _ => apply Z.ltb_lt in H
             | H : (_ <? _) = false |- _ => apply Z.ltb_ge in H
             end; lia.
Qed.

(** SD(a + U[0,R), a' + U[0,R)) * R = min(|a - a'|, R), for every pair a, a'. *)
Theorem sd_abs a a' R : 0 <= R -> sd_num a a' R = Z.min (Z.abs (a - a')) R.
Proof.
  intros HR. destruct (Z_le_gt_dec a a') as [H|H].
  - replace a' with (a + (a' - a)) by lia. rewrite sd_shift by lia.
    replace (a - (a + (a' - a))) with (- (a' - a)) by lia. rewrite Z.abs_opp, Z.abs_eq by lia. reflexivity.
  - replace a with (a' + (a - a')) at 1 by lia. rewrite sd_shift_neg by lia.
    rewrite Z.abs_eq by lia. reflexivity.
Qed.

(** the two one-sided differences have the same size, so sd_num is the (numerator of the) SD *)
Corollary sd_sym a a' R : 0 <= R -> sd_num a a' R = sd_num a' a R.
Proof.
  intros HR. rewrite !sd_abs by lia. replace (a' - a) with (- (a - a')) by lia.
  now rewrite Z.abs_opp.
Qed.

(** [mask_range_suffices]: a mask range R that exceeds the secret range S by k bits, up to [s] bits of
    slack, gives SD <= 2^(-k+s):   SD * 2^k <= 2^s   cross-multiplied by R. *)
Theorem mask_range_suffices a a' S R k s :
  0 <= R -> 0 <= k -> Z.abs (a - a') < S -> S * 2 ^ k <= R * 2 ^ s ->
  sd_num a a' R * 2 ^ k <= R * 2 ^ s.
Proof.
  intros HR Hk Hd HS. rewrite sd_abs by lia.
  assert (H2 : 0 < 2 ^ k) by (apply Z.pow_pos_nonneg; lia).
  apply Z.le_trans with (S * 2 ^ k); [|exact HS].
  apply Z.mul_le_mono_nonneg_r; lia.
Qed.

(** [mask_bits_suffice]: secrets less than 2^s apart, mask uniform on 2^(s+k) values: SD <= 2^-k. *)
Theorem mask_bits_suffice a a' s k R :
  0 <= s -> 0 <= k -> Z.abs (a - a') < 2 ^ s -> R = 2 ^ (s + k) ->
  sd_num a a' R * 2 ^ k <= R.
Proof.
  intros Hs Hk Hd HR.
  assert (HRpos : 0 <= R) by (subst R; apply Z.pow_nonneg; lia).
  pose proof (mask_range_suffices a a' (2 ^ s) R k 0 HRpos Hk Hd) as H.
  rewrite Z.pow_0_r, Z.mul_1_r in H. apply H. subst R. rewrite Z.pow_add_r by lia. lia.
Qed.

(** [sum_of_uniforms_contains_uniform]: the mask is a sum  r + o  where r is uniform on [0,R) and
    unknown to the coalition, and o (the other PRSS summands / dealers' contributions, possibly known
    to or chosen by the coalition) is independent of r.  For EVERY fixed value of o the distance
    between the two conditional distributions  a + o + U[0,R)  and  a' + o + U[0,R)  is the same
    as for the single summand; hence so is their mixture over o. *)
Theorem sum_of_uniforms_contains_uniform a a' R :
  0 <= R -> forall o, sd_num (a + o) (a' + o) R = sd_num a a' R.
Proof.
  intros HR o. rewrite !sd_abs by lia. replace (a + o - (a' + o)) with (a - a') by lia. reflexivity.
Qed.

(** scaling: mask  s*r + r0  with r uniform on [0,E), r0 uniform on [0,s) is uniform on [0, s*E):
    the map (r, r0) |-> s*r + r0 is a bijection [0,E) x [0,s) -> [0, s*E). *)
Theorem scaled_mask_bijection s E : 0 < s -> 0 <= E ->
  forall y, 0 <= y < s * E -> exists! p : Z * Z,
      (0 <= fst p < E /\ 0 <= snd p < s) /\ s * fst p + snd p = y.
Proof.
  intros Hs HE y Hy. exists (y / s, y mod s). split.
  - simpl. pose proof (Z.div_mod y s ltac:(lia)) as Hdm.
    pose proof (Z.mod_pos_bound y s Hs) as Hm.
    assert (0 <= y / s) by (apply Z.div_pos; lia).
    assert (y / s < E) by (apply Z.div_lt_upper_bound; lia).
    repeat split; lia.
  - intros [r r0]; simpl. intros [[Hr Hr0] He].
    assert (Hq : y / s = r).
    { symmetry. apply (Z.div_unique_pos y s r r0); lia. }
    assert (Hm : y mod s = r0).
    { symmetry. apply (Z.mod_unique_pos y s r r0); lia. }
    now rewrite Hq, Hm.
Qed.

(** [uniform_mod_perfect]: r |-> (a + r) mod N is a bijection on [0,N): the residue of the opened
    value modulo the range of a uniform mask is perfectly hidden (N = 2^l for the low l bits). *)
Theorem uniform_mod_perfect a N : 0 < N ->
  forall y, 0 <= y < N -> exists! r, 0 <= r < N /\ (a + r) mod N = y.
Proof.
  intros HN y Hy. exists ((y - a) mod N). split.
  - split; [apply Z.mod_pos_bound; lia|].
    rewrite Zplus_mod_idemp_r. replace (a + (y - a)) with y by lia. apply Z.mod_small; lia.
  - intros r [Hr He].
    assert (H : (y - a) mod N = r mod N).
    { rewrite <- He. rewrite Zminus_mod_idemp_l. f_equal. lia. }
    rewrite H. apply Z.mod_small; lia.
Qed.

Corollary uniform_mod_perfect_pow2 a l : 0 <= l ->
  forall y, 0 <= y < 2 ^ l -> exists! r, 0 <= r < 2 ^ l /\ (a + r) mod 2 ^ l = y.
Proof. intros Hl. apply uniform_mod_perfect. apply Z.pow_pos_nonneg; lia. Qed.

(** [mult_blind]: for a nonzero mod a prime p, r |-> a*r mod p is a bijection on the nonzero residues;
    for a = 0 the product is 0.  So  a*r  for r uniform nonzero reveals exactly whether a = 0. *)
Theorem mult_blind p a : prime p -> a mod p <> 0 ->
  forall y, 1 <= y < p -> exists! r, 1 <= r < p /\ (a * r) mod p = y.
Proof.
  intros Hp Ha y Hy.
  pose proof (prime_ge_2 p Hp) as Hp2.
  pose proof (inv_raw_spec p a Hp Ha) as Hinv.
  set (i := inv_raw p a) in *.
  assert (Hmul : forall r, (i * ((a * r) mod p)) mod p = r mod p).
  { intros r. rewrite Zmult_mod_idemp_r. replace (i * (a * r)) with ((a * i) * r) by ring.
    rewrite <- Zmult_mod_idemp_l. rewrite Hinv. f_equal. lia. }
  exists ((i * y) mod p). split.
  - assert (Hy' : (a * ((i * y) mod p)) mod p = y).
    { rewrite Zmult_mod_idemp_r. replace (a * (i * y)) with ((a * i) * y) by ring.
      rewrite <- Zmult_mod_idemp_l. rewrite Hinv. rewrite Z.mul_1_l. apply Z.mod_small; lia. }
    split; [|exact Hy'].
    pose proof (Z.mod_pos_bound (i * y) p ltac:(lia)) as Hb.
    destruct (Z.eq_dec ((i * y) mod p) 0) as [E|E]; [|lia].
    rewrite E, Z.mul_0_r, Z.mod_0_l in Hy' by lia. lia.
  - intros r [Hr He]. rewrite <- He. rewrite Hmul. apply Z.mod_small; lia.
Qed.

Theorem mult_blind_zero p a r : a mod p = 0 -> (a * r) mod p = 0.
Proof.
  intros Ha. destruct (Z.eq_dec p 0) as [->|Hp]; [now rewrite Zmod_0_r in *; subst; lia|].
  rewrite <- Zmult_mod_idemp_l, Ha. simpl. apply Z.mod_0_l. exact Hp.
Qed.

(** * Mask-bound expressions (the AST emitted by harness/gen_mask_table.py) *)

Inductive var := Vl | Vk | Vf | Vt | Vm | VL | Vb | Vn.

Definition var_eqb (x y : var) : bool :=
  match x, y with
  | Vl, Vl | Vk, Vk | Vf, Vf | Vt, Vt | Vm, Vm | VL, VL | Vb, Vb | Vn, Vn => true
  | _, _ => false
  end.

Inductive mexpr :=
| Const (z : Z)
| Var (v : var)
| Add (a b : mexpr)
| Sub (a b : mexpr)
| Mul (a b : mexpr)
| FloorDiv (a b : mexpr)
| Shl (a b : mexpr)          (* Python  a << b *)
| Pow (a b : mexpr)          (* Python  a ** b *)
| Comb (a b : mexpr).        (* math.comb(a, b) *)

Definition env := var -> Z.

(** 2^n computed by shifting (fast under vm_compute); equal to [2 ^ n] for every n, also negative ones
    (both are 0 then). *)
Definition pow2 (n : Z) : Z := Z.shiftl 1 n.

Lemma pow2_spec n : pow2 n = 2 ^ n.
Proof.
  unfold pow2. destruct (Z_le_gt_dec 0 n) as [H|H].
  - rewrite Z.shiftl_mul_pow2 by lia. lia.
  - rewrite Z.shiftl_div_pow2 by lia. rewrite (Z.pow_neg_r 2 n) by lia.
    apply Z.div_small. split; [lia|]. apply Z.pow_gt_1; lia.
Qed.

Fixpoint binom (n k : nat) : nat :=
  match n, k with
  | _, O => 1
  | O, S _ => 0
  | S n', S k' => binom n' k' + binom n' k
  end.

Fixpoint meval (x : mexpr) (e : env) : Z :=
  match x with
  | Const z => z
  | Var v => e v
  | Add a b => meval a e + meval b e
  | Sub a b => meval a e - meval b e
  | Mul a b => meval a e * meval b e
  | FloorDiv a b => meval a e / meval b e
  | Shl a b => meval a e * pow2 (meval b e)
  | Pow a b => let x := meval a e in if x =? 2 then pow2 (meval b e) else x ^ meval b e
  | Comb a b => Z.of_nat (binom (Z.to_nat (meval a e)) (Z.to_nat (meval b e)))
  end.

Fixpoint mentions (v : var) (x : mexpr) : bool :=
  match x with
  | Const _ => false
  | Var w => var_eqb v w
  | Add a b | Sub a b | Mul a b | FloorDiv a b | Shl a b | Pow a b | Comb a b => mentions v a || mentions v b
  end.

(** Python's int.bit_length for x >= 0 *)
Definition bit_length (x : Z) : Z := if x <=? 0 then 0 else Z.log2 x + 1.

(** [_randoms]/[_np_randoms]:  bound = 1 << max(0, (bound // d).bit_length() - 1)  — what each of the d
    summands (PRF outputs / dealers' draws) is below. *)
Definition eff_bound (B d : Z) : Z := pow2 (Z.max 0 (bit_length (B / d) - 1)).

(** number of summands: comb(m,t) PRSS subsets, or t+1 dealers without PRSS *)
Definition dealers (prss : bool) (e : env) : Z :=
  if prss then Z.of_nat (binom (Z.to_nat (e Vm)) (Z.to_nat (e Vt))) else e Vt + 1.

Definition slack (d : Z) : Z := Z.log2_up d.

Inductive mbound := BNone (* bound=None: the whole field *) | BExpr (x : mexpr).
Inductive via := ViaRandoms (* through _random/_randoms/_np_randoms: eff_bound applies *)
               | ViaDirect  (* passed as is to secrets.randbelow / prfs *).
Inductive mkind :=
| KAdditive      (* secret + scale*r (+ uniform low part): sd_shift / mask_range_suffices *)
| KXorLow        (* secret xor l uniform bits (binary field): perfect on the low l bits only *)
| KMultBlind     (* secret * r, r uniform field element: mult_blind *)
| KFieldUniform  (* secret * r + independent term, r uniform over the whole field *)
| KIndependent   (* opened value is a function of fresh randomness only *)
| KByDesign      (* value revealed on purpose (documented leak) *)
| KOther.        (* recorded, outside the protocols named by C18; no obligation *)

(** which randomness configuration a row applies to / how many summands the mask has *)
Inductive rmode :=
| MBoth          (* both; comb(m,t) PRSS summands resp. t+1 dealers *)
| MPrssOnly      (* branch taken only with PRSS *)
| MNoPrssOnly    (* branch taken only with --no-prss *)
| MDealers.      (* always t+1 dealers, whatever the PRSS option *)

Record mrow := MkRow {
  site : string;
  kind : mkind;
  mode : rmode;
  bound : mbound;
  bvia : via;
  scale : mexpr;      (* multiplier of the mask variable inside the opened expression *)
  secret : mexpr;     (* width of the range of the masked value (annotation) *)
  cap : mexpr;        (* 0, or the range the opened value must stay below (no wrap-around in the field) *)
  pre : list (mexpr * mexpr)   (* preconditions  a <= b  under which the site is reached *)
}.

Definition pre_holds (r : mrow) (e : env) : bool :=
  forallb (fun c => meval (fst c) e <=? meval (snd c) e) (pre r).

Definition row_dealers (r : mrow) (prss : bool) (e : env) : Z :=
  match mode r with MDealers => dealers false e | _ => dealers prss e end.

Definition row_modes (r : mrow) : list bool :=
  match mode r with MBoth | MDealers => [true; false] | MPrssOnly => [true] | MNoPrssOnly => [false] end.

(** range of the uniform component of the mask that a coalition of <= t parties cannot know *)
Definition mask_range (r : mrow) (prss : bool) (e : env) : Z :=
  match bound r with
  | BNone => 0
  | BExpr b =>
    meval (scale r) e *
    match bvia r with
    | ViaRandoms => eff_bound (meval b e) (row_dealers r prss e)
    | ViaDirect => meval b e
    end
  end.

(** largest possible value of the whole mask: all d summands at their maximum *)
Definition mask_total (r : mrow) (prss : bool) (e : env) : Z :=
  mask_range r prss e * row_dealers r prss e.

(** the opened value stays inside the intended range (only checked when the row states one) *)
Definition cap_ok (r : mrow) (prss : bool) (e : env) : bool :=
  (meval (cap r) e =? 0) || (meval (secret r) e + mask_total r prss e <=? meval (cap r) e).

(** the obligation of one row at one parameter point *)
Definition row_ok_at (r : mrow) (prss : bool) (e : env) : bool :=
  match kind r with
  | KAdditive =>
    match bound r with
    | BNone => false
    | BExpr _ =>
      (0 <? mask_range r prss e) &&
      (meval (secret r) e * pow2 (e Vk) <=? mask_range r prss e * pow2 (slack (row_dealers r prss e))) &&
      cap_ok r prss e
    end
  | KXorLow => meval (secret r) e <=? meval (scale r) e
  | KMultBlind | KFieldUniform => match bound r with BNone => true | BExpr _ => false end
  | KIndependent | KByDesign | KOther => true
  end.

(** Soundness of the obligation for additive masks: whenever it holds, any two secrets within the
    annotated range give opened values at distance <= 2^(-k + slack)   (SD * 2^k <= 2^slack). *)
Theorem row_ok_additive_sound r prss e :
  kind r = KAdditive -> 0 <= e Vk -> row_ok_at r prss e = true ->
  forall a a', Z.abs (a - a') < meval (secret r) e ->
    let R := mask_range r prss e in
    sd_num a a' R * 2 ^ (e Vk) <= R * 2 ^ slack (row_dealers r prss e).
Proof.
  intros Hk Hk0 Hok a a' Hd R. unfold row_ok_at in Hok. rewrite Hk in Hok.
  destruct (bound r) eqn:Eb; [discriminate|].
  apply andb_true_iff in Hok. destruct Hok as [Hok _].
  apply andb_true_iff in Hok. destruct Hok as [H1 H2].
  apply Z.ltb_lt in H1. apply Z.leb_le in H2. rewrite !pow2_spec in H2.
  apply mask_range_suffices with (S := meval (secret r) e); subst R; try lia.
Qed.

(** * The grid of parameter points at which generated rows are checked by computation *)

Definition mt_pairs : list (Z * Z) :=
  flat_map (fun m => map (fun t => (Z.of_nat m, Z.of_nat t))
                         (filter (fun t => Nat.ltb (2 * t) m) (seq 0 5))) (seq 1 9).

Definition mk_env (L l k f t m b n : Z) : env :=
  fun v => match v with
           | Vl => l | Vk => k | Vf => f | Vt => t | Vm => m | VL => L | Vb => b | Vn => n
           end.

Definition row_mentions (v : var) (r : mrow) : bool :=
  (match bound r with BNone => false | BExpr b => mentions v b end)
  || mentions v (scale r) || mentions v (secret r)
  || existsb (fun c => mentions v (fst c) || mentions v (snd c)) (pre r).

(** Grid: type bit length L in 1..64; parameter l in {1, (L+1)/2, L}; security parameter
    k in {8,16,30,40}; f in {0, L/2}; all (m,t) with 2t < m <= 9; modulus b in {2,3,2^(L-1)-1 max 2};
    length n in {2,5}.  Dimensions a row does not mention are fixed to their first value. *)
Definition grid_envs (r : mrow) : list env :=
  let dim (v : var) (xs : list Z) := if row_mentions v r then xs else firstn 1 xs in
  let ks := [8; 16; 30; 40] in
  let ns := dim Vn [2; 5] in
  let useb := row_mentions Vb r in
  let usef := row_mentions Vf r in
  let usel := row_mentions Vl r in
  let mts := if row_mentions Vt r || row_mentions Vm r || match kind r with KAdditive => true | _ => false end
             then mt_pairs else firstn 1 mt_pairs in
  flat_map (fun L =>
  let ls := if usel then [L; (L + 1) / 2; 1] else [L] in
  let fs := if usef then [0; L / 2] else [0] in
  let bs := if useb then [2; 3; Z.max 2 (pow2 (L - 1) - 1)] else [2] in
  flat_map (fun l =>
  flat_map (fun k =>
  flat_map (fun f =>
  flat_map (fun mt : Z * Z =>
  flat_map (fun b =>
  map (fun n => mk_env L l k f (snd mt) (fst mt) b n) ns) bs) mts) fs) ks) ls)
      (zrange 1 64).

Definition row_ok_grid (r : mrow) : bool :=
  forallb (fun e => negb (pre_holds r e) || forallb (fun prss => row_ok_at r prss e) (row_modes r)) (grid_envs r).

Theorem row_ok_grid_sound r : row_ok_grid r = true ->
  forall e, In e (grid_envs r) -> pre_holds r e = true ->
    forall prss, In prss (row_modes r) -> row_ok_at r prss e = true.
Proof.
  intros H e He Hp prss Hm. unfold row_ok_grid in H. rewrite forallb_forall in H.
  specialize (H e He). rewrite Hp in H. simpl in H. rewrite forallb_forall in H. auto.
Qed.

(** first failing grid point (L, l, k, f, t, m, b, n, prss) of a row, for reporting *)
Definition env_tuple (e : env) := [e VL; e Vl; e Vk; e Vf; e Vt; e Vm; e Vb; e Vn].

Definition fail_reason (r : mrow) (prss : bool) (e : env) : Z :=
  match kind r with
  | KAdditive => if cap_ok r prss e then 1 (* mask too small *) else 2 (* mask overflows the intended range *)
  | _ => 1
  end.

Definition first_fail (r : mrow) : option (list Z * bool * Z) :=
  let bad prss := find (fun e => pre_holds r e && negb (row_ok_at r prss e)) (grid_envs r) in
  let try prss := if existsb (Bool.eqb prss) (row_modes r) then bad prss else None in
  match try false with
  | Some e => Some (env_tuple e, false, fail_reason r false e)
  | None => match try true with Some e => Some (env_tuple e, true, fail_reason r true e) | None => None end
  end.

(** values the correspondence check compares with the implementation's logged bounds:
    (bound expression as passed by the protocol, per-summand bound actually drawn from) *)
Definition row_bounds (r : mrow) (prss : bool) (e : env) : option (Z * Z) :=
  match bound r with
  | BNone => None
  | BExpr b => Some (meval b e,
                     match bvia r with
                     | ViaRandoms => eff_bound (meval b e) (row_dealers r prss e)
                     | ViaDirect => meval b e
                     end)
  end.

(** * Symbolic form of the common shape: a power-of-two bound through [_randoms] *)

(** [eff_bound_pow2]: for bound = 2^e, whatever the number d >= 1 of summands, the per-summand range
    2^floor(log2(2^e // d)) times 2^ceil(log2 d) is at least 2^e: at most [slack d] bits are lost. *)
Lemma eff_bound_pow2 e d : 0 <= e -> 1 <= d -> 2 ^ e <= eff_bound (2 ^ e) d * 2 ^ slack d.
Proof.
  intros He Hd. unfold eff_bound, slack. rewrite pow2_spec.
  set (B := 2 ^ e). set (x := B / d).
  assert (HB : 0 < B) by (apply Z.pow_pos_nonneg; lia).
  assert (Hlu : d <= 2 ^ Z.log2_up d).
  { destruct (Z.eq_dec d 1) as [->|Hne]; [simpl; lia|]. apply Z.log2_up_spec; lia. }
  assert (Hlu0 : 0 <= Z.log2_up d) by apply Z.log2_up_nonneg.
  assert (Hx : 0 <= x) by (apply Z.div_pos; lia).
  unfold bit_length. destruct (x <=? 0) eqn:E.
  - apply Z.leb_le in E. assert (Hx0 : x = 0) by lia.
    assert (HBd : B < d). { unfold x in Hx0. apply Z.div_small_iff in Hx0; lia. }
    replace (Z.max 0 (0 - 1)) with 0 by lia. rewrite Z.pow_0_r. lia.
  - apply Z.leb_gt in E.
    destruct (Z.log2_spec x E) as [Hl1 Hl2]. pose proof (Z.log2_nonneg x) as Hl0.
    replace (Z.max 0 (Z.log2 x + 1 - 1)) with (Z.log2 x) by lia.
    rewrite <- Z.pow_add_r by lia.
    assert (Hlt : B < 2 ^ (Z.log2 x + Z.log2_up d + 1)).
    { rewrite !Z.pow_add_r by lia. rewrite Z.pow_succ_r in Hl2 by lia. rewrite Z.pow_1_r.
      pose proof (Z.mul_succ_div_gt B d ltac:(lia)) as Hm. fold x in Hm.
      assert (0 < 2 ^ Z.log2 x) by (apply Z.pow_pos_nonneg; lia).
      assert (0 < 2 ^ Z.log2_up d) by (apply Z.pow_pos_nonneg; lia).
      nia. }
    unfold B in Hlt. apply Z.pow_lt_mono_r_iff in Hlt; try lia.
    apply Z.pow_le_mono_r; lia.
Qed.

(** Consequently an additive row whose bound is 2^eb (through [_randoms]), scale 2^es and secret range
    2^esec meets its obligation at every parameter point where  eb + es >= esec + k  — for ALL values of
    l, k, f, t, m and both randomness modes (this is the for-all version of the grid obligations for the
    rows of shape  1 << e). *)
Theorem pow2_row_ok r prss e eb es esec b :
  kind r = KAdditive -> bound r = BExpr b -> bvia r = ViaRandoms -> meval (cap r) e = 0 ->
  meval b e = 2 ^ eb -> meval (scale r) e = 2 ^ es -> meval (secret r) e = 2 ^ esec ->
  0 <= eb -> 0 <= es -> 0 <= esec -> 0 <= e Vk -> 1 <= row_dealers r prss e ->
  esec + e Vk <= eb + es ->
  row_ok_at r prss e = true.
Proof.
  intros Hk Hb Hv Hcap Eb Es Esec Heb Hes Hesec Hkk Hd Hle.
  unfold row_ok_at, cap_ok. rewrite Hcap. simpl. rewrite andb_true_r.
  unfold mask_range. rewrite Hk, Hb, Hv, Eb, Es, Esec. rewrite !pow2_spec.
  pose proof (eff_bound_pow2 eb (row_dealers r prss e) Heb Hd) as H.
  set (E := eff_bound (2 ^ eb) (row_dealers r prss e)) in *.
  set (S := 2 ^ slack (row_dealers r prss e)) in *.
  assert (HE : 0 < E). { unfold E, eff_bound. rewrite pow2_spec. apply Z.pow_pos_nonneg; lia. }
  assert (Hes0 : 0 < 2 ^ es) by (apply Z.pow_pos_nonneg; lia).
  apply andb_true_iff. split.
  - apply Z.ltb_lt. nia.
  - apply Z.leb_le. rewrite <- Z.pow_add_r by lia.
    apply Z.le_trans with (2 ^ (eb + es)); [apply Z.pow_le_mono_r; lia|].
    rewrite Z.pow_add_r by lia. nia.
Qed.

(** * Opening a local product of two degree-t sharings with threshold 2t

    [is_zero_public], [reciprocal], [_is_zero] (and their array versions) open  b = a * r  where both
    factors are degree-t Shamir sharings, so b is shared by the product polynomial h = f_a * f_r of degree
    2t, and every receiver obtains 2t shares plus its own: ALL of h when m = 2t+1.  The opened VALUE
    h(0) = a*r is perfectly blinded ([mult_blind]) but the polynomial is not uniform among those with
    that constant term unless a fresh degree-2t sharing of zero is added (or the product is reshared).
    Toy instance by exhaustive counting: p = 11, m = 3, t = 1, parties at X = 1, 2, 3, the view of party 1
    (one party = a coalition of size t). *)

Definition toy_p : Z := 11.
Definition Fp : list Z := zrange 0 11.
Definition Fp_nz : list Z := zrange 1 10.

(** view of the party at X = 1: its own shares f_a(1), f_r(1) and the received shares h(2), h(3);
    f_a = a + al X, f_r = r + rh X *)
Definition toy_view (a al r rh : Z) : Z * Z * Z * Z :=
  let fa x := (a + al * x) mod toy_p in
  let fr x := (r + rh * x) mod toy_p in
  (fa 1, fr 1, (fa 2 * fr 2) mod toy_p, (fa 3 * fr 3) mod toy_p).

(** all tapes (al, r, rh) with r nonzero — so that the public result "a is nonzero" is the same for
    every nonzero secret a — each tape equally likely *)
Definition toy_views (a : Z) : list (Z * Z * Z * Z) :=
  flat_map (fun al => flat_map (fun r => map (fun rh => toy_view a al r rh) Fp) Fp_nz) Fp.

Definition view_eqb (v w : Z * Z * Z * Z) : bool :=
  match v, w with (a, b, c, d), (a', b', c', d') => (a =? a') && (b =? b') && (c =? c') && (d =? d') end.

Definition reachable (v : Z * Z * Z * Z) (l : list (Z * Z * Z * Z)) : bool := existsb (view_eqb v) l.

(** number of tapes of secret a whose view can also arise from secret a' *)
Definition overlap (a a' : Z) : nat :=
  let l' := toy_views a' in List.length (filter (fun v => reachable v l') (toy_views a)).

(** The claim "two nonzero secrets (same public output) give the same view distribution" is REFUTED for
    the un-rerandomised product: of the 1210 equally likely tapes of a = 1 only 110 lead to a view that is
    possible at all for any other nonzero secret a'; statistical distance >= 1100/1210 = 10/11. *)
Theorem unrerandomised_product_leaks_refuted :
  List.length (toy_views 1) = 1210%nat /\
  (forall a', In a' (zrange 2 9) -> overlap 1 a' = 110%nat) /\
  exists v, In v (toy_views 1) /\ reachable v (toy_views 2) = false.
Proof.
  split; [vm_compute; reflexivity|]. split.
  - assert (H : forallb (fun a' => Nat.eqb (overlap 1 a') 110) (zrange 2 9) = true) by (vm_compute; reflexivity).
    rewrite forallb_forall in H. intros a' Ha. apply Nat.eqb_eq. auto.
  - exists (toy_view 1 0 1 1). split; [|vm_compute; reflexivity].
    unfold toy_views. apply in_flat_map. exists 0. split; [vm_compute; tauto|].
    apply in_flat_map. exists 1. split; [vm_compute; tauto|].
    apply in_map_iff. exists 1. split; [reflexivity|vm_compute; tauto].
Qed.

(** With a fresh uniform degree-2 sharing of zero  Z = z1 X + z2 X^2  added, the shares at X = 1, 2 of
    h + Z take every pair of values for exactly one (z1, z2), whatever h is: the opened polynomial is
    uniform among those with constant term h(0), so it carries no information beyond the opened value. *)
Definition zero_sharing_count (h1 h2 y1 y2 : Z) : nat :=
  List.length (filter (fun z : Z * Z => let (z1, z2) := z in
      (((h1 + z1 + z2) mod toy_p =? y1) && ((h2 + 2 * z1 + 4 * z2) mod toy_p =? y2)))
      (flat_map (fun z1 => map (fun z2 => (z1, z2)) Fp) Fp)).

Theorem rerandomised_product_uniform :
  forall h1 h2 y1 y2, In h1 Fp -> In h2 Fp -> In y1 Fp -> In y2 Fp -> zero_sharing_count h1 h2 y1 y2 = 1%nat.
Proof.
  assert (H : forallb (fun h1 => forallb (fun h2 => forallb (fun y1 => forallb (fun y2 =>
              Nat.eqb (zero_sharing_count h1 h2 y1 y2) 1) Fp) Fp) Fp) Fp = true) by (vm_compute; reflexivity).
  intros h1 h2 y1 y2 H1 H2 H3 H4.
  rewrite forallb_forall in H. specialize (H h1 H1).
  rewrite forallb_forall in H. specialize (H h2 H2).
  rewrite forallb_forall in H. specialize (H y1 H3).
  rewrite forallb_forall in H. specialize (H y2 H4).
  now apply Nat.eqb_eq.
Qed.

(** rows of the generated product-opening table: is the opened value a local product of sharings, and is
    a zero sharing / reshare applied before the opening on every path (for all field sizes)? *)
Inductive rerand := RAlways | RConditional | RNever | RReused.
Record prow := MkPRow { psite : string; pproduct : bool; prerand : rerand }.
Definition prow_ok (r : prow) : bool :=
  negb (pproduct r) || match prerand r with RAlways => true | _ => false end.

(** * Reusing one zero sharing for two openings

    If two products P1 = f_r f_s and P2 = f_a f_r are opened (threshold 2t) after adding the SAME sharing of
    zero Z, the mask cancels in the difference of the received shares. *)
Lemma same_zero_sharing_cancels (P1 P2 Z : Z -> Z) x : (P1 x + Z x) - (P2 x + Z x) = P1 x - P2 x.
Proof. lia. Qed.

(** Exhaustive count over GF(7), m = 3, t = 1, party at X = 1: its view contains its own shares of a, r, s, the
    two opened values r*s and a*r, and — Z having cancelled — D = f_r (f_s - f_a) at X = 2, 3.  Views are
    encoded as one positive number. *)
Definition p7 : Z := 7.
Definition F7 : list Z := zrange 0 7.
Definition F7_nz : list Z := zrange 1 6.

Definition reuse_view (a al r rh s sg : Z) : positive :=
  let p := p7 in
  let fa x := (a + al * x) mod p in
  let fr x := (r + rh * x) mod p in
  let fs x := (s + sg * x) mod p in
  let d x := (fr x * (fs x - fa x)) mod p in
  Z.to_pos (1 + fa 1 + p * (fr 1 + p * (fs 1 + p * (d 2 + p * (d 3 + p * ((r * s) mod p + p * ((a * r) mod p))))))).

(** all tapes with r, s nonzero (both public results "nonzero" are then the same for every nonzero a) *)
Definition reuse_views (a : Z) : list positive :=
  flat_map (fun al => flat_map (fun r => flat_map (fun rh => flat_map (fun s =>
    map (fun sg => reuse_view a al r rh s sg) F7) F7_nz) F7) F7_nz) F7.

Definition reuse_overlap (a a' : Z) : nat :=
  let S := fold_left (fun acc v => PositiveSet.add v acc) (reuse_views a') PositiveSet.empty in
  List.length (filter (fun v => PositiveSet.mem v S) (reuse_views a)).

(** "Equal outputs give equal view distributions" is REFUTED when the zero sharing is reused: of the 12348
    tapes of a = 1 only 1764 (one in seven) give a view possible for another nonzero secret: SD >= 6/7. *)
Theorem zero_sharing_reuse_leaks_refuted :
  Z.of_nat (List.length (reuse_views 1)) = 12348 /\
  forall a', In a' (zrange 2 5) -> reuse_overlap 1 a' = 1764%nat.
Proof.
  split; [vm_compute; reflexivity|].
  assert (H : forallb (fun a' => Nat.eqb (reuse_overlap 1 a') 1764) (zrange 2 5) = true) by (vm_compute; reflexivity).
  rewrite forallb_forall in H. intros a' Ha. apply Nat.eqb_eq. auto.
Qed.

(** * The low part of [_mod]'s mask: r_modb = random._randbelow(stype, b, bits=True)

    The row of [_mod] counts  b * r_divb - r_modb  as uniform on b * 2^k' consecutive values; that needs r_modb uniform
    on [0, b).  Uniformity of the rejection sampler is proved in RandomFns.v (C33: randbelow_uniform_one_pass,
    randbelow_pass_step) for the model whose restart after a public rejection at bit position i keeps x[:i] and draws
    k - i fresh bits ([firstn i' x ++ nb] with [draw (k - i')]).  The translator reads the restart statement
    [x[i+c:] = runtime.random_bits(sectype, k - i - d)] of the source and emits (c, d); the obligation is (c, d) = (0, 0):
    a revealed bit must never be kept. *)
Definition randbelow_restart_model : Z * Z := (0, 0).
Definition randbelow_restart_ok (src : Z * Z) : bool :=
  (fst src =? fst randbelow_restart_model) && (snd src =? snd randbelow_restart_model).
